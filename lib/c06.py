"""C06 - created transactions spend only eligible own coins, once, with valid
signatures.  Leg A: coq/Properties/C06.v (model Select/Eligible.v on top of
the transaction store model and the ledger).  Leg B: harness/cmd/c06 runs the
real wallet.Wallet over a simulated chain; every created transaction is judged
by the harness' independent ledger (oracle) and every request is re-evaluated
on the selection model (Select/EligibleCorr.v)."""
import concurrent.futures as cf
import re
import tempfile

from vlib import *

ATYPE = {"p2pkh": "P2PKH", "np2wpkh": "NP2WPKH", "p2wpkh": "P2WPKH", "p2tr": "P2TR"}
CODES = {1: "input outside the model's eligible set", 2: "input used twice",
         5: "explicit selection: inputs differ (as a multiset) from the model's, or the model's selection loop refuses",
         6: "signed/unsigned differs from the model's sign / skip decision"}
IMPORTED = 2147483647          # waddrmgr.ImportedAddrAccount


def c_op(o):
    return "(%s, %s)" % (cN(o[0]), cN(o[1]))


def c_cand(c):
    own = "None" if c["own"] is None else "(Some {| o_scope := (%s, %s); o_acct := %s; o_priv := %s |})" % (
        cN(c["own"][0]), cN(c["own"][1]), cN(c["own"][2]), cbool(c.get("priv", False)))
    return ("{| c_utxo := {| u_op := %s; u_amt := %s; u_height := %s; u_hash := 0%%N; u_coinbase := %s |}; "
            "c_owner := %s; c_atype := %s; c_vsize := %s |}") % (
        c_op(c["op"]), cZ(c["amt"]), cZ(c["h"]), cbool(c["cb"]), own, ATYPE.get(c["at"], "OtherScript"), cZ(c["vs"]))


def c_req(r):
    out = "(ROk %s)" % clist([c_op(o) for o in r["inputs"]]) if r["outcome"] == "ok" else "RError"
    return ("{| q_cands := %s;\n     q_ctx := {| x_height := %s; x_maturity := %s; x_locked := %s; x_watch_only := %s; x_wallet_wo := %s |};\n"
            "     q_acct := %s; q_scope := %s; q_change_scope := %s; q_minconf := %s; q_rate := %s; q_strategy := %s; q_explicit := %s;\n"
            "     q_allow := %s; q_dry := %s; q_outcome := %s; q_signed := %s |}") % (
        clist([c_cand(c) for c in r["cands"]]), cZ(r["height"]), cZ(r["maturity"]), clist([c_op(o) for o in r["locked"]]),
        cbool(r["wo"]), cbool(r["wallet_wo"]), cN(r["acct"]),
        copt("(%s, %s)" % (cN(r["scope"]), cN(r["coin"])) if r["scope"] else None),
        copt("(%s, %s)" % (cN(r["chg_scope"]), cN(r["chg_coin"])) if r.get("chg_scope") else None),
        cZ(r["minconf"]), cZ(r["rate"]),
        "Random" if r["strat"] == "random" else "Largest", clist([c_op(o) for o in r["explicit"]]),
        copt(clist([c_op(o) for o in r["allow"]]) if r["has_allow"] else None), cbool(r["dry"]),
        out, copt(cbool(r["signed"]) if r.get("signed_observable") else None))


class C06(Check):
    ID = "C06"
    RULE = ("real wallet.Wallet (regtest, bbolt) driven through the build-tagged notification hooks; the chain backend is the harness' own validating node "
            "(answers SendRawTransaction from the harness ledger: already in mempool / confirmed, unknown or conflicting input, failing script -> refused; "
            "else accepted = PUBLISHED; scripted reject / accept override it). Every wallet has accounts 0..2 in the four default scopes (BIP44 P2PKH, BIP49, BIP84, BIP86), "
            "a CUSTOM key scope (84, 1) sharing BIP84's purpose (credited through the exported TxStore as the registering application would), two WATCH-ONLY accounts "
            "imported by extended public key (scopes 84, 86) and six IMPORTED keys (P2PKH compressed and UNCOMPRESSED, P2WPKH, nested P2WPKH, P2TR with private key; "
            "P2WPKH public key only); one scenario family runs a wallet that is watch-only as a whole. "
            "systematic: per address type x {SendOutputs, CreateSimpleTx, SendOutputsWithInput, FundPsbt+FinalizePsbt}: automatic (largest-first, random) and explicit selections; "
            "one output in each ineligible state {spent by an unconfirmed / confirmed tx, locked, leased, unconfirmed at minconf 1, 1 conf at minconf 2, "
            "5 conf at minconf 6, coinbase at 99 conf, other account, other key scope, SAME PURPOSE OTHER COIN TYPE (both directions), imported key / watch-only account selected for account 0, "
            "reorganised out, coinbase reorganised out} x {explicit selection next to a good output, SendOutputsWithInput, automatic selection that could only succeed by using it}; "
            "the good side of every boundary; duplicate / unknown / filtered explicit outpoints; every imported key and both watch-only accounts through every API "
            "(sign / skip decision: signed and every input verified, or unsigned; public-only key next to a private one); "
            "created -> published accepted / rejected (scripted or by the node's own rules) -> inputs gone / spendable again, also across RESTARTS of the wallet (reopen + start-up re-broadcast; "
            "locks forgotten, leases kept); 2 and 3 SendOutputs calls issued AT ONCE from goroutines (three equal coins / one coin); "
            "minconf above the coinbase maturity; leases and locks on unconfirmed outputs; double-spend pairs with one side forgotten or confirmed; FundPsbt with caller inputs. "
            "random: histories of 18-42 (thorough: -70) operations: receipts on every account kind above (1-4 outputs, dust-size to 5 BTC, both branches, confirmed or not), coinbase receipts "
            "brought to 99/100/101..151 confirmations, blocks including all/none/half of the pending transactions, reorganisations, third-party spends (also double-spend pairs), forgetting an "
            "unconfirmed transaction, late publication of held transactions (node's rules / scripted reject / scripted accept), restarts, concurrent sends, LockOutpoint/UnlockOutpoint, "
            "LeaseOutput/ReleaseOutput with a test clock, and requests with minconf in {0,1,2,6,101,105,150}, 5 fee rates, both strategies or none, 1-3 outputs sized 5%..120% of the eligible total, "
            "explicit selections (valid, duplicate, unknown, spent, locked, leased, immature, below minconf, foreign), UTXO filters, dry runs. "
            "Oracle per created transaction: the harness' own ledger (BIP32 derivation of every wallet script, the keys and accounts it imported, the notifications it delivered, its lock/lease calls, "
            "what its node accepted) and txscript.NewEngine(StandardVerifyFlags) on every input of every result for keys the wallet holds (and on every script a watch-only result carries). "
            "REFUSED = the call returned an error AND no transaction was created, recorded or sent (never the text of the error). "
            "non-trivial = history with at least one created transaction or refused explicit selection; distinct by input")
    N_QUICK = 120
    N_THOROUGH = 4000
    SHARD = 30
    ASSUMPTIONS = [
        "chain-consistent histories (Tx/Hist.v chain_consistent) over a well-formed universe",
        "the address manager's script -> (scope, account, private key held) lookup is a parameter of the model (property C03 is about its correctness); the run-time oracle "
        "uses an independent BIP32 derivation and the harness' own record of imported keys and accounts instead",
        "'published inputs are never reused' is stated while the ledger knows the publishing transaction (never_displaced): a conflicting transaction confirmed by the chain, "
        "a detached coinbase ancestor or an explicit removal frees its other inputs",
        "requests are modelled one at a time; concurrent SendOutputs calls are run and every created transaction is judged against the ledger before the race, but two of them "
        "selecting the same coin is only counted (concurrent_sends_shared_coin): the serialised section of the code ends before the spend is recorded - outside the letter of the property "
        "('successive sends', 'once ... published'), reported as a defect",
        "FundPsbt with caller-supplied inputs: only ownership and single use are asserted (DESIGN section 6, S13); leased/locked/spent inputs are accepted there "
        "and counted in the input distribution (psbt_inputs_accepted:*)",
        "FinalizePsbt is not one of the property's entry points: a P2PKH input it 'signs' with a witness (invalid, yet reported as success) is counted "
        "(finalized_psbt_p2pkh_input_invalid; -psbt-p2pkh makes it a violation); every other input of a finalized packet must verify",
        "watch-only results are outside the signature clause; that SendOutputs hands the unsigned result of a watch-only ACCOUNT to the backend instead of returning ErrTxUnsigned "
        "is counted (unsigned_transaction_handed_to_backend)",
        "outputs of non-default key scopes are not credited by the wallet's notification handler; the custom scope's coins are credited through the exported TxStore",
        "int32/int64 wrap-around not modelled; heights < 2^31, amounts < 2^53 in the runs",
    ]
    PARTIAL_CLAUSES = [
        "signature validity is not a Coq theorem (cryptographic): it is exercised on every input of every signed result with the real script engine "
        "(txscript.NewEngine, StandardVerifyFlags, independent previous-output fetcher), for P2PKH (HD, imported compressed and uncompressed), nested P2WPKH, P2WPKH and P2TR inputs, "
        "HD, custom-scope and imported keys",
        "concurrency: not modelled (see assumptions); exercised by racing SendOutputs calls",
    ]
    EXTRA_TRUSTED = [
        "lib/extract_c06.py: go/ast reading of the explicit selection loop (harness/cmd/extract-c06; in txToOutputs or a helper it calls); when a shape is not recognised the fact is "
        "determined by running the witness scenarios on the code built from the repository (harness/cmd/c06 -probe); evidence field facts_source says which path ran",
        "build-tagged hooks wallet/verif_hooks.go, wtxmgr/verif_hooks.go (deterministic notification delivery, start-up re-broadcast, test clock)",
        "harness/cmd/c06/backend.go: the validating node the wallet publishes to",
        "chaincfg.RegressionNetParams.CoinbaseMaturity = 100 is read from btcd at run time, a parameter of the model",
    ]

    def gen_args(self, tier, seed):
        args = super().gen_args(tier, seed)
        corpus = os.path.join(VERIF, "corpus", "C06")
        pre = []
        if os.path.isdir(corpus):
            # minimized earlier failures run first (one replay file, one history per line)
            os.makedirs(WORK, exist_ok=True)
            p = os.path.join(WORK, "corpus_C06.jsonl")
            with open(p, "w") as out:
                for f in sorted(os.listdir(corpus)):
                    if f.endswith(".json"):
                        out.write(json.dumps(json.load(open(os.path.join(corpus, f)))) + "\n")
            pre.append([self.vh_cmd(), "-replay", p])
        return pre + args

    def nontrivial(self, c):
        return any(r["outcome"] == "ok" or (r["outcome"] == "error" and r["explicit"]) for r in c["obs"]["reqs"])

    def oracle_kinds(self, case):
        return [(v["kind"], v["site"]) for v in case.get("viol", [])]

    def sample(self, c):
        reqs = []
        for r in c["obs"]["reqs"][:4]:
            r = dict(r)
            r["cands"] = r["cands"][:3] + (["... %d candidates" % len(r["cands"])] if len(r["cands"]) > 3 else [])
            reqs.append(r)
        return dict(input=c["in"], requests=reqs, violations=c.get("viol"), tags=c.get("tags"))

    def facts_source(self):
        src, detail = "unknown", ""
        try:
            txt = open(os.path.join(COQ, "Generated", "SelectFacts.v")).read()
            m = re.search(r"\(\* facts source: (\w+)(.*?)\*\)", txt, re.S)
            if m:
                src, detail = m.group(1), re.sub(r"\s+", " ", m.group(2)).strip()
        except OSError:
            pass
        return src, detail

    def extra_coverage(self, cases):
        reqs = [r for c in cases for r in c["obs"]["reqs"]]
        notes = {}
        for c in cases:
            for k, v in (c["obs"].get("notes") or {}).items():
                notes[k] = notes.get(k, 0) + v
        src, detail = self.facts_source()
        return dict(requests=len(reqs), created=sum(1 for r in reqs if r["outcome"] == "ok"),
                    refused_explicit_selections=sum(1 for r in reqs if r["outcome"] == "error" and r["explicit"]),
                    requests_compared_with_model=sum(1 for r in reqs if r["in_model"]),
                    facts_source=src, facts_source_detail=detail,
                    arrangement_compared=getattr(self, "arr_cmp", 0),
                    arrangement_differs_from_model=getattr(self, "arr_diff", 0),
                    errors_although_model_selection_accepts=getattr(self, "soft9", 0),
                    explicit_order_differs=getattr(self, "soft10", 0),
                    observations_not_violations=notes,
                    deep_reorgs=any(c["obs"].get("deep_reorgs") for c in cases),
                    harness_problems=[c["obs"]["problem"] for c in cases if c["obs"].get("problem")][:3])

    def render_cases(self, cases):
        rows = []
        for c in cases:
            rows.append(clist(["\n   " + c_req(r) for r in c["obs"]["reqs"] if r["in_model"]]))
        return """From stdpp Require Import gmap list numbers.
From Coq Require Import ZArith NArith.
From Verif Require Import Tx.Store Select.Eligible Select.EligibleCorr.
Definition cases : list (list creq) :=
%s.
Definition bad := Eval vm_compute in mismatches cases.
Print bad.
Definition det := Eval vm_compute in details cases.
Print det.
Definition soft := Eval vm_compute in [soft_count cases; soft_compared cases; soft_count_code 9 cases; soft_count_code 10 cases].
Print soft.
""" % clist(["\n " + r for r in rows])

    def evaluate_model(self, cases):
        mism, logs, problems = [], "", []
        self.arr_diff, self.arr_cmp, self.soft9, self.soft10 = 0, 0, 0, 0
        shards = [(s, cases[s:s + self.SHARD]) for s in range(0, len(cases), self.SHARD)]

        def run(sh):
            start, chunk = sh
            return start, coq_eval(self.ID, self.render_cases(chunk), "cases_%d" % start)
        with cf.ThreadPoolExecutor(max_workers=12) as ex:
            results = list(ex.map(run, shards))
        for start, (rc, out, err) in results:
            if rc != 0:
                problems.append("correspondence: cases file does not evaluate: " + (err or out)[-1500:])
                continue
            bad = parse_nat_list(parse_printed(out, "bad"))
            if bad is None:
                problems.append("correspondence: could not parse model output: " + out[-500:])
                continue
            if bad:
                logs += "shard %d: %s\n" % (start, (parse_printed(out, "det") or "")[:1500])
            soft = (parse_nat_list(parse_printed(out, "soft")) or []) + [0, 0, 0, 0]
            self.arr_diff += soft[0]
            self.arr_cmp += soft[1]
            self.soft9 += soft[2]
            self.soft10 += soft[3]
            mism.extend(start + b for b in bad)
        for c in cases:
            if c["obs"].get("problem"):
                problems.append("harness problem: " + c["obs"]["problem"])
        for i in mism:
            cases[i]["model_mismatch"] = True
        return mism, logs, problems

    # -- shrinking: drop operations while the same (kind, site) is still reported
    def shrink(self, case, kind):
        sites = {v["site"] for v in case.get("viol", []) if v["kind"] == kind}
        ops = list(case["in"]["ops"])
        best = case
        runs = 0

        def still(cand_ops):
            nonlocal runs
            runs += 1
            with tempfile.NamedTemporaryFile("w", suffix=".jsonl", delete=False, dir=WORK) as f:
                f.write(json.dumps({"in": dict(case["in"], ops=cand_ops)}) + "\n")
                path = f.name
            try:
                rc, cs, err = run_vh([self.vh_cmd(), "-replay", path], timeout=120)
            except Exception:
                return None
            finally:
                os.unlink(path)
            for c in cs:
                if any(v["kind"] == kind and v["site"] in sites for v in c.get("viol", [])):
                    return c
            return None

        if len(ops) <= 3:
            return case
        i = len(ops) - 2            # the last operation is the failing request
        while i >= 0 and runs < 60:
            cand = ops[:i] + ops[i + 1:]
            c = still(cand)
            if c is not None:
                ops, best = cand, c
            i -= 1
        return best


CHECK = C06
