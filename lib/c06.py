"""C06 - created transactions spend only eligible own coins, once, with valid
signatures.  Leg A: coq/Properties/C06.v (model Select/Eligible.v on top of
the transaction store model and the ledger).  Leg B: harness/cmd/c06 runs the
real wallet.Wallet over a simulated chain; every created transaction is judged
by the harness' independent ledger (oracle) and every request is re-evaluated
on the selection model (Select/EligibleCorr.v)."""
import concurrent.futures as cf
import tempfile

from vlib import *

ATYPE = {"p2pkh": "P2PKH", "np2wpkh": "NP2WPKH", "p2wpkh": "P2WPKH", "p2tr": "P2TR"}
CODES = {1: "input outside the model's eligible set", 2: "input used twice",
         5: "explicit selection: inputs differ from the model's", 6: "signed/unsigned differs from the model",
         7: "selection refused, the model's is not", 8: "other error, but the model's selection loop refuses"}


def c_op(o):
    return "(%s, %s)" % (cN(o[0]), cN(o[1]))


def c_cand(c):
    own = "None" if c["own"] is None else "(Some {| o_scope := %s; o_acct := %s |})" % (cN(c["own"][0]), cN(c["own"][1]))
    return ("{| c_utxo := {| u_op := %s; u_amt := %s; u_height := %s; u_hash := 0%%N; u_coinbase := %s |}; "
            "c_owner := %s; c_atype := %s; c_vsize := %s |}") % (
        c_op(c["op"]), cZ(c["amt"]), cZ(c["h"]), cbool(c["cb"]), own, ATYPE.get(c["at"], "OtherScript"), cZ(c["vs"]))


def c_req(r):
    out = {"ok": "(ROk %s)" % clist([c_op(o) for o in r["inputs"]]), "refused": "RRefusedSelection",
           "error": "ROtherError"}[r["outcome"]]
    return ("{| q_cands := %s;\n     q_ctx := {| x_height := %s; x_maturity := %s; x_locked := %s; x_watch_only := false |};\n"
            "     q_acct := %s; q_scope := %s; q_minconf := %s; q_rate := %s; q_strategy := %s; q_explicit := %s;\n"
            "     q_allow := %s; q_dry := %s; q_sorted := %s; q_outcome := %s; q_signed := %s |}") % (
        clist([c_cand(c) for c in r["cands"]]), cZ(r["height"]), cZ(r["maturity"]), clist([c_op(o) for o in r["locked"]]),
        cN(r["acct"]), copt(cN(r["scope"]) if r["scope"] else None), cZ(r["minconf"]), cZ(r["rate"]),
        "Random" if r["strat"] == "random" else "Largest", clist([c_op(o) for o in r["explicit"]]),
        copt(clist([c_op(o) for o in r["allow"]]) if r["has_allow"] else None), cbool(r["dry"]), cbool(r["sorted"]),
        out, cbool(r["signed"]))


class C06(Check):
    ID = "C06"
    RULE = ("real wallet.Wallet (regtest, bbolt) over a simulated chain.Interface, driven through the build-tagged notification hooks. "
            "systematic: for each of the 4 default address types (BIP44 P2PKH, BIP49 nested P2WPKH / P2WPKH change, BIP84 P2WPKH, BIP86 P2TR) "
            "x {SendOutputs, CreateSimpleTx, SendOutputsWithInput, FundPsbt+FinalizePsbt}: automatic (largest-first, random) and explicit selections; "
            "one output in each ineligible state {spent by an unconfirmed / confirmed tx, locked, leased, unconfirmed at minconf 1, 1 conf at minconf 2, "
            "5 conf at minconf 6, coinbase at 99 conf, other account, other key scope, reorganised out, coinbase reorganised out} x "
            "{explicit selection next to a good output, SendOutputsWithInput, automatic selection that could only succeed by using it}; the good side of every "
            "boundary (2/6/100 confirmations, lease expired at its deadline, released, unlocked); duplicate / unknown / filtered explicit outpoints; successive sends, "
            "rejected broadcast, created-but-unpublished, FundPsbt with caller inputs (valid, duplicate, unknown, leased, locked, spent); "
            "minconf above the coinbase maturity (101/105/150 with a coinbase output at 100..minconf-1 confirmations, automatic and explicit, and the reached side); "
            "leases and locks on still unconfirmed outputs followed by minconf-0 requests; two unconfirmed transactions spending the same wallet output with one of "
            "them forgotten (Wallet.RemoveDescendants, or the wallet's own transaction published late and rejected) or one of them confirmed. "
            "random: histories of 18-42 (thorough: -70) operations over accounts 0..2 of all four scopes: receipts (1-4 outputs, dust-size to 5 BTC, external/internal "
            "branch, confirmed or unconfirmed), coinbase receipts brought to 99/100/101 and up to 151 confirmations, blocks including all/none/half of the pending transactions, "
            "reorganisations (depth 1; deeper only when the wallet can detach two blocks in a row), third-party spends of wallet outputs (also of outputs that only unconfirmed transactions spend: double-spend pairs), forgetting an unconfirmed "
            "transaction, late publication (accepted / rejected) of transactions created earlier, LockOutpoint/UnlockOutpoint, "
            "LeaseOutput/ReleaseOutput with a test clock, and requests with minconf in {0,1,2,6,101,105,150}, 5 fee rates, both strategies or none, 1-3 outputs "
            "(5 external script kinds or own addresses) sized 5%..120% of the eligible total, explicit selections (valid, duplicate, unknown, spent, locked, "
            "leased, immature, below minconf, foreign), UTXO filters, dry runs, publication through the backend (accepted or rejected). "
            "Oracle per created transaction: the harness' own ledger (BIP32 derivation of every wallet script from the seed, the notifications it delivered, "
            "its lock/lease calls) and txscript.NewEngine(StandardVerifyFlags) on every input. "
            "non-trivial = history with at least one created transaction or refused selection; distinct by input")
    N_QUICK = 220
    N_THOROUGH = 4000
    SHARD = 30
    ASSUMPTIONS = [
        "chain-consistent histories (Tx/Hist.v chain_consistent) over a well-formed universe; wallet never watch-only in the runs (the model carries the flag)",
        "the address manager's script -> (scope, account) lookup is a parameter of the model (property C03 is about its correctness); the run-time oracle "
        "uses an independent BIP32 derivation instead",
        "'published inputs are never reused' is stated while the publishing transaction is known to the ledger (a double spend confirmed by the chain removes it "
        "and frees its other inputs)",
        "FundPsbt with caller-supplied inputs: only ownership and single use are asserted (DESIGN section 6, S13); leased/locked/spent inputs are accepted there "
        "and counted in the input distribution (psbt_inputs_accepted:*)",
        "FinalizePsbt on packets with P2PKH inputs is not asserted (the PSBT signer is documented for P2WKH, nested P2WKH and taproot key spends); counted as "
        "psbt_p2pkh_inputs_not_finalized",
        "int32/int64 wrap-around not modelled; heights < 2^31, amounts < 2^53 in the runs",
    ]
    PARTIAL_CLAUSES = [
        "signature validity is not a Coq theorem (cryptographic): it is exercised on every input of every non-dry-run result with the real script engine "
        "(txscript.NewEngine, StandardVerifyFlags, independent previous-output fetcher), for P2PKH, nested P2WPKH, P2WPKH and P2TR inputs",
        "serialisation of concurrent requests through the txCreator goroutine is not modelled here (requests are issued one at a time)",
    ]
    EXTRA_TRUSTED = [
        "harness/cmd/extract-c06 (go/ast reading of the explicit selection loop of wallet/createtx.go) and lib/extract_c06.py",
        "build-tagged hooks wallet/verif_hooks.go, wtxmgr/verif_hooks.go (deterministic notification delivery, test clock)",
        "chaincfg.RegressionNetParams.CoinbaseMaturity = 100 is read from btcd at run time, a parameter of the model",
    ]

    def gen_args(self, tier, seed):
        args = super().gen_args(tier, seed)
        corpus = os.path.join(VERIF, "corpus", "C06")
        pre = []
        if os.path.isdir(corpus):
            # minimized earlier failures run first (one replay file, one history per line)
            os.makedirs(WORK, exist_ok=True)
            p = os.path.join(WORK, "corpus_C06.jsonl")
            with open(p, "w") as out:
                for f in sorted(os.listdir(corpus)):
                    if f.endswith(".json"):
                        out.write(json.dumps(json.load(open(os.path.join(corpus, f)))) + "\n")
            pre.append([self.vh_cmd(), "-replay", p])
        return pre + args

    def nontrivial(self, c):
        return any(r["outcome"] in ("ok", "refused") for r in c["obs"]["reqs"])

    def oracle_kinds(self, case):
        return [(v["kind"], v["site"]) for v in case.get("viol", [])]

    def sample(self, c):
        reqs = []
        for r in c["obs"]["reqs"][:4]:
            r = dict(r)
            r["cands"] = r["cands"][:3] + (["... %d candidates" % len(r["cands"])] if len(r["cands"]) > 3 else [])
            reqs.append(r)
        return dict(input=c["in"], requests=reqs, violations=c.get("viol"), tags=c.get("tags"))

    def extra_coverage(self, cases):
        reqs = [r for c in cases for r in c["obs"]["reqs"]]
        return dict(requests=len(reqs), created=sum(1 for r in reqs if r["outcome"] == "ok"),
                    refused_selections=sum(1 for r in reqs if r["outcome"] == "refused"),
                    requests_compared_with_model=sum(1 for r in reqs if r["in_model"]),
                    arrangement_compared=getattr(self, "arr_cmp", 0),
                    arrangement_differs_from_model=getattr(self, "arr_diff", 0),
                    deep_reorgs=any(c["obs"].get("deep_reorgs") for c in cases),
                    harness_problems=[c["obs"]["problem"] for c in cases if c["obs"].get("problem")][:3])

    def render_cases(self, cases):
        rows = []
        for c in cases:
            rows.append(clist(["\n   " + c_req(r) for r in c["obs"]["reqs"] if r["in_model"]]))
        return """From stdpp Require Import gmap list numbers.
From Coq Require Import ZArith NArith.
From Verif Require Import Tx.Store Select.Eligible Select.EligibleCorr.
Definition cases : list (list creq) :=
%s.
Definition bad := Eval vm_compute in mismatches cases.
Print bad.
Definition det := Eval vm_compute in details cases.
Print det.
Definition soft := Eval vm_compute in [soft_count cases; soft_compared cases].
Print soft.
""" % clist(["\n " + r for r in rows])

    def evaluate_model(self, cases):
        mism, logs, problems = [], "", []
        self.arr_diff, self.arr_cmp = 0, 0
        shards = [(s, cases[s:s + self.SHARD]) for s in range(0, len(cases), self.SHARD)]

        def run(sh):
            start, chunk = sh
            return start, coq_eval(self.ID, self.render_cases(chunk), "cases_%d" % start)
        with cf.ThreadPoolExecutor(max_workers=12) as ex:
            results = list(ex.map(run, shards))
        for start, (rc, out, err) in results:
            if rc != 0:
                problems.append("correspondence: cases file does not evaluate: " + (err or out)[-1500:])
                continue
            bad = parse_nat_list(parse_printed(out, "bad"))
            if bad is None:
                problems.append("correspondence: could not parse model output: " + out[-500:])
                continue
            if bad:
                logs += "shard %d: %s\n" % (start, (parse_printed(out, "det") or "")[:1500])
            soft = parse_nat_list(parse_printed(out, "soft")) or [0, 0]
            self.arr_diff += soft[0]
            self.arr_cmp += soft[1] if len(soft) > 1 else 0
            mism.extend(start + b for b in bad)
        for c in cases:
            if c["obs"].get("problem"):
                problems.append("harness problem: " + c["obs"]["problem"])
        for i in mism:
            cases[i]["model_mismatch"] = True
        return mism, logs, problems

    # -- shrinking: drop operations while the same (kind, site) is still reported
    def shrink(self, case, kind):
        sites = {v["site"] for v in case.get("viol", []) if v["kind"] == kind}
        ops = list(case["in"]["ops"])
        best = case
        runs = 0

        def still(cand_ops):
            nonlocal runs
            runs += 1
            with tempfile.NamedTemporaryFile("w", suffix=".jsonl", delete=False, dir=WORK) as f:
                f.write(json.dumps({"in": dict(case["in"], ops=cand_ops)}) + "\n")
                path = f.name
            try:
                rc, cs, err = run_vh([self.vh_cmd(), "-replay", path], timeout=120)
            except Exception:
                return None
            finally:
                os.unlink(path)
            for c in cs:
                if any(v["kind"] == kind and v["site"] in sites for v in c.get("viol", [])):
                    return c
            return None

        if len(ops) <= 3:
            return case
        i = len(ops) - 2            # the last operation is the failing request
        while i >= 0 and runs < 60:
            cand = ops[:i] + ops[i + 1:]
            c = still(cand)
            if c is not None:
                ops, best = cand, c
            i -= 1
        return best


CHECK = C06
