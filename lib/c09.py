import json, os, re

from vlib import *

EXT = ("NewAddress", "CurrentAddress")


IMPORTED = ("SpendImported", "SpendImportedDry", "FundPsbtImported")


def static_branch(call):
    """(scope, account, branch) of the index counter the request draws from.
    A spend whose inputs belong to the imported account creates its change on account 0."""
    account = 0 if call["api"] in IMPORTED else call.get("account", 0)
    return (call["scope"], account, 0 if call["api"] in EXT else 1)


class C09(Check):
    ID = "C09"
    RULE = ("systematic: for every ordered pair (A, B) of NewAddress, NewChangeAddress, CurrentAddress (unused and used tip), "
            "CreateSimpleTx, CreateSimpleTx dry run, FundPsbt on a real wallet.Wallet over bbolt behind the walletdb proxy, A is parked "
            "between its real commit and its OnCommit handlers and B's whole request is started in that window; the same for "
            "spends whose inputs belong to an imported private key (CreateSimpleTx/FundPsbt from ImportedAddrAccount: their change "
            "is created on account 0) against every account-0 request in both orders, and for requests on a second account "
            "(own counters) against account-0 and imported-account requests; "
            "random: 2-8 calls (API/scope mix, warm-up requests, used tip, cached or uncached account), all or some gated, "
            "random orders of call starts and gate releases, and ungated stress runs with 6-16 goroutines. Observed: every "
            "returned address mapped to its derivation index, the order of begin/commit/rollback/handlers events (the schedule), "
            "key counts of the running wallet vs a fresh waddrmgr.Open on a copy of the file. "
            "non-trivial = at least two requests derived from the same account branch; distinct by input")
    N_QUICK = 60
    N_THOROUGH = 1500
    SHARD = 400
    ASSUMPTIONS = [
        "atomicity and exclusivity of the bbolt write transaction (one writer; commit releases the writer lock before the "
        "commit handlers run) are taken from bbolt tx.go / walletdb/bdb and modelled as the steps Begin/Commit/Callback",
        "a step of the model is atomic: Read+Write happen under the scoped manager's own mutex and inside the write transaction",
    ]
    PARTIAL_CLAUSES = [
        "Go scheduler and memory model are not modelled: the theorem is about the lock-level protocol "
        "(newAddrMtx, bbolt writer lock, commit handler), for all interleavings of its atomic steps",
        "the site table is a syntactic (go/ast) check of wallet/*.go: Lock precedes the walletdb.Update statement, Unlock is "
        "deferred or follows it; calls through function values/interfaces and the use of addrMgrWithChangeSource's closure "
        "outside the transaction that created it are not tracked (the extractor refuses function values of issuing functions)",
        "one counter per theorem instance (one scope/account/branch); requests on other branches appear as threads that "
        "take the locks and derive nothing",
        "address requests only: recovery (extendFoundAddresses -> Extend*Addresses, eager in-memory update) does not take "
        "newAddrMtx and is outside this property's quantifier",
    ]
    EXTRA_TRUSTED = [
        "harness/cmd/extract-c09 (go/ast site-table extractor) and harness/internal/proxydb (OnCommit handlers are run by the "
        "proxy after the real commit, in bbolt's order)",
        "lib/extract_c09.py: a site whose locking shape the go/ast reader does not recognise gets its `held` flag from a "
        "behavioural probe of the built code (gated two-request scenario, several partners and repetitions, scope 84 / "
        "account 0 / imported account only); evidence fields facts_source / facts_source_per_site say which path ran",
    ]

    def gen_args(self, tier, seed):
        if tier == "quick":
            return [[self.vh_cmd(), "-n", str(self.N_QUICK), "-seed", str(seed), "-tier", tier]]
        per = self.N_THOROUGH // 3
        return ([[self.vh_cmd(), "-n", str(per), "-seed", str(seed + k), "-tier", tier] for k in range(2)] +
                [[self.vh_cmd(), "-n", str(per), "-seed", str(seed + 7), "-tier", tier, "-stress-only"]])

    # ---------------------------------------------------------------- model
    def branch_cases(self, c):
        """One Coq ccase per account branch some request derived from (or that changed)."""
        i, o = c["in"], c["obs"]
        calls = o["calls"]
        tid = {}
        for k, cl in enumerate(calls):
            if cl["tx"]:
                tid[k] = len(tid)
        labels = []
        for ev in o["events"]:
            name = {"begin": "LBegin", "commit": "LCommit", "rollback": "LRollback", "callbacks": "LCallbacks"}.get(ev["ev"])
            if name is None:
                continue
            # an event of a transaction nobody owns is rendered as an impossible label
            labels.append("%s %d" % (name, tid.get(ev["call"], 999)))
        out = []
        for b in o["branches"]:
            key = (b["scope"], b.get("account", 0), b["branch"])
            mine = [k for k in tid if static_branch(i["calls"][k]) == key and calls[k]["n"] > 0]
            if not mine and b["mem_after"] == b["n0"] and b["disk_after"] == b["n0"]:
                continue
            threads, obs = [], []
            for k in sorted(tid, key=lambda k: tid[k]):
                cl = calls[k]
                n = cl["n"] if k in mine else 0
                threads.append('("%s", %s, %s)' % (cl["site"], cN(n), cbool(cl["commits"])))
                if k in mine and cl["commits"] and not cl["err"]:
                    idx = cl["index"]
                    if idx < 0 or (cl["scope"], cl.get("account", 0), cl["branch"]) != key:
                        idx = 4000000000    # obtained something that is not on the branch the API draws from
                    obs.append("(%d%%nat, %s)" % (tid[k], cN(idx)))
            out.append("{| c_n0 := %s; c_cached := %s; c_threads := %s;\n     c_sched := %s;\n     c_obs := %s; c_mem_after := %s; c_disk_after := %s; c_strict := %s |}" % (
                cN(b["n0"]), cbool(b["cached"]), clist(threads), clist(labels), clist(obs),
                cN(b["mem_after"]), cN(b["disk_after"]), cbool(i.get("kind") != "stress")))
        return out

    def render_cases(self, cases):
        rows = [clist(self.branch_cases(c)) for c in cases]
        return """From Coq Require Import String.
From Verif Require Import Base.Prelude Addr.Conc Addr.ConcCorr.
Local Open Scope string_scope.
Local Open Scope N_scope.
Definition cases : list (list ccase) :=
%s.
Definition bad := Eval vm_compute in mismatches cases.
Print bad.
""" % clist(["\n " + r for r in rows])

    # ------------------------------------------------------------- evidence
    def nontrivial(self, c):
        per = {}
        for k, cl in enumerate(c["obs"]["calls"]):
            if cl["tx"] and cl["n"] > 0:
                key = static_branch(c["in"]["calls"][k])
                per[key] = per.get(key, 0) + 1
        return any(v >= 2 for v in per.values())

    def sample(self, c):
        return dict(calls=[(x["api"], x["scope"], x.get("account", 0), x["gate"]) for x in c["in"]["calls"]], kind=c["in"].get("kind"),
                    script=[(s["op"], s["call"]) for s in c["in"]["script"]],
                    schedule=[(e["ev"], e["call"]) for e in c["obs"]["events"]],
                    obtained=[(x["api"], x["addr"], x["index"], x["n"], x["commits"]) for x in c["obs"]["calls"]],
                    oracle=c["oracle"])

    def extra_coverage(self, cases):
        in_window = sum(1 for c in cases if any(x["blocked"] for x in c["obs"]["calls"]))
        gated = sum(1 for c in cases if any(x["gate"] for x in c["in"]["calls"]))
        notes = sum(1 for c in cases if c["obs"]["notes"])
        # which path of lib/extract_c09.py produced the per-site `held` flags of this run
        src, per_site = "unknown", {}
        try:
            txt = open(os.path.join(COQ, "Generated", "AddrSites.v")).read()
            m = re.search(r"\(\* facts source: (\w+)", txt)
            if m:
                src = m.group(1)
            for m in re.finditer(r'site_name := "([^"]+)".*?held := (\w+); held_from := "(\w+)"', txt, re.S):
                per_site[m.group(1)] = dict(held=m.group(2) == "true", source=m.group(3))
        except OSError:
            pass
        return dict(
            facts_source=src, facts_source_per_site=per_site,
            scenarios_with_gate=gated,
            scenarios_where_a_request_waited_for_the_mutex_while_another_sat_between_commit_and_handlers=in_window,
            scenarios_with_harness_notes=notes,
            addresses_issued=sum(len(b["issued"]) for c in cases for b in c["obs"]["branches"]),
        )

    # --------------------------------------------------------------- shrink
    def shrink(self, case, kind):
        """Greedy removal of calls (with their script steps) while the same
        violation kind is still produced by the real code."""
        best = case
        budget = 40
        changed = True
        while changed and budget > 0:
            changed = False
            n = len(best["in"]["calls"])
            if n <= 2:
                break
            for drop in range(n - 1, -1, -1):
                if budget <= 0:
                    break
                budget -= 1
                cand = self.without_call(best["in"], drop)
                res = self.run_input(cand)
                if res is not None and kind in res.get("oracle", []):
                    best = res
                    changed = True
                    break
        return best

    @staticmethod
    def without_call(inp, drop):
        ren = lambda k: k if k < drop else k - 1
        out = dict(inp)
        out["calls"] = [c for k, c in enumerate(inp["calls"]) if k != drop]
        out["script"] = [dict(op=s["op"], call=ren(s["call"])) for s in inp["script"]
                         if s["op"] == "start_all" or s["call"] != drop]
        return out

    def run_input(self, inp):
        p = os.path.join(WORK, "shrink_in_%s.jsonl" % self.ID)
        with open(p, "w") as f:
            f.write(json.dumps({"in": inp}) + "\n")
        try:
            rc, cs, err = run_vh([self.vh_cmd(), "-replay", p], timeout=120)
        except Exception:
            return None
        return cs[0] if rc == 0 and cs else None


CHECK = C09
