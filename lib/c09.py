import json, os, re, subprocess

from vlib import *

EXT = ("NewAddress", "CurrentAddress", "RawNextExternal", "RecoverExternal")

IMPORTED = ("SpendImported", "SpendImportedDry", "FundPsbtImported")

RECOVER = ("RecoverExternal", "RecoverInternal")


def static_branch(call):
    """(scope, account, branch) of the index counter the request draws from.
    A spend whose inputs belong to the imported account creates its change on account 0;
    recovery extends account 0; the dry-run import works on an account of its own."""
    if call["api"] == "ImportAccountDryRun":
        return ("dry", 0, 0)
    account = 0 if (call["api"] in IMPORTED or call["api"] in RECOVER) else call.get("account", 0)
    return (call["scope"], account, 0 if call["api"] in EXT else 1)


def read_table():
    """site names and flags of the generated table of this run"""
    out, src = {}, "unknown"
    try:
        txt = open(os.path.join(COQ, "Generated", "AddrSites.v")).read()
        m = re.search(r"\(\* facts source: (\w+)", txt)
        if m:
            src = m.group(1)
        for m in re.finditer(r'site_name := "([^"]+)"; site_pkg := "([^"]*)";.*?site_class := "(\w+)";.*?'
                             r'held := (\w+); shared := (\w+); held_from := "(\w+)"', txt, re.S):
            out[m.group(1)] = dict(pkg=m.group(2), cls=m.group(3), held=m.group(4) == "true",
                                   shared=m.group(5) == "true", source=m.group(6))
    except OSError:
        pass
    return out, src


class C09(Check):
    ID = "C09"
    RULE = ("systematic: for every ordered pair (A, B) of NewAddress, NewChangeAddress, CurrentAddress (unused and used tip), "
            "CreateSimpleTx, CreateSimpleTx dry run, FundPsbt on a real wallet.Wallet over bbolt behind the walletdb proxy, A is parked "
            "between its real commit and its OnCommit handlers and B's whole request is started in that window; the same for "
            "spends whose inputs belong to an imported private key (their change is created on account 0) against every account-0 "
            "request in both orders, for requests on a second account, for ImportAccountDryRun (1-4 addresses per branch), and for "
            "wallet.recovery (a chain that reports one index 0-4 above the key count as found: Extend*Addresses) against every request "
            "kind in both orders, each followed by sequential requests (what is handed out NEXT); negative controls: an issuer that goes "
            "to the scoped manager without the wallet's mutex, 1-3 addresses per transaction (the duplicate must show); chains of 12 "
            "requests over both branches, two accounts, three scopes; "
            "random: 2-8 calls (API/scope/account mix, warm-up requests, used tip, cached or uncached account, sometimes a recovery), "
            "all or some gated, random orders of call starts and gate releases, and ungated stress runs with 6-16 goroutines plus "
            "read-only observers.  Two database modes (tag db_*): the proxy runs the OnCommit handlers itself after the real commit "
            "(every window placement scriptable), or bdb/bbolt runs them in its own Commit (real commit ordering; the gate is then "
            "the first commit handler).  Observed: every returned address mapped to its derivation index by a RESTARTED manager, "
            "the order of begin/commit/rollback/handlers events (the schedule), key counts, last address of each branch and the "
            "address cache of the running wallet vs a fresh waddrmgr.Open on a copy of the file, and the address that restarted "
            "manager hands out next.  non-trivial = at least two requests derived from the same account branch; distinct by input")
    N_QUICK = 60
    N_THOROUGH = 1500
    SHARD = 400
    ASSUMPTIONS = [
        "atomicity and exclusivity of the bbolt write transaction (one writer; commit releases the writer lock before the "
        "commit handlers run) are taken from bbolt tx.go / walletdb/bdb and modelled as the steps Begin/Commit/Callback",
        "a step of the model is atomic: Read+Write happen under the scoped manager's own mutex and inside the write transaction",
        "a recovery batch transaction commits (a rolled back one leaves extendAddresses' eager memory update behind: the "
        "known C08/C10 finding, not a scheduling matter)",
    ]
    PARTIAL_CLAUSES = [
        "Go scheduler and memory model are not modelled: the theorem is about the lock-level protocol "
        "(address mutex incl. read locks, bbolt writer lock, commit handler), for all interleavings of its atomic steps; the "
        "thorough tier additionally runs the scenarios under the Go race detector (oracle kind data_race)",
        "the site table is a static check (go/ast + go/types over every package of the repository): call graph with closures "
        "folded into the function creating them, references counted as calls, interface calls resolved by method name; the "
        "hand-over of a CreateSimpleTx request to the transaction-creator goroutine is a channel, not a call (the site is the "
        "function that opens the transaction); code outside the repository calling ScopedKeyManager directly is not covered",
        "one counter per theorem instance (one scope/account/branch); requests on other branches appear as threads that "
        "take the locks and derive nothing; all branches of a scenario are compared, and addresses are compared across all of them",
        "the witness that recovery needs the mutex is proved for a concrete start index (5), not for all",
    ]
    EXTRA_TRUSTED = [
        "harness/cmd/extract-c09 (site-table extractor; third-party imports are type-checked as empty stand-ins) and "
        "harness/internal/proxydb (default mode: OnCommit handlers are run by the proxy after the real commit, in bbolt's order; "
        "native mode: bbolt runs them)",
        "lib/extract_c09.py: a site whose locking shape the reader does not recognise gets its `held` flag from a "
        "behavioural probe of the built code (gated two-request scenario, several partners and repetitions, scope 84 / "
        "account 0 / imported account only); evidence fields facts_source / facts_source_per_site say which path ran",
        "the stand-in issuer (RawNext*) run in place of an issuing site the harness cannot call by name: same primitive, "
        "same absence of the mutex, not the site's own code",
    ]

    # ------------------------------------------------------------ arguments
    def calibration(self):
        """which table site each request kind of the harness goes through (asked of the built code)"""
        exe = os.path.join(WORK, "bin", self.vh_cmd())
        cp = os.path.join(WORK, "c09_calibration.json")
        try:
            c = json.load(open(cp))
            if c.get("mtime") == os.path.getmtime(exe):
                return c["cal"]
        except (OSError, ValueError, KeyError):
            pass
        p = subprocess.run([exe, "-calibrate"], cwd=WORK, env=GOENV, stdout=subprocess.PIPE, stderr=subprocess.PIPE,
                           text=True, timeout=300)
        if p.returncode != 0 or not p.stdout.strip():
            return {}
        cal = json.loads(p.stdout.splitlines()[0])["calibration"]
        with open(cp, "w") as f:
            json.dump(dict(mtime=os.path.getmtime(exe), cal=cal), f)
        return cal

    def standins(self):
        """issuing sites of the table that do not hold the mutex and that no request kind of the harness goes
        through: an issuer of the same shape is run in their place"""
        table, _ = read_table()
        cal = self.calibration()
        driven = {f for ent in cal.values() for f in ent.get("stack", [])}
        out = []
        for name, st in sorted(table.items()):
            if st["cls"] == "issue" and not st["held"] and name not in driven:
                out.append(dict(site=name, branch="both"))
        return out

    def gen_args(self, tier, seed):
        extra = []
        si = self.standins()
        if si:
            extra = ["-standin", json.dumps(si)]
        if tier == "quick":
            return [[self.vh_cmd(), "-n", str(self.N_QUICK), "-seed", str(seed), "-tier", tier] + extra]
        per = self.N_THOROUGH // 3
        sets = ([[self.vh_cmd(), "-n", str(per), "-seed", str(seed + k), "-tier", tier] + (extra if k == 0 else []) for k in range(2)] +
                [[self.vh_cmd(), "-n", str(per), "-seed", str(seed + 7), "-tier", tier, "-stress-only"]])
        race = self.build_race()
        if race:
            sets.append([self.vh_cmd(), "-n", "120", "-seed", str(seed + 11), "-tier", tier, "-child-exe", race, "-procs", "4"])
            sets.append([self.vh_cmd(), "-n", "150", "-seed", str(seed + 12), "-tier", tier, "-stress-only", "-child-exe", race, "-procs", "4"])
        return sets

    def build_race(self):
        """thorough tier: the harness built with the Go race detector (needs cgo); None + a note in the evidence if
        that is not possible here"""
        info = dict(built=False)
        exe = os.path.join(WORK, "bin", "c09-race")
        try:
            with Lock("go"):
                modflag = []
                if REPO != "/repo":
                    modflag = ["-modfile=" + os.path.join(WORK, "alt.mod")]
                env = dict(GOENV, CGO_ENABLED="1")
                p = subprocess.run(["go", "build", "-race"] + modflag + ["-tags", "verif", "-o", exe, "./cmd/c09"], cwd=HARNESS,
                                   env=env, stdout=subprocess.PIPE, stderr=subprocess.PIPE, text=True, timeout=1800)
            if p.returncode == 0:
                info = dict(built=True, cmd="CGO_ENABLED=1 go build -race -tags verif ./cmd/c09")
            else:
                info = dict(built=False, why=(p.stdout + p.stderr)[-600:])
        except (OSError, subprocess.SubprocessError) as e:
            info = dict(built=False, why=str(e))
        os.makedirs(os.path.join(WORK, self.ID), exist_ok=True)
        with open(os.path.join(WORK, self.ID, "race_info.json"), "w") as f:
            json.dump(info, f)
        return exe if info["built"] else None

    # ------------------------------------------------------------- findings
    def oracle_kinds(self, case):
        table, _ = read_table()
        return [(k, self.kind_site(case, k, table)) for k in case.get("oracle", [])]

    def kind_site(self, case, kind, table):
        """the site a violation kind is attributed to: the source site a stand-in issuer represents; for a
        duplicate the site of the request that received an address somebody already had; for the kinds a
        recovery can cause, the recovery's site if one committed in the scenario; else the harness's guess"""
        i, o = case["in"], case["obs"]
        if i.get("stand_in"):
            return i["stand_in"]
        calls = o["calls"] + (o.get("post") or [])
        if kind == "duplicate_address":
            seen = set()
            for cl in calls:
                if cl["err"] or not cl["commits"] or cl["n"] == 0 or cl["api"] in RECOVER:
                    continue
                if any(a in seen for a in cl.get("addrs") or []):
                    return self.site_name(cl, table) or cl["site"]
                seen.update(cl.get("addrs") or [])
        if kind != "data_race":
            for cl in o["calls"]:
                if cl["api"] in RECOVER and cl["commits"] and not cl["err"]:
                    return self.site_name(cl, table)
        return case.get("site", "*") if kind != "duplicate_address" else "*"

    # ---------------------------------------------------------------- model
    def site_name(self, cl, table):
        """table name of the site a call went through: the first repository function on the stack at Begin
        that is in the table; "" for the harness's own mutex-less issuer; else the innermost function (not in
        the table: the comparison then fails, the implementation issued through a transaction the table does not know)"""
        if cl["api"].startswith("RawNext"):
            return ""
        for f in cl.get("stack") or []:
            if f in table:
                return f
        st = cl.get("stack") or []
        return st[0] if st else "?" + cl["api"]

    def branch_cases(self, c, table):
        """One Coq ccase per account branch some request derived from (or that changed)."""
        i, o = c["in"], c["obs"]
        calls = o["calls"]
        post = o.get("post") or []
        tid = {}
        for k, cl in enumerate(calls):
            if cl["tx"]:
                tid[k] = len(tid)
        labels = []
        for ev in o["events"]:
            name = {"begin": "LBegin", "commit": "LCommit", "rollback": "LRollback", "callbacks": "LCallbacks"}.get(ev["ev"])
            if name is None:
                continue
            # an event of a transaction nobody owns is rendered as an impossible label
            labels.append("%s %d" % (name, tid.get(ev["call"], 999)))
        # the sequential requests made afterwards: further threads, run to completion one after the other
        ptid = {}
        for k, cl in enumerate(post):
            t = len(tid) + k
            ptid[k] = t
            if cl["err"]:
                labels += ["LBegin %d" % t, "LRollback %d" % t]
            else:
                labels += ["LBegin %d" % t, "LCommit %d" % t, "LCallbacks %d" % t]
        out = []
        for b in o["branches"]:
            key = (b["scope"], b.get("account", 0), b["branch"])
            mine = [k for k in tid if static_branch(i["calls"][k]) == key and (calls[k].get("derived", calls[k]["n"]) > 0 or calls[k]["api"] in RECOVER)]
            pmine = [k for k in ptid if static_branch(i["post"][k]) == key]
            if not mine and not pmine and b["mem_after"] == b["n0"] and b["disk_after"] == b["n0"]:
                continue
            threads, obs = [], []

            def thread(cl, spec, is_mine, t):
                n, ext = 0, "None"
                if is_mine:
                    if cl["api"] in RECOVER:
                        ext = "(Some %s)" % cN(max(cl["found"], 0))
                    else:
                        n = cl.get("derived", cl["n"])
                threads.append('{| ct_site := "%s"; ct_n := %s; ct_commits := %s; ct_ext := %s |}' % (
                    self.site_name(cl, table), cN(n), cbool(cl["commits"]), ext))
                if is_mine and cl["commits"] and not cl["err"] and cl["api"] not in RECOVER:
                    for idx in cl.get("indices") or [cl["index"]]:
                        if idx < 0 or (cl["scope"], cl.get("account", 0), cl["branch"]) != key:
                            idx = 4000000000    # obtained something that is not on the branch the API draws from
                        obs.append("(%d%%nat, %s)" % (t, cN(idx)))

            for k in sorted(tid, key=lambda k: tid[k]):
                thread(calls[k], i["calls"][k], k in mine, tid[k])
            for k in sorted(ptid):
                cl = post[k]
                n, t = (1 if (k in pmine and not cl["err"]) else 0), ptid[k]
                threads.append('{| ct_site := "%s"; ct_n := %s; ct_commits := %s; ct_ext := None |}' % (
                    self.site_name(cl, table), cN(n), cbool(not cl["err"])))
                if k in pmine and not cl["err"]:
                    for idx in cl.get("indices") or [cl["index"]]:
                        if idx < 0 or (cl["scope"], cl.get("account", 0), cl["branch"]) != key:
                            idx = 4000000000
                        obs.append("(%d%%nat, %s)" % (t, cN(idx)))
            lm = b.get("last_mem", [-2, -2])
            if lm[0] == -2:
                last = "None"
            elif lm[0] == b["branch"] and lm[1] >= 0:
                last = "(Some %s)" % cN(lm[1])
            else:
                last = "(Some %s)" % cN(4000000001)      # the last address reported is not an address of this branch
            out.append("{| c_n0 := %s; c_cached := %s; c_threads := %s;\n     c_sched := %s;\n     c_obs := %s; c_mem_after := %s; "
                       "c_disk_after := %s; c_last_mem := %s; c_cache := %s; c_strict := %s |}" % (
                           cN(b["n0"]), cbool(b["cached"]), clist(threads), clist(labels), clist(obs),
                           cN(b["mem_after"]), cN(b["disk_after"]), last, clist([cN(x) for x in b.get("cache", [])]),
                           cbool(i.get("kind") != "stress")))
        return out

    def render_cases(self, cases):
        table, _ = read_table()
        rows = [clist(self.branch_cases(c, table)) for c in cases]
        return """From Coq Require Import String.
From Verif Require Import Base.Prelude Addr.Conc Addr.ConcCorr.
Local Open Scope string_scope.
Local Open Scope N_scope.
Definition cases : list (list ccase) :=
%s.
Definition bad := Eval vm_compute in mismatches cases.
Print bad.
""" % clist(["\n " + r for r in rows])

    # ------------------------------------------------------------- evidence
    def nontrivial(self, c):
        per = {}
        for k, cl in enumerate(c["obs"]["calls"]):
            if cl["tx"] and (cl["n"] > 0 or cl["api"] in RECOVER):
                key = static_branch(c["in"]["calls"][k])
                per[key] = per.get(key, 0) + 1
        return any(v >= 2 for v in per.values())

    def sample(self, c):
        return dict(calls=[(x["api"], x["scope"], x.get("account", 0), x["gate"]) for x in c["in"]["calls"]], kind=c["in"].get("kind"),
                    native=c["in"].get("native", False),
                    script=[(s["op"], s["call"]) for s in c["in"]["script"]],
                    schedule=[(e["ev"], e["call"]) for e in c["obs"]["events"]],
                    obtained=[(x["api"], x["site"], x["addr"], x.get("indices"), x["n"], x["commits"]) for x in c["obs"]["calls"]],
                    post=[(x["api"], x.get("indices")) for x in c["obs"].get("post") or []],
                    oracle=c["oracle"])

    def extra_coverage(self, cases):
        in_window = sum(1 for c in cases if any(x["blocked"] for x in c["obs"]["calls"]))
        gated = sum(1 for c in cases if any(x["gate"] for x in c["in"]["calls"]))
        notes = sum(1 for c in cases if c["obs"]["notes"])
        # which path of lib/extract_c09.py produced the per-site `held` flags of this run
        table, src = read_table()
        native = [c for c in cases if c["in"].get("native")]
        race = dict(built=False, why="not run in this tier")
        try:
            race = json.load(open(os.path.join(WORK, self.ID, "race_info.json")))
        except (OSError, ValueError):
            pass
        race["scenarios_run_under_the_race_detector"] = sum(1 for c in cases if "run_under_race_detector" in c.get("tags", []))
        race["scenarios_with_a_race_report"] = sum(1 for c in cases if c["obs"].get("race_reports"))
        return dict(
            facts_source=src,
            facts_source_per_site={k: dict(held=v["held"], shared=v["shared"], source=v["source"], cls=v["cls"], pkg=v["pkg"])
                                   for k, v in table.items()},
            packages_of_sites=sorted({v["pkg"] for v in table.values()}),
            scenarios_with_gate=gated,
            scenarios_where_a_request_waited_for_the_mutex_while_another_sat_between_commit_and_handlers=in_window,
            scenarios_with_harness_notes=notes,
            scenarios_db_native_commit_order=len(native),
            scenarios_db_proxy_runs_handlers=len(cases) - len(native),
            negative_controls=sum(1 for c in cases if "negative_control" in c.get("tags", [])),
            negative_controls_showing_the_duplicate=sum(1 for c in cases if "duplicate_address" in (c["obs"].get("control") or [])),
            stand_in_scenarios=sum(1 for c in cases if "stand_in_for_source_site" in c.get("tags", [])),
            addresses_issued=sum(len(b["issued"]) for c in cases for b in c["obs"]["branches"]),
            race_detector=race,
        )

    # --------------------------------------------------------------- shrink
    def shrink(self, case, kind):
        """Greedy removal of calls (with their script steps) while the same
        violation kind is still produced by the real code."""
        best = case
        if kind == "data_race":
            return best
        budget = 40
        changed = True
        while changed and budget > 0:
            changed = False
            n = len(best["in"]["calls"])
            if n <= 2:
                break
            for drop in range(n - 1, -1, -1):
                if budget <= 0:
                    break
                budget -= 1
                cand = self.without_call(best["in"], drop)
                res = self.run_input(cand)
                if res is not None and kind in res.get("oracle", []):
                    best = res
                    changed = True
                    break
        return best

    @staticmethod
    def without_call(inp, drop):
        ren = lambda k: k if k < drop else k - 1
        out = dict(inp)
        out["calls"] = [c for k, c in enumerate(inp["calls"]) if k != drop]
        out["script"] = [dict(op=s["op"], call=ren(s["call"])) for s in inp["script"]
                         if s["op"] == "start_all" or s["call"] != drop]
        return out

    def run_input(self, inp):
        p = os.path.join(WORK, "shrink_in_%s.jsonl" % self.ID)
        with open(p, "w") as f:
            f.write(json.dumps({"in": inp}) + "\n")
        try:
            rc, cs, err = run_vh([self.vh_cmd(), "-replay", p], timeout=120)
        except Exception:
            return None
        return cs[0] if rc == 0 and cs else None


CHECK = C09
