from vlib import *


class C19(Check):
    ID = "C19"
    RULE = ("systematic: failure injected at every position of an unordered 6-entry table x stored versions 0..11; "
            "random: tables of 0..7 entries (unordered, gaps, nil entries, nil duplicates, failing entries, numbers near 2^32), "
            "stored version below/at/above latest, run through migration.Upgrade inside walletdb.Update on a real bbolt file; plus six cases on the REAL "
            "wtxmgr and waddrmgr migration managers through wallet.Open (both components in one database transaction: newer versions refused with the whole "
            "file unchanged, incl. the roll-back of the other component's already applied migration; the real drop-history migration applied and recorded). "
            "non-trivial = at least one pending non-nil migration or stored version above latest; distinct by input")
    N_QUICK = 400
    N_THOROUGH = 20000
    ASSUMPTIONS = ["all-or-nothing of the enclosing walletdb.Update is property C11 (model: abort restores the pre-state)",
                   "sort.Slice is unstable: entries with equal numbers are generated only as nil migrations"]

    def evaluate_model(self, cases):
        # the cases on the real wtxmgr/waddrmgr migration managers are judged by
        # the oracle only (their migrations are real code, not model terms)
        idx = [i for i, c in enumerate(cases) if not c["in"].get("real")]
        mism, logs, problems = super().evaluate_model([cases[i] for i in idx])
        return [idx[m] for m in mism], logs, problems

    def nontrivial(self, c):
        i = c["in"]
        if i.get("real"):
            return True
        latest = max([v["num"] for v in i["versions"]] + [0])
        if i["stored"] > latest:
            return True
        return any(v["num"] > i["stored"] and v["kind"] != "nil" for v in i["versions"])

    def render_cases(self, cases):
        def ver(v):
            m = {"nil": "MNil", "ok": "(MOk %s)" % cN(v["id"]), "fail": "(MFail %s)" % cN(v["id"])}[v["kind"]]
            return "{| num := %s; vmig := %s |}" % (cN(v["num"]), m)

        def outcome(o):
            if o == "ok":
                return "(Some Ok)"
            if o == "reversion":
                return "(Some ErrReversion)"
            if o.startswith("migfail:"):
                return "(Some (ErrMigration %s))" % cN(int(o.split(":")[1]))
            return "None"
        rows = []
        for c in cases:
            i, o = c["in"], c["obs"]
            rows.append("(%s, {| stored := %s; data := %s |}, (%s, {| stored := %s; data := %s |}, %s))" % (
                clist([ver(v) for v in i["versions"]]), cN(i["stored"]), clist([cN(d) for d in i["data"]]),
                outcome(o["outcome"]), cN(o["stored"]), clist([cN(d) for d in o["data"]]),
                clist([cN(d) for d in o["invoked"]])))
        return """From Verif Require Import Base.Prelude Migrate.Migrate Migrate.MigrateCorr.
Local Open Scope N_scope.
Definition cases : list (list version * db * (option outcome * db * list N)) :=
%s.
Definition bad := Eval vm_compute in mismatches cases.
Print bad.
""" % clist(["\n " + r for r in rows])


CHECK = C19
