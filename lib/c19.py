"""C19 - database upgrades apply each pending migration once, in order, or not at all.

Leg A: Properties/C19.v (model Migrate/Migrate.v instantiated with the facts
that lib/extract_c19.py regenerates into Generated/MigrateFacts.v: the
atomicity clauses are theorems about `repo_code`, discharged by eq_refl).
Leg B: harness/cmd/c19 - instrumented services through migration.Upgrade (one
to three per call, failing migrations and SetVersion) and the REAL wtxmgr /
waddrmgr managers on old-version databases with injected write failures;
compared in Coq (Migrate/MigrateCorr.v: case_ok / real_ok) and judged by the
property stated directly (oracle kinds)."""
import re

from vlib import *

# this property's Coq files that the full build may not know yet, with their
# dependencies inside the development (compiled by hand, in this order, while
# they are not listed in _CoqProject)
OWN = [
    ("Generated/MigrateFacts.v", []),
    ("Migrate/Migrate.v", ["Generated/MigrateFacts.v"]),
    ("Migrate/MigrateProofs.v", ["Migrate/Migrate.v"]),
    ("Migrate/MigrateCorr.v", ["Migrate/Migrate.v"]),
    ("Properties/C19.v", ["Migrate/MigrateProofs.v"]),
]


class C19(Check):
    ID = "C19"
    RULE = ("instrumented services through migration.Upgrade inside one walletdb.Update on a real bbolt file - systematic: a failure injected at "
            "every position of an unordered 6-entry table x stored versions 0..11; two services per call with a failing migration at every "
            "position of either table or a failing SetVersion of either x stored versions below/inside/at/above each table; random: 1-3 "
            "services per call, tables of 0..7 entries (unordered, gaps, nil entries, nil duplicates, failing entries, numbers near 2^32), "
            "stored version below/at/above latest, failing SetVersion. REAL wtxmgr and waddrmgr migration managers on databases degraded to "
            "address-manager versions 5, 6, 7 / transaction-manager version 1 / newer than known, through wallet.Open (the repository's call "
            "site), through migration.Upgrade (address manager alone, transaction manager alone, both in the opposite order) and through "
            "waddrmgr.Open / wtxmgr.Open: without failure, and with a write failure injected at EVERY mutating call of the deepest upgrade "
            "(txmgr 1->2, addrmgr 5->8; first/middle/last write of the others; thorough tier: every write of every layout); versions read "
            "back through CurrentVersion, from the raw bucket and by the component's own Open; invoked real migrations from the call stack. "
            "non-trivial = at least one pending non-nil migration or stored version above latest; distinct by input")
    N_QUICK = 400
    N_THOROUGH = 20000
    ASSUMPTIONS = ["all-or-nothing of walletdb.Update itself is property C11 (model: the working copy is committed iff the closure returned nil); "
                   "that the upgrade runs inside ONE such transaction which sees every error is NOT assumed: regenerated facts, premises of the theorems",
                   "sort.Slice is unstable: entries with equal numbers are generated only as nil migrations",
                   "address-manager layouts below version 5 (different bucket structure) are not built; real migrations are observed through "
                   "their writes (a migration that writes nothing would not be seen as invoked)"]

    # -- Coq files not yet known to the full build ------------------------
    def run(self, tier, seed, replay=None):
        import vlib
        orig = vlib.ensure_coq

        def build_then_own():
            r = orig()
            self.ensure_own_files()
            return r
        vlib.ensure_coq = build_then_own
        try:
            return super().run(tier, seed, replay)
        finally:
            vlib.ensure_coq = orig

    def ensure_own_files(self):
        """While Generated/MigrateFacts.v is not listed in _CoqProject the full
        build does not compile it (and so none of the files importing it):
        compile the stale ones by hand, in dependency order, under the build
        lock.  A file that does not compile is left to the normal reporting
        (Properties/C19.v then fails to check)."""
        listed = open(os.path.join(COQ, "_CoqProject")).read()
        if all(f in listed for f, _ in OWN):
            return
        with Lock("coq"):
            def mtime(p):
                return os.path.getmtime(p) if os.path.exists(p) else None
            for f, deps in OWN:
                src = os.path.join(COQ, f)
                if not os.path.exists(src):
                    return
                vo = mtime(src + "o")
                stale = vo is None or vo < os.path.getmtime(src)
                for d in deps:
                    dvo = mtime(os.path.join(COQ, d) + "o")
                    if dvo is None or (vo is not None and vo < dvo):
                        stale = True
                if stale:
                    rc, out, err = sh(["timeout", "900", "coqc", "-R", ".", "Verif", f], cwd=COQ, timeout=1000)
                    if rc != 0:
                        if not f.startswith("Properties/"):
                            log("C19: %s does not compile: %s" % (f, (out + err)[-800:]))
                        return

    def extra_coverage(self, cases):
        src = "unknown"
        try:
            m = re.search(r"\(\* facts source: (.*?) \*\)", open(os.path.join(COQ, "Generated", "MigrateFacts.v")).read(), re.S)
            if m:
                src = re.sub(r"\s+", " ", m.group(1))
        except OSError:
            pass
        real = [c for c in cases if c["in"].get("real")]
        return dict(facts_source=src,
                    real_component_cases=len(real),
                    real_cases_with_write_failure=len([c for c in real if c["obs"].get("fault")]),
                    real_cases_model_compared=len([c for c in real if c["obs"].get("model_compared")]))

    def nontrivial(self, c):
        i = c["in"]
        if i.get("real"):
            return True
        for s in i["mgrs"]:
            latest = max([v["num"] for v in s["versions"]] + [0])
            if s["stored"] > latest:
                return True
            if any(v["num"] > s["stored"] and v["kind"] != "nil" for v in s["versions"]):
                return True
        return False

    # -- correspondence ----------------------------------------------------
    def evaluate_model(self, cases):
        # instrumented cases: exact comparison (case_ok); cases on the real
        # managers that perform an upgrade: projected comparison (real_ok);
        # waddrmgr.Open / wtxmgr.Open alone are judged by the oracle only
        inst = [i for i, c in enumerate(cases) if not c["in"].get("real")]
        real = [i for i, c in enumerate(cases) if c["in"].get("real") and c["obs"].get("model_compared")]
        mism, logs, problems = [], "", []
        for idx, render, name in ((inst, self.render_cases, "cases"), (real, self.render_real, "real")):
            for start in range(0, len(idx), self.SHARD):
                chunk = idx[start:start + self.SHARD]
                rc, out, err = coq_eval(self.ID, render([cases[i] for i in chunk]), "%s_%d" % (name, start))
                logs += out[-2000:] + err[-2000:]
                if rc != 0:
                    problems.append("correspondence: %s file does not evaluate: %s" % (name, err[-1500:]))
                    continue
                bad = parse_nat_list(parse_printed(out, "bad"))
                if bad is None:
                    problems.append("correspondence: could not parse model output: " + out[-500:])
                    continue
                mism.extend(chunk[b] for b in bad)
        return sorted(mism), logs, problems

    @staticmethod
    def _ver(v):
        m = {"nil": "MNil", "ok": "(MOk %s)" % cN(v["id"]), "fail": "(MFail %s)" % cN(v["id"])}[v["kind"]]
        return "{| num := %s; vmig := %s |}" % (cN(v["num"]), m)

    @staticmethod
    def _outcome(o):
        if o == "ok":
            return "(Some Ok)"
        if o == "reversion":
            return "(Some ErrReversion)"
        if o == "setvfail":
            return "(Some ErrSetVersion)"
        if o.startswith("migfail:"):
            return "(Some (ErrMigration %s))" % cN(int(o.split(":")[1]))
        return "None"

    def render_cases(self, cases):
        rows = []
        for c in cases:
            i, o = c["in"], c["obs"]
            ms = clist(["({| table := %s; setv_fails := %s |}, {| stored := %s; data := %s |})" % (
                clist([self._ver(v) for v in s["versions"]]), cbool(s.get("setv_fails", False)),
                cN(s["stored"]), clist([cN(d) for d in s["data"]])) for s in i["mgrs"]])
            obs = clist(["({| stored := %s; data := %s |}, %s)" % (
                cN(m["stored"]), clist([cN(d) for d in m["data"]]), clist([cN(d) for d in m["invoked"]])) for m in o["mgrs"]])
            rows.append("(%s, (%s, %s))" % (ms, self._outcome(o["outcome"]), obs))
        return """From Verif Require Import Base.Prelude Migrate.Migrate Migrate.MigrateCorr.
Local Open Scope N_scope.
Definition cases : list case :=
%s.
Definition bad := Eval vm_compute in mismatches cases.
Print bad.
""" % clist(["\n " + r for r in rows])

    def render_real(self, cases):
        """the real migrations as model terms: MOk <version>, MFail <version>
        where the injected write failure landed, a failing SetVersion where it
        landed there"""
        rows = []
        for c in cases:
            o = c["obs"]
            fault = o.get("fault") or {}
            ms = []
            for m in o["mgrs"]:
                vs = []
                for v in m["table"]:
                    if v["nil"]:
                        kind = "MNil"
                    elif fault.get("ns") == m["ns"] and not fault.get("set_version") and fault.get("version") == v["num"]:
                        kind = "(MFail %s)" % cN(v["num"])
                    else:
                        kind = "(MOk %s)" % cN(v["num"])
                    vs.append("{| num := %s; vmig := %s |}" % (cN(v["num"]), kind))
                setv = fault.get("ns") == m["ns"] and bool(fault.get("set_version"))
                ms.append("({| table := %s; setv_fails := %s |}, %s)" % (clist(vs), cbool(setv), cN(m["stored_before"])))
            cls = {"ok": 0, "reversion": 1}.get(o["class"], 2)
            obs = clist(["(%s, %s, %s)" % (cN(m["version_after"]), cbool(m["namespace_unchanged"]),
                                           clist([cN(d) for d in m["invoked"]])) for m in o["mgrs"]])
            rows.append("(%s, %s, (%s, %s))" % (cbool(o["through_repo_call_site"]), clist(ms), cN(cls), obs))
        return """From Verif Require Import Base.Prelude Migrate.Migrate Migrate.MigrateCorr.
Local Open Scope N_scope.
Definition cases : list real_case :=
%s.
Definition bad := Eval vm_compute in real_mismatches cases.
Print bad.
""" % clist(["\n " + r for r in rows])


CHECK = C19
