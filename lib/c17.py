import re

from vlib import *
from concurrent.futures import ThreadPoolExecutor


def _lit(b):
    return "[" + "; ".join(str(x) for x in b) + "]"


def _hexbytes(h):
    return _lit(bytes.fromhex(h or ""))


def _rel(name, base, h):
    """The byte string h as a Coq term relative to the byte string `base`
    bound to the Coq name `name`: common prefix and suffix are taken from the
    base ([splice], Crypto/SnaclCorr.v), only the differing middle is spelled
    out (a list literal of n numbers is expensive to parse and type-check; the
    near misses of a 200-byte passphrase differ from it in a few bytes)."""
    b = bytes.fromhex(h or "")
    if b == base:
        return name
    p = 0
    while p < len(b) and p < len(base) and b[p] == base[p]:
        p += 1
    q = 0
    while q < len(b) - p and q < len(base) - p and b[len(b) - 1 - q] == base[len(base) - 1 - q]:
        q += 1
    if p + q < 8:
        return _lit(b)
    return "(splice %s %d%%nat %s %d%%nat)" % (name, p, _lit(b[p:len(b) - q]), q)


def _rle(runs):
    return clist(["(%d, %d)" % (a, b) for a, b in (runs or [])])


def _nat(n):
    return "%d%%nat" % n


# this property's Coq files that the full build may not know yet (compiled by
# hand, in this order, while Generated/SnaclFacts.v is not listed in _CoqProject)
OWN = [
    ("Generated/SnaclFacts.v", []),
    ("Crypto/Snacl.v", ["Generated/SnaclFacts.v"]),
    ("Crypto/SnaclProofs.v", ["Crypto/Snacl.v"]),
    ("Crypto/SnaclCorr.v", ["Crypto/Snacl.v"]),
    ("Properties/C17.v", ["Crypto/SnaclProofs.v"]),
]

MGR_OPS = {"open": 0, "unlock": 1, "unlock_unlocked": 2, "change_pub": 3, "change_priv": 4}


def _near_pw(base_hex, name, pw_hex, var="b"):
    """A presented passphrase relative to the creating one (bound to `var`).
    The model's hash is not SHA-256: for a base passphrase longer than the
    HMAC block its SHA-256 (the block it has in the real scrypt) is rendered as
    the model's hash of it."""
    base = bytes.fromhex(base_hex or "")
    if len(base) > 64:
        if name == "sha256":
            return "(corr_hash %s)" % var
        if name == "sha256_append_nul":
            return "(corr_hash %s ++ [0])" % var
    return _rel(var, base, pw_hex)


class C17(Check):
    ID = "C17"
    RULE = ("real snacl (scrypt N=16,r=8,p=1 and other small parameter sets). cipher cases: a random 32-byte key and a random plaintext of "
            "each length in {0,1,15,16,17,31,32,33,63,64,65,255,256,300} (thorough: every length 0..300), all-zero / all-ones key and "
            "plaintext, plus n random lengths in 0..300; for each: Decrypt(Encrypt), EVERY single-bit flip of every ciphertext byte, EVERY "
            "strict truncation length, keys differing in one bit (all 256 single-bit flips for some cases) and the all-zero / all-ones "
            "key, 8 encryptions of the same plaintext pairwise compared. pass cases: 30 fixed base passphrases (empty; 1 byte; ASCII; "
            "NUL; non-UTF-8; accented letters in NFC and in NFD; 63, 64, 65, 100 ASCII bytes; 64 and 200 random bytes; embedded NUL, CR LF, "
            "tab; leading / trailing LF, CR LF, CR, space, tab, NUL; a lone LF; a lone space) plus n/4 random ones: the creating "
            "passphrase after Zero and on a fresh SecretKey after Marshal/Unmarshal, then EVERY near miss on both - one flipped bit "
            "(every bit of passphrases up to 16 bytes, 8 bits of ~14 positions of longer ones; thorough: every bit), case of the "
            "first / last letter and of the whole (ASCII and Latin-1), each of NUL, space, tab, CR, LF, CR LF appended, appended twice, "
            "prepended, on both ends, stripped from either end, removed everywhere, TrimRight of CR LF / of blanks / of NUL, TrimSpace, cut "
            "at the first NUL / LF / CR, LF<->CR LF, tab->space, collapsed blanks, NFC->NFD (all / first letter), NFD->NFC, accents "
            "stripped, truncation at 8/16/32/64/72 bytes, dropped first/last byte, swapped ends, empty, doubled, NUL padding to 64 and to "
            "65 bytes, the SHA-256 of the passphrase (also + NUL, + letter); Unmarshal of 12 input lengths. An accepted near miss is "
            "hmac_equivalent_passphrase_accepted iff its HMAC-SHA256 key block (zero padded to 64, SHA-256 if longer) equals the creating "
            "one's, wrong_passphrase_accepted otherwise. params cases: EVERY single-bit flip of the 88 marshalled bytes followed by "
            "Unmarshal + DeriveKey(correct passphrase) (flips that would make scrypt allocate > 64 MiB are not run and are counted). mgr "
            "cases: waddrmgr.Manager.Encrypt/Decrypt for the three crypto key types on a freshly created manager (FastScryptOptions), "
            "unlocked and locked, every flip and truncation, decrypt under the other key types. mgrpass cases: managers created with 8 "
            "(public, private) passphrase pairs of the base family (thorough: one per base passphrase); waddrmgr.Open with the public "
            "passphrase, Manager.Unlock on the locked and on the unlocked manager, ChangePassphrase's old-passphrase check (public and "
            "private): the right passphrase, every near miss of it, the right one again. non-trivial = at least one tampered "
            "ciphertext / near-miss passphrase / flipped parameter byte was actually submitted; distinct by input")
    N_QUICK = 24
    N_THOROUGH = 200
    SHARD = 6
    ASSUMPTIONS = [
        "cryptographic strength enters as hypotheses, it is not proved: secretbox (XSalsa20-Poly1305) is taken as an ideal AEAD "
        "(law_open_only_sealed is exact; law_seal_binds / law_seal_no_near / law_seal_no_prefix are idealisations: no two sealed "
        "boxes collide, differ in one byte, or extend one another), scrypt as collision-free up to the HMAC key block of the "
        "passphrase (law_kdf_inj) and sha256 as injective (law_hash_inj); the idealised laws are FALSE for the real primitives by "
        "counting, so the theorems carrying them apply literally only to primitives like the toy instance of Crypto/Snacl.v "
        "(C17_laws_satisfiable, C17_nonvacuous); Properties/C17.v says per theorem which laws, which wrapper logic and which "
        "regenerated code fact it rests on",
        "law_kdf_hmac (the passphrase enters scrypt only through its HMAC-SHA256 key block) and law_kdf_domain (scrypt.Key's "
        "errors depend on N, r, p only) are exact properties of golang.org/x/crypto/scrypt v0.22.0, read from its source",
        "three facts about snacl/snacl.go are regenerated from the source (lib/extract_c17.py -> Generated/SnaclFacts.v: go/ast "
        "reader harness/cmd/extract-c17; a shape it does not recognise is decided by running the built code, harness/cmd/c17 -probe) "
        "and are premises of the theorems about Decrypt and DeriveKey: the passphrase bytes reach scrypt.Key unchanged, DeriveKey "
        "compares the whole digest, Decrypt returns an error when secretbox.Open fails; C17_fact_..._needed prove each necessary",
        "nonce freshness (no repeated 24-byte nonce from crypto/rand) is the random source's obligation: it is the hypothesis of "
        "C17_distinct_nonces_distinct_ciphertexts and is exercised by comparing repeated encryptions",
        "Go fixed-size arrays ([32]byte salt/digest/key, [24]byte nonce) appear in the model as byte strings with the length as an "
        "explicit premise (length n = NonceSize, params_in_range)",
        "known finding (known_findings.json): passphrases with the same HMAC key block as the creating one (trailing NUL bytes up to "
        "the 64-byte block; the SHA-256 of a passphrase longer than 64 bytes) are accepted - C17_passphrase_exact states acceptance "
        "iff equal key blocks, C17_passphrase_exact_outside_K the property's clause outside that class, C17_refuted_trailing_nul the "
        "witness; the oracle gives that kind ONLY to an accepted passphrase whose key block (computed in the harness from the "
        "definition of HMAC) equals the creating one's, whichever caller reached DeriveKey; every other accepted passphrase is "
        "wrong_passphrase_accepted, replayed as the failing pair",
    ]
    PARTIAL_CLAUSES = [
        "'decryption under any other key / of an altered or truncated ciphertext fails' and 'accepts only the exact passphrase' are "
        "proved for the wrapper logic of snacl.go (at the regenerated code facts) under the ideal laws of the primitives; that the "
        "real secretbox / scrypt / sha256 behave accordingly is exercised (every bit flip and truncation of every generated "
        "ciphertext, every near-miss passphrase of every base passphrase, every bit flip of the stored parameters), not proved",
        "'encrypting equal plaintexts twice never yields equal ciphertexts' is proved under the hypothesis that the two nonces "
        "differ (the theorem is 'different prefixes differ'); the quality of crypto/rand is outside the model (exercised: 8 "
        "encryptions per case pairwise distinct)",
        "the model's ciphertext, key and digest BYTES are those of the toy instance; the correspondence compares lengths, outcome "
        "classes at every tampering position (ok / ok with other data / error - WHICH error is not compared, no theorem depends on "
        "it; ErrLocked, ErrInvalidKeyType and ErrInvalidPassword-vs-no-key are) and the parameter codec byte for byte",
        "waddrmgr: Manager.Encrypt/Decrypt/selectCryptoKey (C17_manager_wrapper, a restatement of the transcription) and the "
        "passphrase checks of loadManager / Unlock / ChangePassphrase (C17_manager_passphrase: error mapping + DeriveKey, the salted "
        "SHA-512 of the unlocked path idealised as injective) are modelled; the rest of Unlock / ChangePassphrase (re-encryption of "
        "the crypto keys, account key decryption) is exercised only (C05 covers lock state)",
        "Unicode normalisation near misses use a built-in table of Latin-1 letters (NFC <-> NFD, accents stripped), not a full "
        "normaliser",
        "observation outside the property text (not an oracle kind): a stored parameter flip that makes r = 0 or p = 0 makes "
        "DeriveKey panic with a division by zero inside scrypt.Key (snacl does not validate stored N/r/p); counted in the evidence, "
        "folded with 'scrypt returned an error' in the comparison",
    ]
    EXTRA_TRUSTED = [
        "golang.org/x/crypto v0.22.0 (secretbox, scrypt, pbkdf2) and crypto/sha256, crypto/sha512, crypto/rand: outside the model, "
        "idealised by the law_* premises",
        "harness/cmd/extract-c17 (source shapes it accepts as 'true') and harness/cmd/c17 -probe (scrypt.Key of x/crypto as the "
        "reference for 'passphrase bytes unchanged')",
    ]

    def nontrivial(self, c):
        o = c["obs"]
        k = c["in"]["kind"]
        if k in ("cipher", "mgr"):
            return o.get("n_flips", 0) > 0 or o.get("n_truncs", 0) > 0
        if k == "pass":
            return len(o.get("near", [])) > 0
        if k == "mgrpass":
            return len(o.get("mgr_near", [])) > 0
        if k == "params":
            return len(o.get("param_flips", [])) > 0
        return False

    def sample(self, c):
        c = json.loads(json.dumps(c))
        o = c["obs"]
        for key, keep in (("wrong", 3), ("near", 4), ("mgr_near", 4), ("param_flips", 80)):
            if key in o and len(o[key]) > keep:
                n = len(o[key])
                o[key] = o[key][:keep] + ["...(%d entries)" % n]
        return c

    def extra_coverage(self, cases):
        tot = lambda k: sum(c["obs"].get(k, 0) or 0 for c in cases)
        return dict(
            implementation_calls=tot("calls"),
            ciphertext_bit_flips_tried=tot("n_flips"),
            ciphertext_truncations_tried=tot("n_truncs"),
            near_miss_passphrases_tried=sum(len(c["obs"].get("near", [])) for c in cases),
            near_miss_kinds_tried=len({n["name"].split(":")[0] for c in cases for n in c["obs"].get("near", []) + c["obs"].get("mgr_near", [])}),
            manager_level_passphrase_attempts=sum(len(c["obs"].get("mgr_near", [])) for c in cases),
            accepted_not_creating_passphrases=sorted({"%s (%s)" % (a["name"].split(":")[0], a["kind"])
                                                      for c in cases for a in c["obs"].get("accepted_pairs", [])}),
            code_facts_source=self.facts_source(),
            parameter_bit_flips_tried=sum(len(c["obs"].get("param_flips", [])) for c in cases),
            parameter_bit_flips_skipped_too_large=tot("skipped"),
            parameter_bit_flips_scrypt_error=tot("kdf_errors"),
            parameter_bit_flips_scrypt_panic_divide_by_zero=tot("panics"),
            hmac_equivalent_near_misses_accepted=tot("hmac_equiv_accepted"),
            cases_by_kind={k: sum(1 for c in cases if c["in"]["kind"] == k) for k in ("cipher", "pass", "params", "mgr", "mgrpass")},
        )

    def facts_source(self):
        try:
            m = re.search(r"\(\* facts source: (.*?) \*\)", open(os.path.join(COQ, "Generated", "SnaclFacts.v")).read(), re.S)
            return re.sub(r"\s+", " ", m.group(1)) if m else "unknown"
        except OSError:
            return "unknown"

    # The recorded finding lives in snacl.SecretKey.DeriveKey whichever caller
    # reaches it (waddrmgr.Open / Unlock / ChangePassphrase hand the passphrase
    # to it): the HMAC-equivalence kind is attributed to that site.  The kind is
    # only ever produced for passphrases with the creating passphrase's HMAC
    # key block (harness: hmacBlock equality), never for Unlock on an unlocked
    # manager (no kdf there).
    def site_of(self, case, kind):
        if kind == "hmac_equivalent_passphrase_accepted":
            return "snacl.SecretKey.DeriveKey"
        return case.get("site", "*")

    # A violation about passphrases is replayed as the failing PAIR: the
    # creating passphrase(s) of the case and, as "try", only the accepted
    # passphrases that are not HMAC-equivalent.
    def shrink(self, case, kind):
        if kind != "wrong_passphrase_accepted":
            return case
        c = json.loads(json.dumps(case))
        pairs = [a for a in c["obs"].get("accepted_pairs", []) if a["kind"] == kind]
        if not pairs:
            return case
        first = pairs[0]
        c["in"]["try"] = [first["presented"]]
        c["obs"]["accepted_pairs"] = pairs[:8]
        for key in ("near", "mgr_near"):
            if key in c["obs"]:
                c["obs"][key] = [n for n in c["obs"][key] if n["pw"] == first["presented"]]
        c["failing_pair"] = dict(created_hex=first["created"], presented_hex=first["presented"],
                                 created=bytes.fromhex(first["created"]).decode("latin-1"),
                                 presented=bytes.fromhex(first["presented"]).decode("latin-1"),
                                 near_miss=first["name"], accepted_at=first["at"],
                                 others_accepted=sorted({a["name"].split(":")[0] for a in pairs})[:20])
        return c

    def explained_by_known(self, case):
        # the model follows the code on the recorded finding too (HMAC key
        # block), so a model/implementation mismatch is never explained by it
        return False

    # -- rendering -------------------------------------------------------
    def render_case(self, c):
        i, o = c["in"], c["obs"]
        k = i["kind"]
        if k == "cipher":
            if not o.get("nonce"):
                return "CUnknown"
            key = bytes.fromhex(i["key"])
            return ("let b := %s in CCipher {| cc_key := b; cc_nonce := %s; cc_pt := %s; cc_ctlen := %s; cc_rt := %d; "
                    "cc_flips := %s; cc_truncs := %s; cc_wrong := %s |}" % (
                        _hexbytes(i["key"]), _hexbytes(o["nonce"]), _hexbytes(i.get("pt", "")), _nat(o["ct_len"]), o["rt"],
                        _rle(o.get("flips")), _rle(o.get("truncs")),
                        clist(["(%s, %s)" % (_rel("b", key, w[0]), w[1]) for w in o.get("wrong", [])])))
        if k == "mgr":
            return ("CMgr {| mc_locked := %s; mc_kt := %d; mc_nonce := %s; mc_pt := %s; mc_ctlen := %s; mc_rt := %d; "
                    "mc_flips := %s; mc_truncs := %s; mc_cross := %s |}" % (
                        cbool(i.get("locked", False)), i["kt"], _hexbytes(o["nonce"]), _hexbytes(i.get("pt", "")),
                        _nat(o["ct_len"]), o["rt"], _rle(o.get("flips")), _rle(o.get("truncs")),
                        clist(["(%d, %d)" % (a, b) for a, b in o.get("cross", [])])))
        if k == "pass":
            if o.get("created") != "ok":
                return "CCreateFail (%s, %s, %s, %s)" % (_hexbytes(i.get("pass", "")), cZ(i["N"]), cZ(i["r"]), cZ(i["p"]))
            return ("let b := %s in CPass {| pc_pw := b; pc_salt := %s; pc_digest := %s; pc_n := %s; pc_r := %s; pc_p := %s; "
                    "pc_marshalled := %s; pc_zero_ok := %s; pc_exact := %d; pc_restart := %d; pc_near := %s; pc_lens := %s |}" % (
                        _hexbytes(i.get("pass", "")), _hexbytes(o["salt"]), _hexbytes(o["digest"]),
                        cZ(i["N"]), cZ(i["r"]), cZ(i["p"]), _hexbytes(o["marshalled"]), cbool(o.get("zero_ok", False)),
                        o["exact"], o["restart"],
                        clist(["(%s, %d, %d)" % (_near_pw(i.get("pass", ""), n["name"], n["pw"]), n["zeroed"], n["restart"])
                               for n in o.get("near", [])]),
                        clist(["(%s, %d)" % (_nat(a), b) for a, b in o.get("lens", [])])))
        if k == "mgrpass":
            base = i.get("pub", "") if i["op"] in ("open", "change_pub") else i.get("priv", "")
            var = "bpub" if i["op"] in ("open", "change_pub") else "bpriv"
            return ("let bpub := %s in let bpriv := %s in "
                    "CMgrPass {| mq_op := %d; mq_pub := bpub; mq_priv := bpriv; mq_right := %d; mq_still := %s; mq_near := %s |}" % (
                        _hexbytes(i.get("pub", "")), _hexbytes(i.get("priv", "")), MGR_OPS.get(i["op"], 9),
                        o.get("right_ok", 0),      # omitted by the harness when 0 = accepted
                        cbool(o.get("still_ok", False)),
                        clist(["(%s, %d)" % (_near_pw(base, n["name"], n["pw"], var) if i["op"] != "unlock_unlocked"
                                             else _rel(var, bytes.fromhex(base), n["pw"]), n["cls"])
                               for n in o.get("mgr_near", [])])))
        if k == "params":
            if o.get("created") != "ok":
                return "CCreateFail (%s, %s, %s, %s)" % (_hexbytes(i.get("pass", "")), cZ(i["N"]), cZ(i["r"]), cZ(i["p"]))
            return ("CParams {| qc_pw := %s; qc_salt := %s; qc_n := %s; qc_r := %s; qc_p := %s; qc_flips := %s |}" % (
                _hexbytes(i.get("pass", "")), _hexbytes(o["salt"]), cZ(i["N"]), cZ(i["r"]), cZ(i["p"]),
                clist([str(x) for x in o.get("param_flips", [])])))
        return "CUnknown"

    def render_cases(self, cases):
        return """From Verif Require Import Base.Prelude Crypto.Snacl Crypto.SnaclCorr.
Local Open Scope N_scope.
Definition cases : list case :=
%s.
Definition bad := Eval vm_compute in mismatches cases.
Print bad.
""" % clist(["\n (" + self.render_case(c) + ")" for c in cases])

    # -- Coq files not yet known to the full build ------------------------
    def run(self, tier, seed, replay=None):
        import vlib
        orig = vlib.ensure_coq

        def build_then_own():
            r = orig()
            self.ensure_own_files()
            return r
        vlib.ensure_coq = build_then_own
        try:
            return super().run(tier, seed, replay)
        finally:
            vlib.ensure_coq = orig

    def ensure_own_files(self):
        """While Generated/SnaclFacts.v is not listed in _CoqProject the full
        build does not compile it and does not know that Crypto/Snacl.v depends
        on it: compile the stale ones by hand, in dependency order, under the
        build lock.  A file that does not compile is left to the normal
        reporting (Properties/C17.v then fails to check)."""
        listed = open(os.path.join(COQ, "_CoqProject")).read()
        if all(f in listed for f, _ in OWN):
            return
        with Lock("coq"):
            def mtime(p):
                return os.path.getmtime(p) if os.path.exists(p) else None
            for f, deps in OWN:
                src = os.path.join(COQ, f)
                if not os.path.exists(src):
                    return
                vo = mtime(src + "o")
                stale = vo is None or vo < os.path.getmtime(src)
                for d in deps:
                    dvo = mtime(os.path.join(COQ, d) + "o")
                    if dvo is None or (vo is not None and vo < dvo):
                        stale = True
                if stale:
                    rc, out, err = sh(["timeout", "900", "coqc", "-R", ".", "Verif", f], cwd=COQ, timeout=1000)
                    if rc != 0:
                        if not f.startswith("Properties/"):
                            log("C17: %s does not compile: %s" % (f, (out + err)[-800:]))
                        return

    # shards are evaluated concurrently (each is an independent coqc run)
    def evaluate_model(self, cases):
        starts = list(range(0, len(cases), self.SHARD))

        def one(start):
            chunk = cases[start:start + self.SHARD]
            return start, coq_eval(self.ID, self.render_cases(chunk), "cases_%d" % start)

        mism, logs, problems = [], "", []
        with ThreadPoolExecutor(max_workers=min(12, max(1, len(starts)))) as ex:
            results = list(ex.map(one, starts))
        for start, (rc, out, err) in results:
            logs += out[-1000:] + err[-1000:]
            if rc != 0:
                problems.append("correspondence: cases file does not evaluate: " + err[-1500:])
                continue
            bad = parse_nat_list(parse_printed(out, "bad"))
            if bad is None:
                problems.append("correspondence: could not parse model output: " + out[-500:])
                continue
            mism.extend(start + b for b in bad)
        return sorted(mism), logs, problems


CHECK = C17
