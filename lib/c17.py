from vlib import *
from concurrent.futures import ThreadPoolExecutor


def _hexbytes(h):
    b = bytes.fromhex(h or "")
    return "[" + "; ".join(str(x) for x in b) + "]"


def _rle(runs):
    return clist(["(%d, %d)" % (a, b) for a, b in (runs or [])])


def _nat(n):
    return "%d%%nat" % n


class C17(Check):
    ID = "C17"
    RULE = ("real snacl (scrypt N=16,r=8,p=1 and other small parameter sets). cipher cases: a random 32-byte key and a random plaintext of "
            "each length in {0,1,15,16,17,31,32,33,63,64,65,255,256,300} (thorough: every length 0..300), all-zero / all-ones key and "
            "plaintext, plus n random lengths in 0..300; for each: Decrypt(Encrypt), EVERY single-bit flip of every ciphertext byte, EVERY "
            "strict truncation length, keys differing in one bit (all 256 single-bit flips for some cases) and the all-zero / all-ones "
            "key, 8 encryptions of the same plaintext pairwise compared. pass cases: fixed and random passphrases (empty, 1 byte, "
            "ASCII, UTF-8, NUL, 64 and 200 bytes): the creating passphrase after Zero and on a fresh SecretKey after Marshal/Unmarshal, "
            "near misses (every single-bit flip incl. case changes, dropped first/last byte, appended NUL / space / letter, prepended "
            "NUL, doubled, swapped ends, empty, upper/lower), Unmarshal of 12 input lengths. params cases: EVERY single-bit flip of "
            "the 88 marshalled bytes followed by Unmarshal + DeriveKey(correct passphrase) (flips that would make scrypt allocate "
            "> 64 MiB are not run and are counted). mgr cases: waddrmgr.Manager.Encrypt/Decrypt for the three crypto key types on a "
            "freshly created manager (FastScryptOptions), unlocked and locked, every flip and truncation, decrypt under the other "
            "key types. non-trivial = at least one tampered ciphertext / near-miss passphrase / flipped parameter byte was "
            "actually submitted; distinct by input")
    N_QUICK = 24
    N_THOROUGH = 200
    SHARD = 12
    ASSUMPTIONS = [
        "cryptographic strength enters as hypotheses, it is not proved: secretbox (XSalsa20-Poly1305) is taken as an ideal AEAD "
        "(law_open_only_sealed is exact; law_seal_binds / law_seal_no_near / law_seal_no_prefix are idealisations: no two sealed "
        "boxes collide, differ in one byte, or extend one another), scrypt as collision-free up to the HMAC key block of the "
        "passphrase (law_kdf_inj) and sha256 as injective (law_hash_inj); every theorem lists the laws it uses as premises and "
        "the toy instance of Crypto/Snacl.v satisfies all of them (C17_laws_satisfiable, C17_nonvacuous)",
        "law_kdf_hmac (the passphrase enters scrypt only through its HMAC-SHA256 key block) and law_kdf_domain (scrypt.Key's "
        "errors depend on N, r, p only) are exact properties of golang.org/x/crypto/scrypt v0.22.0, read from its source",
        "nonce freshness (no repeated 24-byte nonce from crypto/rand) is the random source's obligation: it is the hypothesis of "
        "C17_distinct_nonces_distinct_ciphertexts and is exercised by comparing repeated encryptions",
        "Go fixed-size arrays ([32]byte salt/digest/key, [24]byte nonce) appear in the model as byte strings with the length as an "
        "explicit premise (length n = NonceSize, params_in_range)",
        "known finding (known_findings.json): passphrases with the same HMAC key block as the creating one (trailing NUL bytes) are "
        "accepted - C17_passphrase_exact states acceptance iff equal key blocks, C17_passphrase_exact_outside_K the property's "
        "clause outside that class, C17_refuted_trailing_nul the witness",
    ]
    PARTIAL_CLAUSES = [
        "'decryption under any other key / of an altered or truncated ciphertext fails' and 'accepts only the exact passphrase' are "
        "proved for the wrapper logic of snacl.go under the ideal laws of the primitives; that the real secretbox / scrypt / sha256 "
        "behave accordingly is exercised (every bit flip and truncation of every generated ciphertext, near-miss passphrases, every "
        "bit flip of the stored parameters), not proved",
        "'encrypting equal plaintexts twice never yields equal ciphertexts' is proved under the hypothesis that the two nonces "
        "differ; the quality of crypto/rand is outside the model (exercised: 8 encryptions per case pairwise distinct)",
        "the model's ciphertext, key and digest BYTES are those of the toy instance; the correspondence compares lengths, outcome "
        "classes at every tampering position and the parameter codec byte for byte, not ciphertext contents",
        "waddrmgr: only Manager.Encrypt/Decrypt/selectCryptoKey are modelled (C17_manager_wrapper); loadManager/Unlock's use of "
        "DeriveKey is exercised through Create/Open/Unlock/Lock of a real manager, not modelled here (C05 covers lock state)",
        "observation outside the property text (not an oracle kind): a stored parameter flip that makes r = 0 or p = 0 makes "
        "DeriveKey panic with a division by zero inside scrypt.Key (snacl does not validate stored N/r/p); counted in the evidence",
    ]
    EXTRA_TRUSTED = [
        "golang.org/x/crypto v0.22.0 (secretbox, scrypt, pbkdf2) and crypto/sha256, crypto/rand: outside the model, idealised by the "
        "law_* premises",
    ]

    def nontrivial(self, c):
        o = c["obs"]
        k = c["in"]["kind"]
        if k in ("cipher", "mgr"):
            return o.get("n_flips", 0) > 0 or o.get("n_truncs", 0) > 0
        if k == "pass":
            return len(o.get("near", [])) > 0
        if k == "params":
            return len(o.get("param_flips", [])) > 0
        return False

    def sample(self, c):
        c = json.loads(json.dumps(c))
        o = c["obs"]
        for key, keep in (("wrong", 3), ("near", 4), ("param_flips", 80)):
            if key in o and len(o[key]) > keep:
                n = len(o[key])
                o[key] = o[key][:keep] + ["...(%d entries)" % n]
        return c

    def extra_coverage(self, cases):
        tot = lambda k: sum(c["obs"].get(k, 0) or 0 for c in cases)
        return dict(
            implementation_calls=tot("calls"),
            ciphertext_bit_flips_tried=tot("n_flips"),
            ciphertext_truncations_tried=tot("n_truncs"),
            near_miss_passphrases_tried=sum(len(c["obs"].get("near", [])) for c in cases),
            parameter_bit_flips_tried=sum(len(c["obs"].get("param_flips", [])) for c in cases),
            parameter_bit_flips_skipped_too_large=tot("skipped"),
            parameter_bit_flips_scrypt_error=tot("kdf_errors"),
            parameter_bit_flips_scrypt_panic_divide_by_zero=tot("panics"),
            hmac_equivalent_near_misses_accepted=tot("hmac_equiv_accepted"),
            cases_by_kind={k: sum(1 for c in cases if c["in"]["kind"] == k) for k in ("cipher", "pass", "params", "mgr")},
        )

    def explained_by_known(self, case):
        # the model follows the code on the recorded finding too (HMAC key
        # block), so a model/implementation mismatch is never explained by it
        return False

    # -- rendering -------------------------------------------------------
    def render_case(self, c):
        i, o = c["in"], c["obs"]
        k = i["kind"]
        if k == "cipher":
            if not o.get("nonce"):
                return "CUnknown"
            return ("CCipher {| cc_key := %s; cc_nonce := %s; cc_pt := %s; cc_ctlen := %s; cc_rt := %d; "
                    "cc_flips := %s; cc_truncs := %s; cc_wrong := %s |}" % (
                        _hexbytes(i["key"]), _hexbytes(o["nonce"]), _hexbytes(i.get("pt", "")), _nat(o["ct_len"]), o["rt"],
                        _rle(o.get("flips")), _rle(o.get("truncs")),
                        clist(["(%s, %s)" % (_hexbytes(w[0]), w[1]) for w in o.get("wrong", [])])))
        if k == "mgr":
            return ("CMgr {| mc_locked := %s; mc_kt := %d; mc_nonce := %s; mc_pt := %s; mc_ctlen := %s; mc_rt := %d; "
                    "mc_flips := %s; mc_truncs := %s; mc_cross := %s |}" % (
                        cbool(i.get("locked", False)), i["kt"], _hexbytes(o["nonce"]), _hexbytes(i.get("pt", "")),
                        _nat(o["ct_len"]), o["rt"], _rle(o.get("flips")), _rle(o.get("truncs")),
                        clist(["(%d, %d)" % (a, b) for a, b in o.get("cross", [])])))
        if k == "pass":
            if o.get("created") != "ok":
                return "CCreateFail (%s, %s, %s, %s)" % (_hexbytes(i.get("pass", "")), cZ(i["N"]), cZ(i["r"]), cZ(i["p"]))
            return ("CPass {| pc_pw := %s; pc_salt := %s; pc_digest := %s; pc_n := %s; pc_r := %s; pc_p := %s; "
                    "pc_marshalled := %s; pc_zero_ok := %s; pc_exact := %d; pc_restart := %d; pc_near := %s; pc_lens := %s |}" % (
                        _hexbytes(i.get("pass", "")), _hexbytes(o["salt"]), _hexbytes(o["digest"]),
                        cZ(i["N"]), cZ(i["r"]), cZ(i["p"]), _hexbytes(o["marshalled"]), cbool(o.get("zero_ok", False)),
                        o["exact"], o["restart"],
                        clist(["(%s, %d, %d)" % (_hexbytes(n["pw"]), n["zeroed"], n["restart"]) for n in o.get("near", [])]),
                        clist(["(%s, %d)" % (_nat(a), b) for a, b in o.get("lens", [])])))
        if k == "params":
            if o.get("created") != "ok":
                return "CCreateFail (%s, %s, %s, %s)" % (_hexbytes(i.get("pass", "")), cZ(i["N"]), cZ(i["r"]), cZ(i["p"]))
            return ("CParams {| qc_pw := %s; qc_salt := %s; qc_n := %s; qc_r := %s; qc_p := %s; qc_flips := %s |}" % (
                _hexbytes(i.get("pass", "")), _hexbytes(o["salt"]), cZ(i["N"]), cZ(i["r"]), cZ(i["p"]),
                clist([str(x) for x in o.get("param_flips", [])])))
        return "CUnknown"

    def render_cases(self, cases):
        return """From Verif Require Import Base.Prelude Crypto.Snacl Crypto.SnaclCorr.
Local Open Scope N_scope.
Definition cases : list case :=
%s.
Definition bad := Eval vm_compute in mismatches cases.
Print bad.
""" % clist(["\n " + self.render_case(c) for c in cases])

    # shards are evaluated concurrently (each is an independent coqc run)
    def evaluate_model(self, cases):
        starts = list(range(0, len(cases), self.SHARD))

        def one(start):
            chunk = cases[start:start + self.SHARD]
            return start, coq_eval(self.ID, self.render_cases(chunk), "cases_%d" % start)

        mism, logs, problems = [], "", []
        with ThreadPoolExecutor(max_workers=min(12, max(1, len(starts)))) as ex:
            results = list(ex.map(one, starts))
        for start, (rc, out, err) in results:
            logs += out[-1000:] + err[-1000:]
            if rc != 0:
                problems.append("correspondence: cases file does not evaluate: " + err[-1500:])
                continue
            bad = parse_nat_list(parse_printed(out, "bad"))
            if bad is None:
                problems.append("correspondence: could not parse model output: " + out[-500:])
                continue
            mism.extend(start + b for b in bad)
        return sorted(mism), logs, problems


CHECK = C17
