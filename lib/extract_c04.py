"""Facts of waddrmgr that the C04 theorems and correspondence depend on,
regenerated from the repository's current source into coq/Generated/TaintSites.v.

  * which address-row types `deletePrivateKeys` (waddrmgr/db.go) strips of
    their private field when a manager is converted to watching-only: the
    case labels of its address switch.  adtImport, adtScript and
    adtWitnessScript are required (each must re-serialise with `nil` for the
    private part); whether adtTaprootScript rows are stripped is the flag
    `wo_strips_taproot` the model Addr/Taint.v is instantiated with;
  * that it deletes the four private rows of the main bucket, the coin-type
    private key of every scope, and blanks the account private key;
  * whether `Manager.Unlock` (waddrmgr/manager.go) ever loads the script
    crypto key (`unlock_decrypts_script_key`; DESIGN section 6, S5).

  * WHICH KEY SEALS WHAT at every place where the result of an `X.Encrypt(arg)`
    call is stored (harness/cmd/extract-c04, go/ast, nothing compiled): the
    receiver X (which crypto / master key) and the origin class of arg
    (rootKey / derived private extended key / EC private key / secret script /
    crypto key bytes = secret; Neuter()ed keys, public keys, address ids,
    public scripts = public), per slot of the db.go function that receives it.
    The entries of the functions the model's operations are named after become
    the `table` the model Addr/Taint.v is instantiated with; all entries are
    listed in `source_entries` (Properties/C04.v decides `table_ok table` and
    `source_sites_ok` by computation).

Primary path: the shape of the source (switch over the address-row type, or
the equivalent if / else-if chain comparing one evaluation of the tag).
Fallback, only when the shape is not recognised: the regenerated facts are
determined behaviourally by running their witness scenarios on the code built
from the repository (probe_facts): for the sealing table the decrypt-and-
classify look of the harness at the rows each operation wrote (which key
opens the field, what the plaintext is).  The Generated file records which
path ran (`facts source:`).  Only if both paths fail does main raise, so that
the check reports a broken obligation instead of keeping an old table."""
import os, re


class ExtractError(Exception):
    pass


def strip_comments(src):
    src = re.sub(r"/\*.*?\*/", " ", src, flags=re.S)
    return "\n".join(re.sub(r"//.*$", "", l) for l in src.split("\n"))


def func_body(src, pattern, path):
    m = re.search(pattern, src, flags=re.M)
    if not m:
        raise ExtractError("%s: %s not found" % (path, pattern))
    i = src.index("{", m.end())
    depth, j = 0, i
    while j < len(src):
        if src[j] == "{":
            depth += 1
        elif src[j] == "}":
            depth -= 1
            if depth == 0:
                return src[i + 1:j]
        j += 1
    raise ExtractError("%s: %s: unbalanced braces" % (path, pattern))


def switch_cases(body, head, path):
    """{label: text of the case body} for the switch introduced by `head`."""
    m = re.search(head, body)
    if not m:
        raise ExtractError("%s: deletePrivateKeys: `%s` not found" % (path, head))
    i = body.index("{", m.end() - 1)
    depth, j = 0, i
    while j < len(body):
        if body[j] == "{":
            depth += 1
        elif body[j] == "}":
            depth -= 1
            if depth == 0:
                break
        j += 1
    text = body[i + 1:j]
    # split at top-level `case ...:` labels
    out, depth, pos, marks = {}, 0, 0, []
    for mm in re.finditer(r"[{}]|\bcase\s+([\w\s,]+):|\bdefault\s*:", text):
        tok = mm.group(0)
        if tok == "{":
            depth += 1
        elif tok == "}":
            depth -= 1
        elif depth == 0:
            marks.append((mm.start(), mm.end(), mm.group(1)))
    for n, (s, e, labels) in enumerate(marks):
        end = marks[n + 1][0] if n + 1 < len(marks) else len(text)
        if labels is None:
            continue
        for lab in [x.strip() for x in labels.split(",")]:
            out[lab] = text[e:end]
    return out


def ifchain_cases(body, tag, path):
    """{label: text of the arm} for an if / else-if chain that compares ONE tag value with labels:
         if [v := <tag>;] (v|<tag>) == L1 [|| (v|<tag>) == L2 ...] { arm } else if ... { arm }
    equivalent to an expression switch over <tag> without default and without fall-through when the tag is
    evaluated once (init statement) or is a plain field read compared in every condition.  A final plain
    `else { ... }` is refused (it would be a default arm)."""
    tagre = re.escape(tag)
    m = None
    for cand in re.finditer(r"\bif\s+(?:(\w+)\s*:=\s*%s\s*;\s*)?((?:\w+|%s)\s*==\s*\w+(?:\s*\|\|\s*(?:\w+|%s)\s*==\s*\w+)*)\s*\{" % (tagre, tagre, tagre), body):
        before = body[:cand.start()].rstrip()
        if before.endswith("else"):
            continue
        if cand.group(1) or re.search(tagre, cand.group(2)):
            m = cand
            break
    if not m:
        raise ExtractError("%s: deletePrivateKeys: no if-chain over %s found" % (path, tag))
    var = m.group(1)
    out = {}
    cond, pos = m.group(2), m.end() - 1
    while True:
        labels = []
        for part in cond.split("||"):
            mm = re.fullmatch(r"\s*(\w+|%s)\s*==\s*(\w+)\s*" % tagre, part)
            if not mm or mm.group(1) not in ([var] if var else []) + [tag]:
                raise ExtractError("%s: deletePrivateKeys: condition %r of the if-chain is not a comparison of %s" % (path, cond, tag))
            labels.append(mm.group(2))
        depth, j = 0, pos
        while j < len(body):
            if body[j] == "{":
                depth += 1
            elif body[j] == "}":
                depth -= 1
                if depth == 0:
                    break
            j += 1
        arm = body[pos + 1:j]
        if var and re.search(r"\b%s\s*(=[^=]|:=)" % re.escape(var), arm):
            raise ExtractError("%s: deletePrivateKeys: the tag variable is assigned inside an arm" % path)
        for lab in labels:
            if lab in out:
                raise ExtractError("%s: deletePrivateKeys: label %s occurs twice in the if-chain" % (path, lab))
            out[lab] = arm
        rest = body[j + 1:]
        m2 = re.match(r"\s*else\s+if\s+((?:\w+|%s)\s*==\s*\w+(?:\s*\|\|\s*(?:\w+|%s)\s*==\s*\w+)*)\s*\{" % (tagre, tagre), rest)
        if m2:
            cond, pos = m2.group(1), j + 1 + m2.end() - 1
            continue
        if re.match(r"\s*else\b", rest):
            raise ExtractError("%s: deletePrivateKeys: the if-chain ends with a plain else (a default arm)" % path)
        return out


def squeeze(s):
    return re.sub(r"\s+", "", s)


def source_facts(repo):
    """facts read off the shape of the source (primary path)"""
    p_db = os.path.join(repo, "waddrmgr", "db.go")
    p_mgr = os.path.join(repo, "waddrmgr", "manager.go")
    db = strip_comments(open(p_db).read())
    mgr = strip_comments(open(p_mgr).read())

    body = func_body(db, r"^func\s+deletePrivateKeys\s*\(", p_db)
    for name in ["masterPrivKeyName", "cryptoPrivKeyName", "cryptoScriptKeyName", "masterHDPrivName"]:
        if not re.search(r"bucket\.Delete\(\s*%s\s*\)" % name, body):
            raise ExtractError("%s: deletePrivateKeys no longer deletes %s from the main bucket" % (p_db, name))
    if not re.search(r"managerScopeBucket\.Delete\(\s*coinTypePrivKeyName\s*\)", body):
        raise ExtractError("%s: deletePrivateKeys no longer deletes the coin-type private key of each scope" % p_db)

    def cases(tag):
        try:
            return switch_cases(body, r"switch\s+%s\s*\{" % re.escape(tag), p_db)
        except ExtractError as e1:
            try:
                return ifchain_cases(body, tag, p_db)
            except ExtractError as e2:
                raise ExtractError("%s; %s" % (e1, e2))

    acct = cases("row.acctType")
    if "accountDefault" not in acct or "serializeDefaultAccountRow(arow.pubKeyEncrypted,nil," not in squeeze(acct["accountDefault"]):
        raise ExtractError("%s: deletePrivateKeys: accountDefault rows are not re-serialised without the private key" % p_db)

    addr = cases("row.addrType")
    need = {
        "adtImport": "serializeImportedAddress(irow.encryptedPubKey,nil)",
        "adtScript": "serializeScriptAddress(srow.encryptedHash,nil)",
        "adtWitnessScript": "srow.encryptedHash,nil,)",
    }
    for lab, pat in need.items():
        if lab not in addr:
            raise ExtractError("%s: deletePrivateKeys: no case for %s" % (p_db, lab))
        if pat not in squeeze(addr[lab]):
            raise ExtractError("%s: deletePrivateKeys: case %s does not blank the private field (%s)" % (p_db, lab, pat))
    known = set(need) | {"adtTaprootScript", "adtChain"}
    for lab in addr:
        if lab not in known:
            raise ExtractError("%s: deletePrivateKeys: unknown address case %s" % (p_db, lab))
    strips_tr = False
    if "adtTaprootScript" in addr:
        if "srow.encryptedHash,nil,)" not in squeeze(addr["adtTaprootScript"]) or "isSecretScript" not in addr["adtTaprootScript"]:
            raise ExtractError("%s: deletePrivateKeys: case adtTaprootScript not recognised" % p_db)
        strips_tr = True

    unlock = func_body(mgr, r"^func\s+\(m\s+\*Manager\)\s+Unlock\s*\(", p_mgr)
    loads_script = bool(re.search(r"m\.cryptoKeyScript\.CopyBytes\(", unlock))
    if not re.search(r"m\.cryptoKeyPriv\.CopyBytes\(", unlock):
        raise ExtractError("%s: Unlock: loading of the private crypto key not recognised" % p_mgr)
    return dict(cases=sorted(l for l in addr if l != "adtChain"), wo_strips_taproot=strips_tr,
                unlock_decrypts_script_key=loads_script)


# ---------------------------------------------------------------- sealing sites

KEYS = {"masterKeyPub": "KMasterPub", "masterKeyPriv": "KMasterPriv", "cryptoKeyPub": "KCryptoPub",
        "cryptoKeyPriv": "KCryptoPriv", "cryptoKeyScript": "KCryptoScript"}
# labels of the harness (key that opens a field) -> key of the model
LABEL_KEYS = {"mpub": "KMasterPub", "mpriv": "KMasterPriv", "cpub": "KCryptoPub", "cpriv": "KCryptoPriv",
              "cscript": "KCryptoScript", "zero": "KCryptoScript"}
CONTENTS = {"master_xprv": "CtMasterXprv", "master_xpub": "CtMasterXpub", "cointype_xprv": "CtCoinXprv",
            "cointype_xpub": "CtCoinXpub", "account_xprv": "CtAcctXprv", "account_xpub": "CtAcctXpub",
            "imported_xpub": "CtImpXpub", "privkey": "CtPrivKey", "pubkey": "CtPubKey", "addr_id": "CtAddrId",
            "secret_script": "CtSecretScript", "public_script": "CtPublicScript", "crypto_key_pub": "CtKeyPub",
            "crypto_key_priv": "CtKeyPriv", "crypto_key_script": "CtKeyScript", "passphrase": "CtPassphrase",
            "seed": "CtSeed"}
SLOTS = {"mhdpriv": "LMhdPriv", "mhdpub": "LMhdPub", "cpub": "LCPub", "cpriv": "LCPriv", "cscript": "LCScript",
         "ctpub": "LCtPub", "ctpriv": "LCtPriv", "acctpub": "LAcctPub", "acctpriv": "LAcctPriv",
         "watchacctpub": "LWatchAcctPub", "imppub": "LImpPub", "imppriv": "LImpPriv", "scrhash": "LScrHash",
         "scrscript_secret": "(LScrScript true)", "scrscript_public": "(LScrScript false)"}
# (function the model's operation is named after, slot[, value of isSecretScript]) -> site of Addr/Taint.v
SITES = [
    ("XCreateMhdPriv", "Create", "mhdpriv"), ("XCreateMhdPub", "Create", "mhdpub"), ("XCreateCPub", "Create", "cpub"),
    ("XCreateCPriv", "Create", "cpriv"), ("XCreateCScript", "Create", "cscript"),
    ("XScopeCtPub", "createManagerKeyScope", "ctpub"), ("XScopeCtPriv", "createManagerKeyScope", "ctpriv"),
    ("XScopeAcctPub", "createManagerKeyScope", "acctpub"), ("XScopeAcctPriv", "createManagerKeyScope", "acctpriv"),
    ("XNewAcctPub", "newAccount", "acctpub"), ("XNewAcctPriv", "newAccount", "acctpriv"),
    ("XWatchAcctPub", "newAccountWatchingOnly", "watchacctpub"),
    ("XImpPub", "importPublicKey", "imppub"), ("XImpPriv", "ImportPrivateKey", "imppriv"),
    ("XScriptHash", "importScriptAddress", "scrhash"), ("XScriptSecret", "importScriptAddress", "scrscript_secret"),
    ("XScriptPublic", "importScriptAddress", "scrscript_public"),
    ("XChPrivCPriv", "ChangePassphrase", "cpriv"), ("XChPrivCScript", "ChangePassphrase", "cscript"),
    ("XChPubCPub", "ChangePassphrase", "cpub"),
]


def slot_name(e):
    s = e["slot"]
    if s == "scrscript":
        if e.get("cond") not in ("secret", "public"):
            raise ExtractError("sealing sites: script field stored at %s without the secret-script flag" % e.get("pos"))
        s = "scrscript_" + e["cond"]
    return s


def source_sites(repo):
    """sealing table read off the source by harness/cmd/extract-c04 (go/ast)"""
    import json, subprocess
    import vlib
    with vlib.Lock("go"):
        p = subprocess.run(["go", "run", "./cmd/extract-c04", repo], cwd=vlib.HARNESS, env=vlib.GOENV,
                           stdout=subprocess.PIPE, stderr=subprocess.PIPE, text=True, timeout=280)
    if p.returncode != 0:
        raise ExtractError("extract-c04 (rc=%d): %s" % (p.returncode, p.stderr.strip().replace(repo.rstrip("/") + "/", "")[-1200:]))
    res = json.loads(p.stdout)
    entries = []
    for e in res["entries"]:
        if e["key"] not in KEYS:
            raise ExtractError("sealing sites: unknown key %r at %s" % (e["key"], e["pos"]))
        entries.append(dict(owner=e["owner"], func=e["func"], slot=slot_name(e), key=KEYS[e["key"]],
                            content=CONTENTS.get(e["content"], "CtUnknown"), raw_content=e["content"]))
    return build_table(entries, "source")


def build_table(entries, how):
    table = {}
    for site, owner, slot in SITES:
        got = {(e["key"], e["content"]) for e in entries if e["owner"] == owner and e["slot"] == slot}
        if len(got) != 1:
            raise ExtractError("sealing sites (%s): %d different (key, content) pairs for %s/%s (site %s): %r"
                               % (how, len(got), owner, slot, site, sorted(got)))
        table[site] = got.pop()
    uniq, seen = [], set()
    for e in entries:
        k = (e["owner"], e["func"], e["slot"], e["key"], e["content"])
        if e["slot"] not in SLOTS:
            raise ExtractError("sealing sites (%s): unknown slot %r" % (how, e["slot"]))
        if k not in seen:
            seen.add(k)
            uniq.append(e)
    return dict(table=table, entries=uniq)


# operation of the probe scenario -> function the model's operation is named after, per slot
PROBE_OWNERS = {
    "create": {"mhdpriv": "Create", "mhdpub": "Create", "cpub": "Create", "cpriv": "Create", "cscript": "Create",
               "ctpub": "createManagerKeyScope", "ctpriv": "createManagerKeyScope",
               "acctpub": "createManagerKeyScope", "acctpriv": "createManagerKeyScope"},
    "newscope": {"ctpub": "createManagerKeyScope", "ctpriv": "createManagerKeyScope",
                 "acctpub": "createManagerKeyScope", "acctpriv": "createManagerKeyScope"},
    "newacct": {"acctpub": "newAccount", "acctpriv": "newAccount"},
    "impxpub": {"watchacctpub": "newAccountWatchingOnly"},
    "imppriv": {"imppub": "importPublicKey", "imppriv": "ImportPrivateKey"},
    "imppub": {"imppub": "importPublicKey"},
    "impscript": {"scrhash": "importScriptAddress", "scrscript_secret": "importScriptAddress",
                  "scrscript_public": "importScriptAddress"},
    "chpass_private": {"cpriv": "ChangePassphrase", "cscript": "ChangePassphrase"},
    "chpass_public": {"cpub": "ChangePassphrase"},
}


def probe_sites(res):
    """sealing table from what the probe scenario's operations wrote (harness -probe: `sites` = list of
    [operation, slot, label of the key that opens the field, class of the plaintext])"""
    entries = []
    for op, slot, label, content in res.get("sites") or []:
        owner = (PROBE_OWNERS.get(op) or {}).get(slot)
        if owner is None:
            continue        # rows an operation re-serialises (account row of a derivation, ...): pass-through
        if label not in LABEL_KEYS:
            raise ExtractError("probe: field of slot %s written by %s opens under no known key (%s)" % (slot, op, label))
        entries.append(dict(owner=owner, func=owner + "(probe:" + op + ")", slot=slot, key=LABEL_KEYS[label],
                            content=CONTENTS.get(content, "CtUnknown"), raw_content=content))
    return build_table(entries, "probe")


def render_sites(sites):
    lines = ["Definition table : Taint.table := fun s =>", "  match s with"]
    for site, owner, slot in SITES:
        k, c = sites["table"][site]
        lines.append("  | %s => {| e_key := %s; e_content := %s |}   (* %s: %s *)" % (site, k, c, owner, slot))
    lines += ["  end.", "",
              "(* every place where the result of an Encrypt call is stored: (function of the model's vocabulary /",
              "   function holding the call, slot, key and content) *)",
              "Definition source_entries : list (string * slot * entry) :="]
    rows = ['   ("%s/%s", %s, {| e_key := %s; e_content := %s |})' % (e["owner"], e["func"], SLOTS[e["slot"]], e["key"], e["content"])
            for e in sites["entries"]]
    lines.append("  [" + ";\n".join(rows).lstrip() + "].")
    return "\n".join(lines) + "\n"



def _run_probe(repo):
    """build harness/cmd/c04 against `repo` and run its -probe mode"""
    import hashlib, json, shutil, subprocess
    import vlib
    with vlib.Lock("go"):
        os.makedirs(os.path.join(vlib.WORK, "bin"), exist_ok=True)
        modflag = []
        if repo == "/repo":
            shutil.copyfile(os.path.join(repo, "go.sum"), os.path.join(vlib.HARNESS, "go.sum"))
        else:
            alt = os.path.join(vlib.WORK, "extract_c04_%s.mod" % hashlib.sha1(repo.encode()).hexdigest()[:8])
            txt = open(os.path.join(vlib.HARNESS, "go.mod")).read().replace("=> /repo", "=> " + repo)
            open(alt, "w").write(txt)
            shutil.copyfile(os.path.join(repo, "go.sum"), alt[:-4] + ".sum")
            modflag = ["-modfile=" + alt]
        exe = os.path.join(vlib.WORK, "bin", "extract-c04")
        p = subprocess.run(["go", "build"] + modflag + ["-tags", "verif", "-o", exe, "./cmd/c04"], cwd=vlib.HARNESS,
                           env=vlib.GOENV, stdout=subprocess.PIPE, stderr=subprocess.PIPE, text=True, timeout=900)
        if p.returncode != 0:
            raise ExtractError("probe: harness/cmd/c04 does not build against %s: %s" % (repo, (p.stdout + p.stderr)[-1500:]))
    p = subprocess.run([exe, "-probe"], cwd=vlib.WORK, stdout=subprocess.PIPE, stderr=subprocess.PIPE, text=True, timeout=300)
    if p.returncode != 0:
        raise ExtractError("probe: c04 -probe failed: %s" % p.stderr[-1500:])
    return json.loads(p.stdout)


def probe_facts(repo):
    """Facts determined by running the code built from `repo` (fallback path; harness/cmd/c04/probe.go).

    Three wallets (fresh after Create+Open+Unlock; after an additional Lock/Unlock cycle; on a manager re-opened
    from the file), each importing, in the scopes 86, 84 and 44: a secret p2sh script, a secret p2wsh script, a
    secret taproot script, a public taproot script and a public p2wsh script (scripts of different lengths).

    unlock_decrypts_script_key.  The model uses the fact only through `seal_label KCryptoScript`: which key opens
      the script field of a secret script row written by an unlocked manager.  That is observed directly: each of
      the 27 fields is opened with the all-zero key and with the key persisted as main/cscript (which the probe
      derives itself from the private passphrase and the stored master-key parameters).  All open under the zero
      key and none under the stored key -> false (the defect behaviour S5 shows); all under the stored key and
      none under the zero key -> true; anything else is inconsistent and fails the probe.
    wo_strips_taproot.  The model uses the fact only in `strip_val`: whether ConvertToWatchingOnly re-serialises a
      secret taproot script row (address type 4, secret flag set) with an empty script field.  That is the row the
      witness `C04_watch_only_residue_at_K` / corpus/C04/taproot_secret_script_survives_conversion.jsonl looks at:
      after the conversion the 9 such rows are read back; all empty -> true, all unchanged in length -> false
      (defect shows), mixed -> fails.  Controls make the scenario conclusive: the secret p2sh / p2wsh rows of the
      same wallets must be blanked and the public rows must be kept, otherwise the probe fails (a conversion that
      blanks nothing or everything says nothing about the taproot case alone).
    Everything else the source path insists on (main-bucket deletes, coin-type key, account rows) is not a
    regenerated fact; it is compared row by row with the model on every run of the check."""
    res = _run_probe(repo)
    if res.get("errors"):
        raise ExtractError("probe: " + "; ".join(res["errors"])[:1500])
    if res.get("wo_strips_taproot") is None or res.get("unlock_decrypts_script_key") is None:
        raise ExtractError("probe: facts not determined: %r" % res)
    cases = ["adtImport", "adtScript"] + (["adtTaprootScript"] if res["wo_strips_taproot"] else []) + ["adtWitnessScript"]
    return dict(cases=cases, wo_strips_taproot=bool(res["wo_strips_taproot"]),
                unlock_decrypts_script_key=bool(res["unlock_decrypts_script_key"]),
                detail="; ".join(res.get("detail") or []), instances=res.get("instances"), probe=res)


def render(facts, source_line, sites, sites_line):
    return """(* GENERATED by lib/extract_c04.py from the repository's waddrmgr/db.go
   (deletePrivateKeys), waddrmgr/manager.go (Unlock) and every Encrypt call
   of package waddrmgr whose result is stored.  Do not edit; bin/extract
   rewrites it.

   wo_strip_cases: the address-row types whose private field
   deletePrivateKeys blanks when converting to watching-only.
   wo_strips_taproot: adtTaprootScript is among them.
   unlock_decrypts_script_key: Unlock loads cryptoKeyScript (false: the
   in-memory script key stays all-zero, DESIGN section 6 S5).
   table: for every write site the model's operations use, the key that
   seals the stored field (receiver of the Encrypt call) and the class of the
   plaintext (origin of its argument).
   source_entries: the same for EVERY place where an Encrypt result is stored. *)
(* facts source: %s *)
(* sealing sites source: %s *)
From Coq Require Import String List Bool.
From Verif Require Import Base.Prelude Addr.Taint.
Import ListNotations.
Local Open Scope string_scope.

Definition wo_strip_cases : list string := [%s].
Definition wo_strips_taproot : bool := %s.
Definition unlock_decrypts_script_key : bool := %s.

%s""" % (source_line.replace("*)", "* )"), sites_line.replace("*)", "* )"), "; ".join('"%s"' % c for c in facts["cases"]),
       "true" if facts["wo_strips_taproot"] else "false", "true" if facts["unlock_decrypts_script_key"] else "false",
       render_sites(sites))


def main(repo, outdir, write_if_changed):
    probe = None
    try:
        facts = source_facts(repo)
        source_line = "source (shape of deletePrivateKeys / Unlock recognised)"
    except Exception as e1:      # any reader error means: shape not recognised
        why = "%s: %s" % (type(e1).__name__, e1)
        try:
            facts = probe_facts(repo)
            probe = facts["probe"]
        except Exception as e2:
            raise ExtractError("source shape not recognised (%s) AND probing the built code failed (%s: %s)"
                               % (why, type(e2).__name__, e2))
        source_line = ("probe (source shape not recognised: %s; facts determined by the witness scenarios on the code "
                       "built from the repository, harness/cmd/c04 -probe, %s wallets: %s)"
                       % (re.sub(r"\s+", " ", why)[:300], facts.get("instances"), facts.get("detail")))
    try:
        sites = source_sites(repo)
        sites_line = "source (harness/cmd/extract-c04: every stored Encrypt result traced to its receiver and argument)"
    except Exception as e1:
        why = "%s: %s" % (type(e1).__name__, e1)
        try:
            if probe is None:
                probe = _run_probe(repo)
                if probe.get("errors"):
                    raise ExtractError("probe: " + "; ".join(probe["errors"])[:1500])
            sites = probe_sites(probe)
        except Exception as e2:
            raise ExtractError("sealing sites: source not recognised (%s) AND probing the built code failed (%s: %s)"
                               % (why, type(e2).__name__, e2))
        sites_line = ("probe (source not recognised: %s; key and plaintext class of every field observed by opening the rows "
                      "each operation of the witness scenario wrote, harness/cmd/c04 -probe)" % re.sub(r"\s+", " ", why)[:400])
    write_if_changed(os.path.join(outdir, "TaintSites.v"), render(facts, source_line, sites, sites_line))


if __name__ == "__main__":
    import sys

    def w(path, text):
        print(text)
    main(sys.argv[1] if len(sys.argv) > 1 else "/repo", "/tmp", w)
