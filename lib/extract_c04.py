"""Facts of waddrmgr that the C04 theorems and correspondence depend on,
regenerated from the repository's current source into coq/Generated/TaintSites.v.

  * which address-row types `deletePrivateKeys` (waddrmgr/db.go) strips of
    their private field when a manager is converted to watching-only: the
    case labels of its address switch.  adtImport, adtScript and
    adtWitnessScript are required (each must re-serialise with `nil` for the
    private part); whether adtTaprootScript rows are stripped is the flag
    `wo_strips_taproot` the model Addr/Taint.v is instantiated with;
  * that it deletes the four private rows of the main bucket, the coin-type
    private key of every scope, and blanks the account private key;
  * whether `Manager.Unlock` (waddrmgr/manager.go) ever loads the script
    crypto key (`unlock_decrypts_script_key`; DESIGN section 6, S5).

Anything that is not recognised raises, so that the check reports a broken
obligation instead of silently keeping an old table."""
import os, re


class ExtractError(Exception):
    pass


def strip_comments(src):
    src = re.sub(r"/\*.*?\*/", " ", src, flags=re.S)
    return "\n".join(re.sub(r"//.*$", "", l) for l in src.split("\n"))


def func_body(src, pattern, path):
    m = re.search(pattern, src, flags=re.M)
    if not m:
        raise ExtractError("%s: %s not found" % (path, pattern))
    i = src.index("{", m.end())
    depth, j = 0, i
    while j < len(src):
        if src[j] == "{":
            depth += 1
        elif src[j] == "}":
            depth -= 1
            if depth == 0:
                return src[i + 1:j]
        j += 1
    raise ExtractError("%s: %s: unbalanced braces" % (path, pattern))


def switch_cases(body, head, path):
    """{label: text of the case body} for the switch introduced by `head`."""
    m = re.search(head, body)
    if not m:
        raise ExtractError("%s: deletePrivateKeys: `%s` not found" % (path, head))
    i = body.index("{", m.end() - 1)
    depth, j = 0, i
    while j < len(body):
        if body[j] == "{":
            depth += 1
        elif body[j] == "}":
            depth -= 1
            if depth == 0:
                break
        j += 1
    text = body[i + 1:j]
    # split at top-level `case ...:` labels
    out, depth, pos, marks = {}, 0, 0, []
    for mm in re.finditer(r"[{}]|\bcase\s+([\w\s,]+):|\bdefault\s*:", text):
        tok = mm.group(0)
        if tok == "{":
            depth += 1
        elif tok == "}":
            depth -= 1
        elif depth == 0:
            marks.append((mm.start(), mm.end(), mm.group(1)))
    for n, (s, e, labels) in enumerate(marks):
        end = marks[n + 1][0] if n + 1 < len(marks) else len(text)
        if labels is None:
            continue
        for lab in [x.strip() for x in labels.split(",")]:
            out[lab] = text[e:end]
    return out


def squeeze(s):
    return re.sub(r"\s+", "", s)


def main(repo, outdir, write_if_changed):
    p_db = os.path.join(repo, "waddrmgr", "db.go")
    p_mgr = os.path.join(repo, "waddrmgr", "manager.go")
    db = strip_comments(open(p_db).read())
    mgr = strip_comments(open(p_mgr).read())

    body = func_body(db, r"^func\s+deletePrivateKeys\s*\(", p_db)
    for name in ["masterPrivKeyName", "cryptoPrivKeyName", "cryptoScriptKeyName", "masterHDPrivName"]:
        if not re.search(r"bucket\.Delete\(\s*%s\s*\)" % name, body):
            raise ExtractError("%s: deletePrivateKeys no longer deletes %s from the main bucket" % (p_db, name))
    if not re.search(r"managerScopeBucket\.Delete\(\s*coinTypePrivKeyName\s*\)", body):
        raise ExtractError("%s: deletePrivateKeys no longer deletes the coin-type private key of each scope" % p_db)

    acct = switch_cases(body, r"switch\s+row\.acctType\s*\{", p_db)
    if "accountDefault" not in acct or "serializeDefaultAccountRow(arow.pubKeyEncrypted,nil," not in squeeze(acct["accountDefault"]):
        raise ExtractError("%s: deletePrivateKeys: accountDefault rows are not re-serialised without the private key" % p_db)

    addr = switch_cases(body, r"switch\s+row\.addrType\s*\{", p_db)
    need = {
        "adtImport": "serializeImportedAddress(irow.encryptedPubKey,nil)",
        "adtScript": "serializeScriptAddress(srow.encryptedHash,nil)",
        "adtWitnessScript": "srow.encryptedHash,nil,)",
    }
    for lab, pat in need.items():
        if lab not in addr:
            raise ExtractError("%s: deletePrivateKeys: no case for %s" % (p_db, lab))
        if pat not in squeeze(addr[lab]):
            raise ExtractError("%s: deletePrivateKeys: case %s does not blank the private field (%s)" % (p_db, lab, pat))
    known = set(need) | {"adtTaprootScript", "adtChain"}
    for lab in addr:
        if lab not in known:
            raise ExtractError("%s: deletePrivateKeys: unknown address case %s" % (p_db, lab))
    strips_tr = False
    if "adtTaprootScript" in addr:
        if "srow.encryptedHash,nil,)" not in squeeze(addr["adtTaprootScript"]) or "isSecretScript" not in addr["adtTaprootScript"]:
            raise ExtractError("%s: deletePrivateKeys: case adtTaprootScript not recognised" % p_db)
        strips_tr = True

    unlock = func_body(mgr, r"^func\s+\(m\s+\*Manager\)\s+Unlock\s*\(", p_mgr)
    loads_script = bool(re.search(r"m\.cryptoKeyScript\.CopyBytes\(", unlock))
    if not re.search(r"m\.cryptoKeyPriv\.CopyBytes\(", unlock):
        raise ExtractError("%s: Unlock: loading of the private crypto key not recognised" % p_mgr)

    cases = sorted(l for l in addr if l != "adtChain")
    text = """(* GENERATED by lib/extract_c04.py from the repository's waddrmgr/db.go
   (deletePrivateKeys) and waddrmgr/manager.go (Unlock).  Do not edit;
   bin/extract rewrites it.

   wo_strip_cases: the address-row types whose private field
   deletePrivateKeys blanks when converting to watching-only.
   wo_strips_taproot: adtTaprootScript is among them.
   unlock_decrypts_script_key: Unlock loads cryptoKeyScript (false: the
   in-memory script key stays all-zero, DESIGN section 6 S5). *)
From Coq Require Import String List Bool.
Import ListNotations.
Local Open Scope string_scope.

Definition wo_strip_cases : list string := [%s].
Definition wo_strips_taproot : bool := %s.
Definition unlock_decrypts_script_key : bool := %s.
""" % ("; ".join('"%s"' % c for c in cases), "true" if strips_tr else "false", "true" if loads_script else "false")
    write_if_changed(os.path.join(outdir, "TaintSites.v"), text)


if __name__ == "__main__":
    import sys

    def w(path, text):
        print(text)
    main(sys.argv[1] if len(sys.argv) > 1 else "/repo", "/tmp", w)
