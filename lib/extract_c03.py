"""Facts of waddrmgr/scoped_manager.go that the C03 theorems depend on,
regenerated from the repository's current source into coq/Generated/AddrFacts.v.

  * extend_derives_private_when_unlocked: nextAddresses and extendAddresses both
    compute  watchOnly := s.rootManager.WatchOnly() || <test on acctInfo>  and then
    derive from the account PRIVATE key when `!s.rootManager.IsLocked() && !watchOnly`
    and queue the new addresses for the next unlock when
    `s.rootManager.IsLocked() && !watchOnly`.  nextAddresses' test is
    `len(acctInfo.acctKeyEncrypted) == 0` (the account has no private key at all).
    The fact is true iff extendAddresses uses that same test; it is false for the
    inverted test `acctInfo.acctKeyPriv != nil` (an account whose private key IS in
    memory is treated as watch-only).

  * new_scope_stores_last_account: whether creating a key scope with
    NewScopedKeyManager (through createManagerKeyScope) stores the scope's lastAccount
    entry (`putLastAccount(ns, &scope, DefaultAccountNum)`), as createManagerNS does for
    the default scopes.  Without it the first NewAccount / NewAccountWatchingOnly of a
    custom scope computes (2^32-1)+1 = 0 and overwrites the scope's default account.

  * derive_cache_checks_account_key: whether DeriveFromKeyPathCache derives privately
    only when the account private key is in memory (`... && acctInfo.acctKeyPriv != nil`,
    as deriveKeyFromPath does).  Without it the call dereferences a nil key for a
    cached watch-only (imported xpub) account while the manager is unlocked.

Anything that is not recognised raises, so that the check reports a broken
obligation instead of silently keeping an old value."""
import os, re


class ExtractError(Exception):
    pass


def strip_comments(src):
    src = re.sub(r"/\*.*?\*/", " ", src, flags=re.S)
    return "\n".join(re.sub(r"//.*$", "", l) for l in src.split("\n"))


def method_body(src, name, path):
    m = re.search(r"^func\s+\(\s*\w+\s+\*ScopedKeyManager\s*\)\s+%s\s*\(" % re.escape(name), src, flags=re.M)
    if not m:
        raise ExtractError("%s: method %s not found" % (path, name))
    # skip the parameter list and result types: the body starts at the first
    # '{' at parenthesis depth 0 after the name
    i, depth = m.end() - 1, 0
    while i < len(src):
        c = src[i]
        if c == "(":
            depth += 1
        elif c == ")":
            depth -= 1
        elif c == "{" and depth == 0:
            break
        i += 1
    else:
        raise ExtractError("%s: method %s: no body" % (path, name))
    depth, j = 0, i
    while j < len(src):
        if src[j] == "{":
            depth += 1
        elif src[j] == "}":
            depth -= 1
            if depth == 0:
                return src[i + 1:j]
        j += 1
    raise ExtractError("%s: method %s: unbalanced braces" % (path, name))


def func_body(src, name, path):
    m = re.search(r"^func\s+%s\s*\(" % re.escape(name), src, flags=re.M)
    if not m:
        raise ExtractError("%s: func %s not found" % (path, name))
    i, depth = m.end() - 1, 0
    while i < len(src):
        c = src[i]
        if c == "(":
            depth += 1
        elif c == ")":
            depth -= 1
        elif c == "{" and depth == 0:
            break
        i += 1
    depth, j = 0, i
    while j < len(src):
        if src[j] == "{":
            depth += 1
        elif src[j] == "}":
            depth -= 1
            if depth == 0:
                return src[i + 1:j]
        j += 1
    raise ExtractError("%s: func %s: unbalanced braces" % (path, name))


def method_body_of(src, recv, name, path):
    m = re.search(r"^func\s+\(\s*\w+\s+\*%s\s*\)\s+%s\s*\(" % (recv, re.escape(name)), src, flags=re.M)
    if not m:
        raise ExtractError("%s: method %s.%s not found" % (path, recv, name))
    i, depth = m.end() - 1, 0
    while i < len(src):
        c = src[i]
        if c == "(":
            depth += 1
        elif c == ")":
            depth -= 1
        elif c == "{" and depth == 0:
            break
        i += 1
    depth, j = 0, i
    while j < len(src):
        if src[j] == "{":
            depth += 1
        elif src[j] == "}":
            depth -= 1
            if depth == 0:
                return src[i + 1:j]
        j += 1
    raise ExtractError("%s: method %s: unbalanced braces" % (path, name))


def norm(s):
    return re.sub(r"\s+", "", s)


NO_PRIVATE_KEY = "len(acctInfo.acctKeyEncrypted)==0"
INVERTED = "acctInfo.acctKeyPriv!=nil"


def watch_only_test(body, fn, path):
    # the statement `watchOnly := s.rootManager.WatchOnly() || <test>` (a Go
    # statement continues on the next line only after a trailing operator)
    lines = body.split("\n")
    stmts = []
    for i, l in enumerate(lines):
        if re.match(r"\s*watchOnly\s*:=", l):
            st = l.strip()
            j = i
            while re.search(r"(\|\||&&)\s*$", st) and j + 1 < len(lines):
                j += 1
                st += " " + lines[j].strip()
            stmts.append(norm(st))
    if len(stmts) != 1:
        raise ExtractError("%s: %s: expected exactly one `watchOnly := ...` statement, found %d" % (path, fn, len(stmts)))
    prefix = "watchOnly:=s.rootManager.WatchOnly()||"
    if not stmts[0].startswith(prefix):
        raise ExtractError("%s: %s: statement %r not recognised" % (path, fn, stmts[0]))
    test = stmts[0][len(prefix):]
    b = norm(body)
    if "if!s.rootManager.IsLocked()&&!watchOnly{acctKey=acctInfo.acctKeyPriv}" not in b:
        raise ExtractError("%s: %s: the choice of the account private key is not guarded by `!IsLocked() && !watchOnly`" % (path, fn))
    if "ifs.rootManager.IsLocked()&&!watchOnly{s.deriveOnUnlock=append(s.deriveOnUnlock,info)}" not in b:
        raise ExtractError("%s: %s: queueing for unlock is not guarded by `IsLocked() && !watchOnly`" % (path, fn))
    return test


def main(repo, outdir, write_if_changed):
    path = os.path.join(repo, "waddrmgr", "scoped_manager.go")
    src = strip_comments(open(path).read())
    t_next = watch_only_test(method_body(src, "nextAddresses", path), "nextAddresses", path)
    t_ext = watch_only_test(method_body(src, "extendAddresses", path), "extendAddresses", path)
    if t_next != NO_PRIVATE_KEY:
        raise ExtractError("%s: nextAddresses: watch-only test %r is not the one the model transcribes (%s)" % (path, t_next, NO_PRIVATE_KEY))
    if t_ext == NO_PRIVATE_KEY:
        val = "true"
    elif t_ext == INVERTED:
        val = "false"
    else:
        raise ExtractError("%s: extendAddresses: watch-only test %r not recognised" % (path, t_ext))
    # the scope's lastAccount entry
    mpath = os.path.join(repo, "waddrmgr", "manager.go")
    msrc = strip_comments(open(mpath).read())
    new_scope = norm(method_body_of(msrc, "Manager", "NewScopedKeyManager", mpath))
    key_scope = norm(func_body(msrc, "createManagerKeyScope", mpath))
    if "createManagerKeyScope(" not in new_scope:
        raise ExtractError("%s: NewScopedKeyManager does not call createManagerKeyScope" % mpath)
    put = "putLastAccount(ns,&scope,DefaultAccountNum)"
    n_put = new_scope.count("putLastAccount(") + key_scope.count("putLastAccount(")
    if n_put == 0:
        last = "false"
    elif put in new_scope or put in key_scope:
        last = "true"
    else:
        raise ExtractError("%s: putLastAccount call in NewScopedKeyManager/createManagerKeyScope not recognised" % mpath)
    # DeriveFromKeyPathCache: the private flag handed to deriveKey
    cbody = norm(method_body(src, "DeriveFromKeyPathCache", path))
    m = re.findall(r"private:=(.*?)addrKey,err:=s\.deriveKey\(acctInfo,kp\.Branch,kp\.Index,private\)", cbody)
    if len(m) != 1:
        raise ExtractError("%s: DeriveFromKeyPathCache: `private := ...` before deriveKey(acctInfo, kp.Branch, kp.Index, private) not recognised" % path)
    if m[0] == "!s.rootManager.IsLocked()&&!watchOnly":
        guard = "false"
    elif m[0] in ("!s.rootManager.IsLocked()&&!watchOnly&&acctInfo.acctKeyPriv!=nil",
                  "!s.rootManager.IsLocked()&&!watchOnly&&len(acctInfo.acctKeyEncrypted)>0"):
        guard = "true"
    else:
        raise ExtractError("%s: DeriveFromKeyPathCache: private flag %r not recognised" % (path, m[0]))
    text = """(** GENERATED by lib/extract_c03.py from waddrmgr/scoped_manager.go and waddrmgr/manager.go -
    do not edit; bin/extract rewrites it from the current source. *)

(* nextAddresses:   watchOnly := s.rootManager.WatchOnly() || %s
   extendAddresses: watchOnly := s.rootManager.WatchOnly() || %s
   true iff extendAddresses derives from the account private key (and queues for
   unlock) under the same test as nextAddresses. *)
Definition extend_derives_private_when_unlocked : bool := %s.

(* true iff NewScopedKeyManager / createManagerKeyScope store the new scope's lastAccount
   (putLastAccount(ns, &scope, DefaultAccountNum)) *)
Definition new_scope_stores_last_account : bool := %s.

(* true iff DeriveFromKeyPathCache asks deriveKey for a private derivation only when the
   account private key is in memory *)
Definition derive_cache_checks_account_key : bool := %s.
""" % (t_next, t_ext, val, last, guard)
    write_if_changed(os.path.join(outdir, "AddrFacts.v"), text)
