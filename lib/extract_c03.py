"""Facts of waddrmgr that the C03 model and theorems depend on, regenerated from
the repository's current source into coq/Generated/AddrFacts.v.

  * extend_derives_private_when_unlocked: nextAddresses and extendAddresses both
    compute a flag "this account has no private key" and then derive from the
    account PRIVATE key when the manager is unlocked and the account has one, and
    queue the new addresses for the next unlock when the manager is locked and the
    account has one.  nextAddresses' test is `len(acctInfo.acctKeyEncrypted) == 0`.
    The fact is true iff extendAddresses uses that same test; it is false for the
    inverted test `acctInfo.acctKeyPriv != nil` (an account whose private key IS in
    memory is treated as watch-only).

  * new_scope_stores_last_account: whether creating a key scope with
    NewScopedKeyManager (through createManagerKeyScope) stores the scope's lastAccount
    entry (`putLastAccount(ns, &scope, DefaultAccountNum)`), as createManagerNS does for
    the default scopes.  Without it the first NewAccount / NewAccountWatchingOnly of a
    custom scope computes (2^32-1)+1 = 0 and overwrites the scope's default account.

  * derive_cache_checks_account_key: whether DeriveFromKeyPathCache derives privately
    only when the account private key is in memory (`... && acctInfo.acctKeyPriv != nil`,
    as deriveKeyFromPath does).  Without it the call dereferences a nil key for a
    cached watch-only (imported xpub) account while the manager is unlocked.

Each fact is determined on its own:
  1. PRIMARY: by the shape of the source (source_fact_*), which knows the original shape
     and the shapes that are syntactically equivalent to it (the flag written positively,
     `hasPriv := !W && len(x) > 0`, instead of negatively, `watchOnly := W || len(x) == 0`;
     `!= 0` for `> 0`; any flag name);
  2. FALLBACK, only when the shape is not recognised: behaviourally (probe_facts), by
     running the witness scenarios of the fact on the waddrmgr built from `repo` through
     the harness module (harness/cmd/extract-c03).
main() raises only when both paths fail for some fact (the message carries both reasons);
bin/extract turns that into a broken obligation of C03, never into a crash.  The Generated
file says which path produced the facts: `(* facts source: source | probe ... *)`."""
import hashlib, json, os, re, shutil, subprocess


class ExtractError(Exception):
    pass


FACTS = ["extend_derives_private_when_unlocked", "new_scope_stores_last_account", "derive_cache_checks_account_key"]


def strip_comments(src):
    src = re.sub(r"/\*.*?\*/", " ", src, flags=re.S)
    return "\n".join(re.sub(r"//.*$", "", l) for l in src.split("\n"))


def _body_from(src, m, what, path):
    """the brace-matched body of the function whose header match is m"""
    i, depth = m.end() - 1, 0
    while i < len(src):
        c = src[i]
        if c == "(":
            depth += 1
        elif c == ")":
            depth -= 1
        elif c == "{" and depth == 0:
            break
        i += 1
    else:
        raise ExtractError("%s: %s: no body" % (path, what))
    depth, j = 0, i
    while j < len(src):
        if src[j] == "{":
            depth += 1
        elif src[j] == "}":
            depth -= 1
            if depth == 0:
                return src[i + 1:j]
        j += 1
    raise ExtractError("%s: %s: unbalanced braces" % (path, what))


def method_body(src, recv, name, path):
    m = re.search(r"^func\s+\(\s*\w+\s+\*%s\s*\)\s+%s\s*\(" % (recv, re.escape(name)), src, flags=re.M)
    if not m:
        raise ExtractError("%s: method %s.%s not found" % (path, recv, name))
    return _body_from(src, m, name, path)


def func_body(src, name, path):
    m = re.search(r"^func\s+%s\s*\(" % re.escape(name), src, flags=re.M)
    if not m:
        raise ExtractError("%s: func %s not found" % (path, name))
    return _body_from(src, m, name, path)


def norm(s):
    return re.sub(r"\s+", "", s)


# ------------------------------------------------------------------ source shapes

W = r"s\.rootManager\.WatchOnly\(\)"
LOCKED = "s.rootManager.IsLocked()"
# "the account has no private key"  /  "the account has a private key"
NO_KEY = {"len(acctInfo.acctKeyEncrypted)==0": "same", "acctInfo.acctKeyPriv!=nil": "inverted"}
HAS_KEY = {"len(acctInfo.acctKeyEncrypted)>0": "same", "len(acctInfo.acctKeyEncrypted)!=0": "same",
           "0<len(acctInfo.acctKeyEncrypted)": "same", "acctInfo.acctKeyPriv==nil": "inverted"}


def account_key_test(body, fn, path):
    """Which test decides "derive privately / queue for unlock" in nextAddresses or
    extendAddresses: 'same' (the account has an encrypted private key) or 'inverted'.

    Recognised, with F any identifier:
      negative flag  F := W || T      used as  `!IsLocked() && !F { acctKey = acctKeyPriv }`  and
                                               `IsLocked() && !F { deriveOnUnlock = append(...) }`
      positive flag  F := !W && P     used as  `!IsLocked() && F {...}`  and  `IsLocked() && F {...}`
    (W = s.rootManager.WatchOnly(); T in NO_KEY, P in HAS_KEY).  The two are equivalent by
    De Morgan; a length is never negative, so `len(x) == 0` is the negation of `len(x) > 0`."""
    lines = body.split("\n")
    stmts = []
    for i, l in enumerate(lines):
        if re.match(r"\s*\w+\s*:=\s*!?\s*" + W, l):
            st, j = l.strip(), i
            while re.search(r"(\|\||&&)\s*$", st) and j + 1 < len(lines):
                j += 1
                st += " " + lines[j].strip()
            stmts.append(norm(st))
    if len(stmts) != 1:
        raise ExtractError("%s: %s: expected exactly one flag `F := [!]s.rootManager.WatchOnly() ...`, found %d" % (path, fn, len(stmts)))
    st = stmts[0]
    m = re.fullmatch(r"(\w+):=" + W + r"\|\|(.+)", st)
    if m:
        flag, test, use, table = m.group(1), m.group(2), "!" + m.group(1), NO_KEY
    else:
        m = re.fullmatch(r"(\w+):=!" + W + r"&&(.+)", st)
        if not m:
            raise ExtractError("%s: %s: flag statement %r not recognised" % (path, fn, st))
        flag, test, use, table = m.group(1), m.group(2), m.group(1), HAS_KEY
    if test not in table:
        raise ExtractError("%s: %s: test %r of flag %s not recognised" % (path, fn, test, flag))
    b = norm(body)
    if "if!%s&&%s{acctKey=acctInfo.acctKeyPriv}" % (LOCKED, use) not in b:
        raise ExtractError("%s: %s: the choice of the account private key is not guarded by `!IsLocked() && %s`" % (path, fn, use))
    if "if%s&&%s{s.deriveOnUnlock=append(s.deriveOnUnlock,info)}" % (LOCKED, use) not in b:
        raise ExtractError("%s: %s: queueing for unlock is not guarded by `IsLocked() && %s`" % (path, fn, use))
    if len(re.findall(r"\b%s\b" % re.escape(flag), body)) != 3:
        raise ExtractError("%s: %s: flag %s is used elsewhere too" % (path, fn, flag))
    return table[test], "%s := ... %s" % (flag, test)


def source_fact_extend(repo):
    path = os.path.join(repo, "waddrmgr", "scoped_manager.go")
    src = strip_comments(open(path).read())
    t_next, d_next = account_key_test(method_body(src, "ScopedKeyManager", "nextAddresses", path), "nextAddresses", path)
    t_ext, d_ext = account_key_test(method_body(src, "ScopedKeyManager", "extendAddresses", path), "extendAddresses", path)
    if t_next != "same":
        raise ExtractError("%s: nextAddresses: test (%s) is not the one the model transcribes" % (path, d_next))
    return t_ext == "same", "nextAddresses: %s; extendAddresses: %s" % (d_next, d_ext)


def skeleton(body):
    """The statements of a function body at nesting depth 0: every nested `{...}` block
    (and what stands between the braces) is replaced by `{}`; parentheses are kept."""
    out, depth = [], 0
    for c in body:
        if c == "{":
            if depth == 0:
                out.append("{}")
            depth += 1
        elif c == "}":
            depth -= 1
        elif depth == 0:
            out.append(c)
    return "".join(out)


SUCCESS_RETURN = re.compile(r"^\s*return\s*(nil|[^,\n]+,\s*nil)?\s*$", re.M)


def unconditional_on_success(body, call_re, what, path):
    """True iff the call matched by call_re is a statement of the body's top level (not
    inside any if/for/switch/closure), its error is handed to the caller, and nothing
    before it returns success.  Raises ExtractError when the call is there in another
    shape (the behavioural probe decides then); returns None when it is absent."""
    calls = list(re.finditer(call_re, body))
    if not calls:
        return None
    sk = skeleton(body)
    m = re.search(call_re, sk)
    if not m or len(calls) != 1:
        raise ExtractError("%s: %s is called inside a nested block (or several times): not unconditional by shape" % (path, what))
    # the statement the call stands in: from the previous line break to the end of the line
    ls = sk.rfind("\n", 0, m.start()) + 1
    le = sk.find("\n", m.end())
    stmt = norm(sk[ls:le if le >= 0 else len(sk)])
    rest = norm(sk[le if le >= 0 else len(sk):])
    call = norm(m.group(0))
    handed_on = (stmt == "return" + call
                 or (stmt in ("err=" + call, "err:=" + call) and rest.startswith("iferr!=nil{}"))
                 or stmt == "iferr:=" + call + ";err!=nil{}" or stmt == "iferr=" + call + ";err!=nil{}")
    if not handed_on:
        raise ExtractError("%s: %s: statement %r not recognised" % (path, what, stmt[:120]))
    # no success return before the call, at any depth
    before = body[:body.rfind("\n", 0, calls[0].start()) + 1]
    early = SUCCESS_RETURN.search(before)
    if early:
        raise ExtractError("%s: a success return (%r) precedes %s" % (path, early.group(0).strip(), what))
    return True


def source_fact_last_account(repo):
    """STRUCTURAL: createManagerKeyScope (or NewScopedKeyManager itself) stores lastAccount
    for the new scope on every successful path - `putLastAccount(ns, &scope,
    DefaultAccountNum)` is a top-level statement whose error is returned, no success
    return precedes it - and NewScopedKeyManager calls createManagerKeyScope the same
    way.  The text `putLastAccount(` somewhere in the body (under an `if`, in a closure,
    after an early `return nil`) is NOT accepted: such a shape raises, and the behavioural
    probe (first account number of new custom scopes) decides."""
    mpath = os.path.join(repo, "waddrmgr", "manager.go")
    msrc = strip_comments(open(mpath).read())
    new_scope = method_body(msrc, "Manager", "NewScopedKeyManager", mpath)
    key_scope = func_body(msrc, "createManagerKeyScope", mpath)
    put_re = r"putLastAccount\(\s*ns\s*,\s*&\s*scope\s*,\s*DefaultAccountNum\s*,?\s*\)"
    any_put = norm(new_scope).count("putLastAccount(") + norm(key_scope).count("putLastAccount(")
    if any_put == 0:
        if "createManagerKeyScope(" not in norm(new_scope):
            raise ExtractError("%s: NewScopedKeyManager does not call createManagerKeyScope" % mpath)
        return False, "no putLastAccount in NewScopedKeyManager / createManagerKeyScope"
    in_new = unconditional_on_success(new_scope, put_re, "putLastAccount(ns, &scope, DefaultAccountNum) in NewScopedKeyManager", mpath)
    if in_new:
        return True, "NewScopedKeyManager: putLastAccount(ns,&scope,DefaultAccountNum) at top level, error returned"
    in_key = unconditional_on_success(key_scope, put_re, "putLastAccount(ns, &scope, DefaultAccountNum) in createManagerKeyScope", mpath)
    if not in_key:
        raise ExtractError("%s: putLastAccount call in NewScopedKeyManager/createManagerKeyScope not recognised" % mpath)
    ck_re = r"createManagerKeyScope\([^()]*(\([^()]*\)[^()]*)*\)"
    # the one condition the model shares: the root manager is not watching-only (a manager
    # created from a seed never is) - `if !m.WatchOnly() { err = createManagerKeyScope(...) ... }`
    # standing at the top level of NewScopedKeyManager
    scope_body, where = new_scope, "at top level"
    guard_re = r"if\s*!\s*m\.WatchOnly\(\)\s*\{"
    if not re.search(ck_re, skeleton(new_scope)):
        top = len(re.findall(r"if\s*!\s*m\.WatchOnly\(\)\s*\{\}", skeleton(new_scope)))
        hdrs = [h for h in re.finditer(guard_re, new_scope)
                if re.search(ck_re, _body_from(new_scope, h, "if !m.WatchOnly()", mpath))]
        # every `if !m.WatchOnly()` of the body stands at its top level, and one of them holds the call
        hdr = hdrs[0] if len(hdrs) == 1 and top == len(re.findall(guard_re, new_scope)) else None
        if hdr:
            scope_body, where = _body_from(new_scope, hdr, "if !m.WatchOnly()", mpath), "under the top-level `if !m.WatchOnly()`"
            early = SUCCESS_RETURN.search(new_scope[:hdr.start()])
            if early:
                raise ExtractError("%s: NewScopedKeyManager: a success return (%r) precedes createManagerKeyScope" % (
                    mpath, early.group(0).strip()))
    called = unconditional_on_success(scope_body, ck_re, "createManagerKeyScope(...) in NewScopedKeyManager", mpath)
    if not called:
        raise ExtractError("%s: NewScopedKeyManager does not call createManagerKeyScope" % mpath)
    return True, ("createManagerKeyScope: putLastAccount(ns,&scope,DefaultAccountNum) at top level, error returned, "
                  "no success return before it; NewScopedKeyManager calls it " + where)


def source_fact_cache_guard(repo):
    path = os.path.join(repo, "waddrmgr", "scoped_manager.go")
    src = strip_comments(open(path).read())
    cbody = norm(method_body(src, "ScopedKeyManager", "DeriveFromKeyPathCache", path))
    m = re.findall(r"private:=(.*?)addrKey,err:=s\.deriveKey\(acctInfo,kp\.Branch,kp\.Index,private\)", cbody)
    if len(m) != 1:
        raise ExtractError("%s: DeriveFromKeyPathCache: `private := ...` before deriveKey(acctInfo, kp.Branch, kp.Index, private) not recognised" % path)
    base = "!s.rootManager.IsLocked()&&!watchOnly"
    if m[0] == base:
        return False, "private := " + m[0]
    if m[0] in (base + "&&acctInfo.acctKeyPriv!=nil", base + "&&len(acctInfo.acctKeyEncrypted)>0",
                base + "&&len(acctInfo.acctKeyEncrypted)!=0"):
        return True, "private := " + m[0]
    raise ExtractError("%s: DeriveFromKeyPathCache: private flag %r not recognised" % (path, m[0]))


SOURCE = {"extend_derives_private_when_unlocked": source_fact_extend,
          "new_scope_stores_last_account": source_fact_last_account,
          "derive_cache_checks_account_key": source_fact_cache_guard}


# ------------------------------------------------------------------ behavioural fallback

def _run_probe(repo):
    """build harness/cmd/extract-c03 against `repo` and run it"""
    import vlib
    with vlib.Lock("go"):
        os.makedirs(os.path.join(vlib.WORK, "bin"), exist_ok=True)
        modflag = []
        if repo == "/repo":
            shutil.copyfile(os.path.join(repo, "go.sum"), os.path.join(vlib.HARNESS, "go.sum"))
        else:
            alt = os.path.join(vlib.WORK, "extract_c03_%s.mod" % hashlib.sha1(repo.encode()).hexdigest()[:8])
            txt = open(os.path.join(vlib.HARNESS, "go.mod")).read().replace("=> /repo", "=> " + repo)
            open(alt, "w").write(txt)
            shutil.copyfile(os.path.join(repo, "go.sum"), alt[:-4] + ".sum")
            modflag = ["-modfile=" + alt]
        exe = os.path.join(vlib.WORK, "bin", "extract-c03")
        p = subprocess.run(["go", "build"] + modflag + ["-o", exe, "./cmd/extract-c03"], cwd=vlib.HARNESS,
                           env=vlib.GOENV, stdout=subprocess.PIPE, stderr=subprocess.PIPE, text=True, timeout=900)
        if p.returncode != 0:
            raise ExtractError("probe: harness/cmd/extract-c03 does not build against %s: %s" % (repo, (p.stdout + p.stderr)[-1500:]))
    p = subprocess.run([exe], cwd=vlib.WORK, env=vlib.GOENV, stdout=subprocess.PIPE, stderr=subprocess.PIPE,
                       text=True, timeout=300)
    if p.returncode != 0:
        raise ExtractError("probe: extract-c03 failed: %s" % p.stderr[-1500:])
    return json.loads(p.stdout)


def _all(xs, pred):
    return len(xs) > 0 and all(pred(x) for x in xs)


def probe_facts(repo, want):
    """The facts in `want`, determined by running the waddrmgr built from `repo`.

    extend_derives_private_when_unlocked.  The fact speaks about two decisions of
    extendAddresses, each a function of (manager locked?, account has an encrypted private key?):
    "derive the new addresses from the account PRIVATE key" and "queue them for the next
    unlock".  The probe runs all four input combinations and reads each decision off the API
    (several scopes, both branches, one or several new indices; the extended addresses are
    fetched through Manager.Address, i.e. the objects extendAddresses put into the cache):
      a. seed account, unlocked:  PrivKey() of the extended addresses succeeds  <=>  they were
         derived from the private key (a public-only object answers ErrWatchingOnly);
      b. seed account, locked, then Unlock:  PrivKey() succeeds  <=>  they were queued;
      c. imported xpub account, unlocked:  the call returns (no nil dereference) and PrivKey()
         answers ErrWatchingOnly  <=>  it did not reach for the (nil) account private key;
      d. imported xpub account, locked, then Unlock:  Unlock returns (no nil dereference in its
         deriveOnUnlock loop) and PrivKey() answers ErrWatchingOnly  <=>  they were not queued.
    nextAddresses' test gives (ok, ok, watching, watching) - this is the same minimal scenario
    as C03_refuted_when_false / corpus/C03/S3_extend_unlocked.jsonl, completed to all four
    combinations.  The inverted test gives (watching, ok, panic, panic).  true iff the first
    signature shows in every instance, false iff the second does; anything else is neither
    instance of the model and fails the probe path.

    new_scope_stores_last_account.  Unlock, NewScopedKeyManager(custom scope), then the first
    NewAccount (two scopes) / NewAccountWatchingOnly (one scope): the number returned is
    lastAccount+1, i.e. 1 iff the scope's lastAccount entry was stored as 0, and 0 (the wrapped
    2^32-1 + 1) iff it is missing (corpus/C03/F2_*.jsonl, custom_scope_account_zero_reused).

    derive_cache_checks_account_key.  Import an xpub account, unlock, load it into the account
    cache (AccountProperties), call DeriveFromKeyPathCache for it: with the guard the public
    derivation yields an error, without it deriveKey dereferences the nil private key (a panic)
    (corpus/C03/F3_*.jsonl); two scopes/branches; the same call for the seed account must
    return a key in both cases."""
    r = _run_probe(repo)
    out, why = {}, {}
    if "extend_derives_private_when_unlocked" in want:
        sig = (r["extend_seed_unlocked"], r["extend_seed_locked_then_unlock"],
               r["extend_imported_unlocked"], r["extend_imported_locked_then_unlock"])
        ok = lambda x: x == "ok"                      # noqa: E731
        wat = lambda x: x == "watching"               # noqa: E731
        pan = lambda x: x.startswith("panic:")        # noqa: E731
        if _all(sig[0], ok) and _all(sig[1], ok) and _all(sig[2], wat) and _all(sig[3], wat):
            out["extend_derives_private_when_unlocked"] = True
        elif _all(sig[0], wat) and _all(sig[1], ok) and _all(sig[2], pan) and _all(sig[3], pan):
            out["extend_derives_private_when_unlocked"] = False
        else:
            raise ExtractError("probe: extendAddresses behaves like neither test: unlocked/seed %r, locked/seed %r, "
                               "unlocked/imported %r, locked/imported %r" % sig)
        why["extend_derives_private_when_unlocked"] = "extend x (lock state, account kind): %s" % (list(map(lambda l: l[0], sig)),)
    if "new_scope_stores_last_account" in want:
        xs = r["new_scope_first_account"]
        if _all(xs, lambda x: x == "1"):
            out["new_scope_stores_last_account"] = True
        elif _all(xs, lambda x: x == "0"):
            out["new_scope_stores_last_account"] = False
        else:
            raise ExtractError("probe: first account numbers of new custom scopes: %r" % (xs,))
        why["new_scope_stores_last_account"] = "first account of a new custom scope: %s" % xs[0]
    if "derive_cache_checks_account_key" in want:
        xs, ys = r["derive_cache_imported"], r["derive_cache_seed"]
        if not _all(ys, lambda y: y == "key"):
            raise ExtractError("probe: DeriveFromKeyPathCache for a seed account: %r" % (ys,))
        if _all(xs, lambda x: x == "error"):
            out["derive_cache_checks_account_key"] = True
        elif _all(xs, lambda x: x == "panic"):
            out["derive_cache_checks_account_key"] = False
        else:
            raise ExtractError("probe: DeriveFromKeyPathCache for a cached imported account: %r" % (xs,))
        why["derive_cache_checks_account_key"] = "DeriveFromKeyPathCache on a cached imported account: %s" % xs[0]
    return out, why, r.get("nprobes", 0)


def sanitize(msg):
    return re.sub(r"\s+", " ", msg).replace("(*", "( *").replace("*)", "* )")


def cbool(b):
    return "true" if b else "false"


def main(repo, outdir, write_if_changed):
    facts, detail, failed = {}, {}, {}
    for name in FACTS:
        try:
            facts[name], detail[name] = SOURCE[name](repo)
        except (ExtractError, OSError) as e:
            failed[name] = sanitize(str(e).replace(repo.rstrip("/") + "/", ""))
    source_line = "source (shape of scoped_manager.go / manager.go recognised)"
    if failed:
        try:
            got, why, n = probe_facts(repo, set(failed))
        except (ExtractError, OSError, ValueError, KeyError, subprocess.SubprocessError) as e2:
            raise ExtractError("source shape not recognised (%s) AND probing the built code failed (%s)" % (
                "; ".join("%s: %s" % kv for kv in sorted(failed.items())), e2))
        for name in failed:
            facts[name] = got[name]
            detail[name] = "PROBED (%s); source shape not recognised: %s" % (why[name], failed[name][:300])
        source_line = ("probe (%s determined by running the code built from the repository, harness/cmd/extract-c03, "
                       "%d scenario runs; the other facts by source shape)" % (", ".join(sorted(failed)), n))
    text = """(** GENERATED by lib/extract_c03.py from waddrmgr/scoped_manager.go and waddrmgr/manager.go -
    do not edit; bin/extract rewrites it from the current source. *)
(* facts source: %s *)

(* %s
   true iff extendAddresses derives from the account private key (and queues for
   unlock) under the same test as nextAddresses. *)
Definition extend_derives_private_when_unlocked : bool := %s.

(* %s
   true iff NewScopedKeyManager / createManagerKeyScope store the new scope's lastAccount
   (putLastAccount(ns, &scope, DefaultAccountNum)) *)
Definition new_scope_stores_last_account : bool := %s.

(* %s
   true iff DeriveFromKeyPathCache asks deriveKey for a private derivation only when the
   account private key is in memory *)
Definition derive_cache_checks_account_key : bool := %s.
""" % (sanitize(source_line),
       sanitize(detail[FACTS[0]]), cbool(facts[FACTS[0]]),
       sanitize(detail[FACTS[1]]), cbool(facts[FACTS[1]]),
       sanitize(detail[FACTS[2]]), cbool(facts[FACTS[2]]))
    write_if_changed(os.path.join(outdir, "AddrFacts.v"), text)
