"""Shared machinery of the /verif checks (python3, stdlib only).

Every check has two legs (DESIGN.md section 1):
  A. theorems in coq/Properties/<ID>.v, compiled by the full .vo build,
     with Print Assumptions output collected;
  B. a correspondence run: the Go harness `vh` (built from /repo's working
     tree) runs the implementation on generated cases, the same cases are
     evaluated on the Coq model with vm_compute, and the property oracle is
     evaluated on what the implementation reported.
"""
import fcntl, hashlib, json, os, re, subprocess, sys, time, shutil

VERIF = os.path.dirname(os.path.dirname(os.path.abspath(__file__)))
COQ_MAIN = os.path.join(VERIF, "coq")
COQ = COQ_MAIN
HARNESS = os.path.join(VERIF, "harness")
# VERIF_REPO (development aid only): run the checks against a scratch copy of
# the repository instead of /repo; work files and evidence then go to a
# separate directory so that registered runs are not disturbed.
REPO = os.environ.get("VERIF_REPO", "/repo").rstrip("/")
if REPO == "/repo":
    WORK = os.path.join(VERIF, "work")
    EVID = os.path.join(VERIF, "evidence")
else:
    WORK = os.path.join(VERIF, "work", "alt_" + hashlib.sha1(REPO.encode()).hexdigest()[:8])
    EVID = os.path.join(WORK, "evidence")
    # a scratch repository gets its own copy of the Coq tree (sources and
    # compiled files, timestamps preserved) so that facts regenerated from the
    # scratch sources never touch the development that /repo is checked with
    COQ = os.path.join(WORK, "coq")
REPLAYS = os.path.join(WORK, "replays")


def sync_alt_coq():
    if COQ == COQ_MAIN:
        return
    os.makedirs(WORK, exist_ok=True)
    subprocess.run(["rsync", "-a", "--delete", "--exclude", "Generated/*.v", "--exclude", "Generated/*.vo",
                    "--exclude", "Generated/*.glob", "--exclude", "Generated/.*.aux",
                    COQ_MAIN + "/", COQ + "/"], check=True)
    gen = os.path.join(COQ, "Generated")
    os.makedirs(gen, exist_ok=True)
    # first time: start from the main tree's generated files (extract rewrites them if they differ)
    for f in os.listdir(os.path.join(COQ_MAIN, "Generated")):
        dst = os.path.join(gen, f)
        if not os.path.exists(dst):
            shutil.copy2(os.path.join(COQ_MAIN, "Generated", f), dst)

GOENV = dict(os.environ, GOFLAGS="-mod=mod", GOPROXY="off", GOSUMDB="off",
             GOTOOLCHAIN="local", CGO_ENABLED="0")

FORBIDDEN = re.compile(
    r"\b(Admitted|admit|Axiom|Axioms|Parameter|Parameters|Conjecture|Admit Obligations)\b"
    r"|Unset\s+Guard|bypass_check|type-in-type|impredicative-set|Unset\s+Universe\s+Checking"
    r"|Unset\s+Positivity")

# Axioms the brief allows (declared by the standard library); each one met is
# reported by name in the evidence.
ALLOWED_AXIOMS = {
    "functional_extensionality_dep", "FunctionalExtensionality.functional_extensionality_dep",
    "proof_irrelevance", "ProofIrrelevance.proof_irrelevance",
    "classic", "Classical_Prop.classic", "JMeq_eq", "JMeq.JMeq_eq",
    "Eqdep.Eq_rect_eq.eq_rect_eq", "eq_rect_eq",
    "propositional_extensionality", "PropExtensionality.propositional_extensionality",
}


def log(*a):
    print(*a, file=sys.stderr, flush=True)


def sh(cmd, cwd=None, env=None, timeout=None, input=None):
    p = subprocess.run(cmd, cwd=cwd, env=env, timeout=timeout, input=input,
                       stdout=subprocess.PIPE, stderr=subprocess.PIPE, text=True)
    return p.returncode, p.stdout, p.stderr


class Lock:
    def __init__(self, name):
        os.makedirs(WORK, exist_ok=True)
        self.path = os.path.join(WORK, name + ".lock")

    def __enter__(self):
        self.f = open(self.path, "w")
        fcntl.flock(self.f, fcntl.LOCK_EX)
        return self

    def __exit__(self, *a):
        fcntl.flock(self.f, fcntl.LOCK_UN)
        self.f.close()


# ---------------------------------------------------------------- Coq side

def coq_sources():
    """The files of the development = the entries of _CoqProject (work in
    progress that is not yet part of the build is not audited)."""
    out = []
    for line in open(os.path.join(COQ, "_CoqProject")):
        line = line.strip()
        if line.endswith(".v"):
            out.append(os.path.join(COQ, line))
    return sorted(out)


def audit_sources():
    """grep for forbidden constructs; returns list of 'file:line: text'."""
    bad = []
    for p in coq_sources():
        txt = open(p).read()
        # strip comments (nested)
        out, depth, i = [], 0, 0
        while i < len(txt):
            if txt.startswith("(*", i):
                depth += 1; i += 2; continue
            if txt.startswith("*)", i) and depth > 0:
                depth -= 1; i += 2; continue
            if depth == 0:
                out.append(txt[i])
            elif txt[i] == "\n":
                out.append("\n")
            i += 1
        for n, line in enumerate("".join(out).split("\n"), 1):
            if FORBIDDEN.search(line):
                bad.append("%s:%d: %s" % (os.path.relpath(p, VERIF), n, line.strip()))
    return bad


def regenerate():
    """Regenerate coq/Generated/*.v from /repo (constants and site tables)."""
    gen = os.path.join(VERIF, "bin", "extract")
    if os.path.exists(gen):
        rc, out, err = sh([sys.executable, gen], cwd=VERIF, timeout=300)
        if rc != 0:
            return False, out + err
    return True, ""


def ensure_coq():
    """Full .vo build of the development (incremental). Returns (ok, log)."""
    with Lock("coq"):
        sync_alt_coq()
        ok, msg = regenerate()
        if not ok:
            return False, "extract failed:\n" + msg
        mk = os.path.join(COQ, "Makefile")
        cp = os.path.join(COQ, "_CoqProject")
        if (not os.path.exists(mk)) or os.path.getmtime(mk) < os.path.getmtime(cp):
            rc, out, err = sh(["coq_makefile", "-f", "_CoqProject", "-o", "Makefile"], cwd=COQ)
            if rc != 0:
                return False, out + err
        rc, out, err = sh(["timeout", "3000", "make", "-k", "-j16", "COQC=timeout 900 coqc"], cwd=COQ, timeout=3100)
        return rc == 0, out + err


def theorem_names(prop_id):
    p = os.path.join(COQ, "Properties", prop_id + ".v")
    txt = open(p).read()
    return re.findall(r"^\s*Theorem\s+([A-Za-z0-9_']+)", txt, re.M)


def check_property_file(prop_id):
    """Re-compile Properties/<ID>.v alone to collect Print Assumptions.

    returns dict(ok, theorems, closed, axioms, log)."""
    wd = os.path.join(WORK, prop_id)
    os.makedirs(wd, exist_ok=True)
    src = os.path.join(COQ, "Properties", prop_id + ".v")
    dst = os.path.join(wd, "Obligations_%s.v" % prop_id)
    shutil.copyfile(src, dst)
    rc, out, err = sh(["timeout", "1200", "coqc", "-R", COQ, "Verif", dst], cwd=wd, timeout=1300)
    names = theorem_names(prop_id)
    closed = out.count("Closed under the global context")
    axioms = []
    for blk in re.findall(r"Axioms:\n((?:.+\n?)+?)(?=\n|\Z|Closed|Axioms:)", out):
        for m in re.finditer(r"^([A-Za-z0-9_.']+)\s*:", blk, re.M):
            axioms.append(m.group(1))
    nblocks = closed + out.count("Axioms:")
    disallowed = [a for a in axioms if a not in ALLOWED_AXIOMS and a.split(".")[-1] not in ALLOWED_AXIOMS]
    ok = (rc == 0 and nblocks >= len(names) and not disallowed and len(names) > 0)
    return dict(ok=ok, rc=rc, theorems=names, assumption_blocks=nblocks, closed=closed,
                axioms=sorted(set(axioms)), disallowed=disallowed, log=(out + err)[-4000:])


def coq_eval(prop_id, text, name="cases", timeout=1800):
    """Compile a generated .v file against the built development; return stdout."""
    wd = os.path.join(WORK, prop_id)
    os.makedirs(wd, exist_ok=True)
    p = os.path.join(wd, name + ".v")
    with open(p, "w") as f:
        f.write(text)
    rc, out, err = sh(["timeout", str(timeout), "coqc", "-noglob", "-R", COQ, "Verif", p], cwd=wd, timeout=timeout + 60)
    return rc, out, err


def parse_printed(out, ident):
    """Extract the value printed by `Print ident.` (ident = value : type)."""
    m = re.search(r"^%s\s*=\s*(.*?)\n\s*:\s" % re.escape(ident), out, re.S | re.M)
    if not m:
        return None
    return re.sub(r"\s+", " ", m.group(1)).strip()


def parse_nat_list(s):
    if s is None:
        return None
    s = s.strip()
    if s in ("[]", "nil"):
        return []
    return [int(x) for x in re.findall(r"\d+", s)]


# Coq literal helpers
def cN(n):
    return "%d%%N" % n


def cZ(n):
    return "(%d)%%Z" % n if n < 0 else "%d%%Z" % n


def clist(xs):
    return "[" + "; ".join(xs) + "]"


def cbool(b):
    return "true" if b else "false"


def copt(x):
    return "None" if x is None else "(Some %s)" % x


# ---------------------------------------------------------------- Go side

def build_harness(cmd):
    """go build ./cmd/<cmd> of the harness module against /repo's working tree."""
    with Lock("go"):
        os.makedirs(os.path.join(WORK, "bin"), exist_ok=True)
        modflag = []
        if REPO == "/repo":
            shutil.copyfile(os.path.join(REPO, "go.sum"), os.path.join(HARNESS, "go.sum"))
        else:
            alt = os.path.join(WORK, "alt.mod")
            txt = open(os.path.join(HARNESS, "go.mod")).read().replace("=> /repo", "=> " + REPO)
            open(alt, "w").write(txt)
            shutil.copyfile(os.path.join(REPO, "go.sum"), os.path.join(WORK, "alt.sum"))
            modflag = ["-modfile=" + alt]
        rc, out, err = sh(["go", "build"] + modflag + ["-tags", "verif", "-o", os.path.join(WORK, "bin", cmd), "./cmd/" + cmd],
                          cwd=HARNESS, env=GOENV, timeout=1800)
        return rc == 0, out + err


def run_vh(args, timeout=3000):
    rc, out, err = sh([os.path.join(WORK, "bin", args[0])] + args[1:], cwd=WORK, env=GOENV, timeout=timeout)
    cases = []
    for line in out.splitlines():
        line = line.strip()
        if line:
            cases.append(json.loads(line))
    return rc, cases, err


# ---------------------------------------------------------------- findings

def known_findings():
    p = os.path.join(VERIF, "known_findings.json")
    if not os.path.exists(p):
        return []
    return json.load(open(p)).get("findings", [])


def match_known(prop_id, kind, site):
    """An unrepaired known finding matches on (property, kind, site)."""
    for f in known_findings():
        if f.get("status") != "known":
            continue
        if f["property"] == prop_id and f["kind"] == kind and (f.get("site") in (None, "*", site)):
            return f
    return None


# ---------------------------------------------------------------- evidence

def write_evidence(prop_id, tier, seed, level, coverage, assumptions, wall_s, violations):
    os.makedirs(EVID, exist_ok=True)
    ev = dict(property_id=prop_id, tier=tier, seed=seed, level=level, coverage=coverage,
              assumptions=assumptions, wall_s=round(wall_s, 2), violations=violations)
    tmp = os.path.join(EVID, prop_id + ".json.tmp")
    with open(tmp, "w") as f:
        json.dump(ev, f, indent=1, sort_keys=True)
        f.write("\n")
    os.replace(tmp, os.path.join(EVID, prop_id + ".json"))


def write_replay(prop_id, name, obj):
    os.makedirs(REPLAYS, exist_ok=True)
    p = os.path.join(REPLAYS, "%s_%s.json" % (prop_id, name))
    with open(p, "w") as f:
        json.dump(obj, f, indent=1, sort_keys=True)
        f.write("\n")
    return p


def digest(obj):
    return hashlib.sha1(json.dumps(obj, sort_keys=True).encode()).hexdigest()


TRUSTED_BASE_COMMON = [
    "Coq 8.16.1 kernel and vm_compute (no native_compute); coqchk re-check in the thorough tier",
    "Coq standard library and std++ 1.8.0 as installed; no axioms declared by this development",
    "hand-written Gallina model of the Go code (modelled, not verified); tie = this run's correspondence check",
    "Go harness (generators, canonicalisation, oracle) and this Python driver",
    "outside the model: bbolt, Go runtime, btcec/hdkeychain/txscript/secretbox/scrypt/sha2, wire serialisation",
]


class Check:
    """Skeleton shared by every property check.

    A subclass provides:
      ID, RULE, N_QUICK, N_THOROUGH
      gen_args(tier, seed)            -> list of vh argv lists (shards)
      nontrivial(case)                -> bool
      render_cases(cases)             -> text of cases.v defining `bad : list nat`
      case_input(case)                -> replayable input
      oracle_kinds(case)              -> list of (kind, site) the impl violates
    """
    ID = None
    LEVEL = "proof"
    RULE = ""
    N_QUICK = 300
    N_THOROUGH = 5000
    SHARD = 400
    EXTRA_TRUSTED = []
    ASSUMPTIONS = []
    PARTIAL_CLAUSES = []

    def vh_cmd(self):
        return self.ID.lower()

    def gen_args(self, tier, seed):
        n = self.N_QUICK if tier == "quick" else self.N_THOROUGH
        return [[self.vh_cmd(), "-n", str(n), "-seed", str(seed), "-tier", tier]]

    def nontrivial(self, case):
        return True

    def oracle_kinds(self, case):
        return [(k, self.site_of(case, k)) for k in case.get("oracle", [])]

    def site_of(self, case, kind):
        return case.get("site", "*")

    def case_input(self, case):
        return case["in"]

    def sample(self, case):
        return case

    def extra_coverage(self, cases):
        return {}

    # -- running ---------------------------------------------------------
    def run(self, tier, seed, replay=None):
        t0 = time.time()
        pid = self.ID
        problems = []       # broken obligations / correspondences (names)
        # Leg A
        # The whole development is built with `make -k`: a file that does not
        # compile (e.g. another property's obligation broken by a source
        # change) must not fail THIS property; what decides is whether this
        # property's own file and its dependencies check.
        ok_all, blog = ensure_coq()
        audit = audit_sources()
        pf = check_property_file(pid)
        ok_build = pf["rc"] == 0 or "inconsistent assumptions" not in pf["log"] and "Cannot find" not in pf["log"] and "Unable to locate" not in pf["log"]
        obligations = len(pf["theorems"]) + 1          # +1: audit grep clean
        discharged = (pf["assumption_blocks"] if pf["ok"] else 0)
        discharged = min(discharged, len(pf["theorems"])) + (0 if audit else 1)
        if not pf["ok"]:
            problems.append("theorems of Properties/%s.v do not check: %s" % (pid, pf["log"][-1500:]))
        try:
            xerr = json.load(open(os.path.join(WORK, "extract_errors.json")))
        except (OSError, ValueError):
            xerr = {}
        if "extract_" + pid.lower() in xerr:
            obligations += 1
            problems.append("facts could not be regenerated from source (lib/extract_%s.py): %s" % (
                pid.lower(), xerr["extract_" + pid.lower()]))
        if audit:
            problems.append("forbidden construct in Coq sources: " + "; ".join(audit[:5]))

        # Leg B
        okh, hlog = build_harness(self.vh_cmd())
        cases = []
        if not okh:
            problems.append("harness does not build against /repo: " + hlog[-3000:])
        else:
            if replay:
                argsets = [[self.vh_cmd(), "-replay", replay]]
            else:
                argsets = self.gen_args(tier, seed)
            for a in argsets:
                rc, cs, err = run_vh(a)
                cases.extend(cs)
                if rc != 0:
                    problems.append("harness run failed (rc=%d): %s" % (rc, err[-2000:]))
        mism = []
        coq_log = ""
        if cases:
            mism, coq_log, cprob = self.evaluate_model(cases)
            problems.extend(cprob)

        # decision
        viol_lines, known_lines = [], []
        seen = set()
        oracle_fail = [(i, c) for i, c in enumerate(cases) if c.get("oracle")]
        for i, c in oracle_fail:
            for kind, site in self.oracle_kinds(c):
                kf = match_known(pid, kind, site)
                key = (kind, site)
                if key in seen:
                    continue
                seen.add(key)
                if kf:
                    known_lines.append("KNOWN-FINDING: property=%s %s at %s: %s" % (pid, kind, site, kf.get("what", "")))
                else:
                    c2 = self.shrink(c, kind)
                    rp = write_replay(pid, "%s_%s" % (kind, digest(self.case_input(c2))[:8]),
                                      dict(property=pid, kind=kind, site=site, case=c2,
                                           replay_input=self.case_input(c2),
                                           note="implementation violates the property on this input"))
                    viol_lines.append("VIOLATION property=%s replay=%s" % (pid, rp))
        if not viol_lines and (problems or mism):
            # a proof obligation or the correspondence broke but no failing
            # input was found: still a violation (property no longer shown).
            unexplained = [i for i in mism if not self.explained_by_known(cases[i])]
            if problems or unexplained:
                rp = write_replay(pid, "unproved", dict(
                    property=pid, broken=problems,
                    correspondence_mismatches=[dict(index=i, case=cases[i]) for i in unexplained[:5]],
                    coq_log=coq_log[-3000:],
                    note="no input on which the implementation violates the property was found; "
                         "the named theorem/correspondence no longer checks"))
                viol_lines.append("VIOLATION property=%s replay=%s no-failing-input-found" % (pid, rp))

        # evidence
        dn = len({digest(self.case_input(c)) for c in cases if self.nontrivial(c)})
        tags = {}
        for c in cases:
            for t in c.get("tags", []):
                tags[t] = tags.get(t, 0) + 1
        cov = dict(
            obligations=obligations, discharged=discharged,
            checker_cmd="make -C coq (coq_makefile, full .vo) && coqc -R coq Verif coq/Properties/%s.v (Print Assumptions) && grep audit" % pid,
            trusted_base=TRUSTED_BASE_COMMON + self.EXTRA_TRUSTED,
            theorems=pf["theorems"], axioms_reported=pf["axioms"],
            evaluations=len(cases), distinct_nontrivial=dn, rule=self.RULE,
            samples=[self.sample(c) for c in cases[:1] + cases[len(cases) // 2:len(cases) // 2 + 1]],
            input_distribution=tags,
            model_vs_impl_mismatches=len(mism),
            impl_oracle_failures=len(oracle_fail),
            known_findings_seen=len(known_lines),
            partial_clauses=self.PARTIAL_CLAUSES,
        )
        cov.update(self.extra_coverage(cases))
        if tier == "thorough" and pf["ok"]:
            cov["coqchk"] = self.coqchk()
        write_evidence(pid, tier, seed, self.LEVEL, cov, self.ASSUMPTIONS, time.time() - t0, len(viol_lines))
        for l in known_lines:
            print(l)
        for l in viol_lines:
            print(l)
        print("%s: %d cases, %d theorems, %d/%d obligations, mismatches=%d oracle_failures=%d known=%d -> %s (%.1fs)" % (
            pid, len(cases), len(pf["theorems"]), discharged, obligations, len(mism), len(oracle_fail),
            len(known_lines), "FAIL" if viol_lines else "ok", time.time() - t0))
        return 1 if viol_lines else 0

    def explained_by_known(self, case):
        """A model/impl mismatch on a case whose oracle failure is a known
        finding is explained by that finding."""
        # The models follow the code also where a known finding applies, so a
        # model/implementation mismatch is never explained by one (a check
        # whose model deliberately deviates there may override this).
        return False

    def shrink(self, case, kind):
        return case

    def evaluate_model(self, cases):
        """returns (mismatch indices, log, problems)"""
        mism, logs, problems = [], "", []
        for start in range(0, len(cases), self.SHARD):
            chunk = cases[start:start + self.SHARD]
            text = self.render_cases(chunk)
            rc, out, err = coq_eval(self.ID, text, "cases_%d" % start)
            logs += out[-2000:] + err[-2000:]
            if rc != 0:
                problems.append("correspondence: cases file does not evaluate: " + err[-1500:])
                continue
            bad = parse_nat_list(parse_printed(out, "bad"))
            if bad is None:
                problems.append("correspondence: could not parse model output: " + out[-500:])
                continue
            mism.extend(start + b for b in bad)
        return mism, logs, problems

    def coqchk(self):
        wd = os.path.join(WORK, self.ID)
        with Lock("coqchk"):
            t = time.time()
            rc, out, err = sh(["timeout", "3000", "coqchk", "-silent", "-o", "-R", COQ, "Verif",
                               "Verif.Properties." + self.ID], cwd=wd, timeout=3100)
            tail = (out + err)[-1500:]
            return dict(rc=rc, wall_s=round(time.time() - t, 1), output_tail=tail)


def main(checks):
    import argparse
    ap = argparse.ArgumentParser()
    ap.add_argument("id")
    ap.add_argument("--tier", default=os.environ.get("VERIF_TIER", "quick"))
    ap.add_argument("--replay", default=None)
    a = ap.parse_args()
    seed = int(os.environ.get("VERIF_SEED", "1") or 1)
    pid = a.id.upper()
    if pid not in checks:
        print("unknown property", pid)
        return 2
    replay = os.path.abspath(a.replay) if a.replay else None
    if replay:
        # accept either a raw JSON-lines input file or a replay file written by us
        try:
            obj = json.load(open(replay))
            if isinstance(obj, dict) and "replay_input" in obj:
                p = os.path.join(WORK, "replay_in_%s.jsonl" % pid)
                os.makedirs(WORK, exist_ok=True)
                with open(p, "w") as f:
                    f.write(json.dumps({"in": obj["replay_input"]}) + "\n")
                replay = p
        except ValueError:
            pass
    return checks[pid]().run(a.tier if a.tier in ("quick", "thorough") else "quick", seed, replay)
