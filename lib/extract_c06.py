"""C06: regenerate coq/Generated/SelectFacts.v from the repository.

Two facts about the explicit input selection of wallet.(*Wallet).txToOutputs
(the loop over the caller's selected outpoints, wallet/createtx.go):

  * explicit_selection_requires_eligible: every selected outpoint is looked up
    in the map built from findEligibleOutputs' result and a miss returns an
    error (used by C06_explicit_selection_used_as_given,
    C06_ineligible_explicit_input_refused,
    C06_spent_or_leased_explicit_input_refused);
  * explicit_selection_rejects_duplicates: a second occurrence of the same
    outpoint in the selection returns an error (S8 of DESIGN.md section 6;
    used by C06_no_output_twice_explicit).

Each fact is determined on one of two paths:

  source  (primary) harness/cmd/extract-c06 reads the package wallet (go/ast):
          the loop in txToOutputs itself or in a helper of the same package it
          hands the selection to (followed through the call, depth <= 3), any
          local names, `e, ok := M[K]` / `if e, ok := M[K]; !ok`, seen sets as
          map[OutPoint]struct{} or map[OutPoint]bool, delete-from-map.  A
          shape that is not understood is refused per fact, never guessed.

  probe   (fallback, only for a fact whose shape was refused) harness/cmd/c06
          is built against `repo` (harness module, tag verif) and run with
          -probe: the witness scenarios of C06_refuted_duplicate_selection and
          C06_refuted_ineligible_selection on real wallets - an explicit
          selection naming an outpoint twice / naming a locked, leased,
          foreign, spent, unconfirmed or unknown outpoint next to a good one,
          through CreateSimpleTx(WithCustomSelectUtxos), SendOutputsWithInput
          and FundPsbt(WithCustomSelectUtxos), each with its control (the same
          selection without the offending outpoint is accepted).  "Refused" is
          judged by behaviour - an error AND no transaction created, recorded
          or sent - never by the text of the error.  true iff every instance is
          refused; false iff every instance yields a transaction; anything
          mixed is neither instance of the model: the probe fails.

The Generated file says which path produced the facts
(`(* facts source: source | probe ... *)`); lib/c06.py copies that into the
evidence.  Only if BOTH paths fail for a fact does main() raise (the message
carries both reasons), so that the check reports a broken obligation instead
of silently keeping an old file."""
import hashlib, json, os, re, shutil, subprocess

import vlib


class ExtractError(Exception):
    pass


FACTS = ("requires_eligible", "rejects_duplicates")


def sanitize(msg):
    return re.sub(r"\s+", " ", msg or "").replace("(*", "( *").replace("*)", "* )")


def source_facts(repo):
    if os.environ.get("VERIF_C06_FORCE_PROBE"):
        raise ExtractError("source reader skipped (VERIF_C06_FORCE_PROBE)")
    with vlib.Lock("go"):
        p = subprocess.run(["go", "run", "./cmd/extract-c06", repo], cwd=vlib.HARNESS, env=vlib.GOENV,
                           stdout=subprocess.PIPE, stderr=subprocess.PIPE, text=True, timeout=280)
    if p.returncode != 0:
        raise ExtractError("extract-c06 failed on %s (rc=%d): %s" % (repo, p.returncode, p.stderr.strip()[-1500:]))
    return json.loads(p.stdout)


def probe_facts(repo):
    with vlib.Lock("go"):
        os.makedirs(os.path.join(vlib.WORK, "bin"), exist_ok=True)
        modflag = []
        if repo == "/repo":
            shutil.copyfile(os.path.join(repo, "go.sum"), os.path.join(vlib.HARNESS, "go.sum"))
        else:
            alt = os.path.join(vlib.WORK, "probe_c06_%s.mod" % hashlib.sha1(repo.encode()).hexdigest()[:8])
            txt = open(os.path.join(vlib.HARNESS, "go.mod")).read().replace("=> /repo", "=> " + repo)
            open(alt, "w").write(txt)
            shutil.copyfile(os.path.join(repo, "go.sum"), alt[:-4] + ".sum")
            modflag = ["-modfile=" + alt]
        exe = os.path.join(vlib.WORK, "bin", "probe-c06")
        p = subprocess.run(["go", "build"] + modflag + ["-tags", "verif", "-o", exe, "./cmd/c06"], cwd=vlib.HARNESS,
                           env=vlib.GOENV, stdout=subprocess.PIPE, stderr=subprocess.PIPE, text=True, timeout=900)
        if p.returncode != 0:
            raise ExtractError("probe: harness/cmd/c06 does not build against %s: %s" % (repo, (p.stdout + p.stderr)[-1500:]))
    env = dict(vlib.GOENV)
    if os.path.isdir("/dev/shm"):
        env["TMPDIR"] = "/dev/shm"
    p = subprocess.run([exe, "-probe"], cwd=vlib.WORK, env=env, stdout=subprocess.PIPE, stderr=subprocess.PIPE,
                       text=True, timeout=300)
    if p.returncode != 0:
        raise ExtractError("probe: c06 -probe failed: %s" % p.stderr.strip()[-1500:])
    return json.loads(p.stdout.strip().splitlines()[-1])


def facts(repo):
    """returns dict(requires_eligible, rejects_duplicates, why_*, source_line, info)"""
    src_err = None
    try:
        s = source_facts(repo)
    except (ExtractError, OSError, ValueError, subprocess.SubprocessError) as e:
        s, src_err = {}, str(e)
    rel = lambda m: (m or "").replace(repo.rstrip("/") + "/", "")      # noqa: E731
    out = dict(info=s)
    need = []
    for f in FACTS:
        d = s.get(f) or {}
        if d.get("ok"):
            out[f], out["why_" + f] = bool(d["value"]), d.get("why", "")
        else:
            need.append((f, rel(d.get("why") or src_err or "no answer")))
    if not need:
        out["source_line"] = "source (shape of the explicit selection loop recognised: %s, %s)" % (
            s.get("func", "?"), s.get("loop", "?"))
        return out
    try:
        resp = probe_facts(repo)
        for f, _ in need:
            d = resp.get(f) or {}
            if not d.get("ok"):
                raise ExtractError("%s: %s" % (f, d.get("why") or "no answer"))
            out[f], out["why_" + f] = bool(d["value"]), "probe: " + d.get("why", "")
    except (ExtractError, OSError, ValueError, KeyError, IndexError, subprocess.SubprocessError) as e2:
        raise ExtractError("source shape not recognised (%s) AND probing the built code failed (%s)" % (
            "; ".join("%s: %s" % n for n in need), e2))
    out["source_line"] = "probe (%s; determined by %d wallet scenarios run on the code built from the repository, harness/cmd/c06 -probe)" % (
        "; ".join("%s - source shape not recognised: %s" % (n, sanitize(w)[:300]) for n, w in need), resp.get("scenarios", 0))
    return out


def render(f):
    b = lambda x: "true" if x else "false"      # noqa: E731
    info = f.get("info") or {}
    return """(* GENERATED by lib/extract_c06.py (harness/cmd/extract-c06, go/ast; fallback harness/cmd/c06 -probe)
   from the repository's package wallet (createtx.go).  Do not edit; bin/extract rewrites it. *)
(* facts source: %s *)

(* Facts about the explicit input selection of Wallet.txToOutputs, the loop over
   the caller's selected outpoints (%s, %s).
   Eligibility map: %s.  Recognised duplicate test: %s. *)

(* every selected outpoint must be a key of the map built from
   findEligibleOutputs' result; a miss returns an error
   (%s) *)
Definition explicit_selection_requires_eligible : bool := %s.

(* a second occurrence of an outpoint in the selection returns an error
   (%s) *)
Definition explicit_selection_rejects_duplicates : bool := %s.
""" % (sanitize(f["source_line"]), sanitize(info.get("func") or "?"), sanitize(info.get("loop") or "?"),
       sanitize(info.get("map") or "?"), sanitize(info.get("form") or "?"),
       sanitize(f["why_requires_eligible"]), b(f["requires_eligible"]),
       sanitize(f["why_rejects_duplicates"]), b(f["rejects_duplicates"]))


def main(repo, outdir, write_if_changed):
    write_if_changed(os.path.join(outdir, "SelectFacts.v"), render(facts(repo)))
