"""C15 - the wallet's view of the chain tip follows the backend through reorgs.

Leg A: coq/Properties/C15.v (theorems over Sync/Sync.v, premises regenerated
from the source into Generated/SyncFacts.v).  Leg B: harness/cmd/c15 drives a
real wallet over simchain; after every notification the observation is
compared with the model (Sync/SyncCorr.v) and with the property itself
(the oracle, evaluated by the harness against the simulated backend).

What decides in the comparison with the model is what the theorems speak about:
synced-to height and hash, ChainSynced, the hashes stored from the start of the
followed chain up to synced-to, the confirmed / unconfirmed records, and whether
a start-up attempt fails.  Differences elsewhere are counted (DRIFT)."""
import concurrent.futures as cf

from vlib import *

DIFF = {1: "start-up attempt fails / succeeds", 2: "synced-to height or hash", 3: "ChainSynced",
        4: "block hash stored for a height between the start of the followed chain and synced-to",
        5: "confirmed transaction records", 6: "unconfirmed transaction records", 9: "observation does not decode"}
# differences that are only counted (no theorem of C15 depends on them)
DRIFT = ["handler_error_flag", "synced_to_timestamp", "hash_outside_followed_heights", "birthday_block"]


def zi(x):
    return str(x) if x >= 0 else "(%d)" % x


def r_meta(m):
    return "(mk %s %s %s)" % (zi(m["h"]), zi(m["hash"]), zi(m["t"]))


def r_segs(runs):
    return clist(["sg %s %s %s %s" % tuple(zi(x) for x in r) for r in runs])


def r_obs(o):
    if o is None:
        return "[]"
    b = o.get("bday")
    xs = [2 if o.get("err_unobserved") else int(o["err"]), o["synced"]["h"], o["synced"]["hash"], o["synced"]["t"],
          int(o["chain_synced"])]
    xs += [1, b["h"], b["hash"]] if b else [0, 0, 0]
    xs.append(len(o["probes"]))
    for p in o["probes"]:
        xs += [p[0], p[1] + 1]
    xs.append(len(o["mined"]))
    for m in o["mined"]:
        xs += list(m)
    xs.append(len(o["unmined"]))
    xs += list(o["unmined"])
    return clist([zi(x) for x in xs])


def r_event(e):
    k = e["k"]
    if k == "connect":
        op = "conn %s %s %s" % (zi(e["b"]["h"]), zi(e["b"]["hash"]), zi(e["b"]["t"]))
    elif k == "disconnect":
        op = "disc %s %s %s" % (zi(e["b"]["h"]), zi(e["b"]["hash"]), zi(e["b"]["t"]))
    elif k == "tx":
        if e.get("b"):
            op = "txm %d %s %s %s %s" % (e["tx"], cbool(e.get("cb", False)), zi(e["b"]["h"]), zi(e["b"]["hash"]), zi(e["b"]["t"]))
        else:
            op = "txu %d" % e["tx"]
    elif k == "filtered":
        op = "filt %s %s %s %s" % (zi(e["b"]["h"]), zi(e["b"]["hash"]), zi(e["b"]["t"]),
                                   clist(["(%d, %s)" % (t[0], cbool(bool(t[1]))) for t in e.get("txs") or []]))
    elif k == "startup":
        op = "CStartup %s %s %s %s %s" % (
            cbool(e.get("first", False)), cbool(e.get("recover", False)), r_segs(e["backend"]),
            r_meta(e.get("loc") or dict(h=0, hash=0, t=0)),
            clist(["rt %d %s %s %s %s" % (t["tx"], cbool(t.get("cb", False)), zi(t["b"]["h"]), zi(t["b"]["hash"]), zi(t["b"]["t"]))
                   for t in e.get("rtxs") or []]))
    elif k == "rescan_progress":
        op = "CRescanProgress %s %s" % (r_segs(e["backend"]), zi(e.get("height", 0)))
    elif k == "rescan_finished":
        op = "CRescanFinished %s %s" % (r_segs(e["backend"]), zi(e.get("height", 0)))
    elif k == "reopen":
        op = "CReopen"
    elif k == "set_synced":
        op = "CSetSynced %s" % cbool(e.get("flag", False))
    elif k == "set_birthday":
        op = "CSetBirthday %s" % r_meta(e["b"])
    else:
        raise ValueError(k)
    return "(%s, %s)" % (op, r_obs(e.get("obs")))


def r_case(c):
    o = c["obs"]
    return "{| sc_init := %s; sc_headers := %s;\n  sc_events := %s |}" % (
        r_meta(o["init"]), r_segs(o["headers"]), clist(["\n   " + r_event(e) for e in o["events"]]))


class C15(Check):
    ID = "C15"
    RULE = ("a real wallet.Wallet (regtest, bbolt file) follows a simulated backend: extensions of 1-5 blocks, reorganisations of "
            "depth 1-8 and (1 in 8) 9-25 (new branch shorter, equal or longer), wallet-paying transactions (regular and coinbase, "
            "notified before or after the block-connected notification, one chain.RelevantTx each or all of a block in one "
            "chain.FilteredBlockConnected) in blocks that are later replaced and mined again or not, unconfirmed notifications, "
            "repeated / unknown-hash / future-height BlockDisconnected and future-height BlockConnected notifications anywhere in "
            "the stream; half of the cases deliver every notification through the wallet's own handleChainNotifications goroutine "
            "(the switch body is inline: the notification is sent on the backend's unbuffered channel followed by a value the "
            "switch ignores, whose acceptance shows that the first has been processed) - those also get *chain.RescanProgress / "
            "*chain.RescanFinished naming an already reached height anywhere in the stream; the other half uses the handler hooks "
            "(one walletdb.Update each).  Start-up is always the real SynchronizeRPC / ClientConnected / birthdaySanityCheck / "
            "waitForSync / syncWithChain, observed at the beginning of every attempt (BackEnd()), at the end of the rollback "
            "transaction (NotifyBlocks) and after RescanFinished: (a) a quarter of the cases start with the FIRST synchronisation "
            "of a wallet created with a birthday near a block of an existing chain of 2-60 blocks (birthdayStamp == nil: locate, "
            "SetSyncedTo(birthday block), SetBirthdayBlock); (b) offline periods (Reopen, chain evolves by up to three "
            "reorganisations of depth 0-8) with the birthday block at genesis, at a later block of an old wallet, or where the first "
            "synchronisation put it, so that the rollback crosses the birthday block (birthday-reset branch) in about one case in "
            "eight; (c) a quarter of the offline periods end with the backend LOWER than the wallet (a proper prefix of its chain, or "
            "another branch): the failed attempt is observed, then the backend catches up in one or two steps; (d) fork points below "
            "the heights the wallet stores (below a first synchronisation's birthday block): the attempt fails for ever, the case "
            "ends; (e) one case in five opens the wallet with a recovery window of 3-20 for every start-up (Wallet.recovery then runs "
            "inside syncWithChain and moves synced-to itself; the wallet transactions of the backend's chain are given to the model, "
            "which picks the ones recovery scans); one chain longer than MaxReorgDepth per run (six in the thorough tier).  Ten fixed "
            "inputs (S1 and S16 witnesses, one per start-up path, NotifyBlocks failing once after the first synchronisation's "
            "transaction) and corpus/C15 run first. "
            "non-trivial = a reorganisation (online or offline) that replaces a block holding a wallet transaction, a first "
            "synchronisation, or a failed start-up attempt; distinct by input")
    N_QUICK = 260
    N_THOROUGH = 3000
    SHARD = 24
    ASSUMPTIONS = [
        "all-or-nothing of the walletdb.Update around each handler is property C11 (model: a failing handler leaves the state unchanged)",
        "the transaction store is modelled only as the set of (txid, confirming block) / unconfirmed facts; wallet transactions of the "
        "harness never conflict with each other (removeDoubleSpends is outside the model)",
        "heights, times within int32/uint32 (no wrap-around)",
        "recovery (start-up with a recovery window) is modelled as one transaction that records the wallet transactions of the scanned "
        "blocks and calls SetSyncedTo block by block (the code commits batches of 2000 blocks; only the first block's SetSyncedTo "
        "can fail); which transactions its block filter finds is property C16's business (the harness's transactions all pay issued "
        "addresses)",
        "first synchronisation: which block locateBirthdayBlock returns is property C16's business; the model takes the returned "
        "block as given (the harness asks the same function on the same backend) and the theorems need only 0 <= its height <= "
        "backend tip; a stored but unverified birthday block (birthdaySanityCheck relocating it, wallets migrated from before the "
        "birthday block existed) is neither modelled nor run",
        "the birthday block is compared with the model but does not decide (no clause of the property mentions it); likewise the "
        "synced-to timestamp, hashes stored outside [start of the followed chain, synced-to height] and a handler's error flag: "
        "differences are counted in coverage.drift_not_deciding",
        "*chain.RescanProgress / *chain.RescanFinished outside a start-up are only sent for heights the wallet has reached "
        "(catchUpHashes is then empty); a rescan notification running ahead of the block-connected notifications of the same blocks "
        "(the race named in the TODO of catchUpHashes) is outside the property's notification kinds and not generated",
    ]
    PARTIAL_CLAUSES = [
        "finding S16 (known_findings.json, kind startup_recovery_skips_rollback): with a recovery window, recovery runs BEFORE the "
        "rollback loop (Generated/SyncFacts.v recovery_before_rollback = true); after an offline reorganisation that also made the "
        "chain higher the attempt succeeds without rolling anything back (C15_startup_recovery_before_rollback_partial: the wallet "
        "is consistent with its OLD branch plus the backend's blocks on top).  C15_startup_recovery_after_rollback is the statement "
        "for the other order (proposed fix corpus/C15/s16_fix_proposed.diff); C15_startup_with_recovery_window_as_built follows the "
        "regenerated fact",
        "start-up against a backend whose best chain is LOWER than the wallet's synced-to height (C15_startup_backend_lower_partial): "
        "the attempt fails in the first GetBlockHash and changes nothing; the wallet does not roll back to the last common block "
        "until an attempt finds the backend at least as high (then C15_startup_rollback applies); exercised: failed attempt "
        "observed unchanged, backend catches up, next attempt rolls back to the last common block",
        "start-up with the fork point below the heights the wallet stores - pruned by MaxReorgDepth, or below the birthday block of a "
        "wallet whose first synchronisation started there (C15_startup_fork_below_window_partial): the attempt fails for ever, the "
        "wallet never synchronises again; the property promises nothing outside the window",
        "a first synchronisation whose first transaction committed and which then fails (NotifyBlocks / rescan request error) is "
        "repeated by waitForSync with the same nil birthday argument and fails for ever for a birthday height above 1 "
        "(C15_first_sync_repeated_partial; needs a backend failure, outside the property's quantifier; fixed input 1506)",
    ]
    EXTRA_TRUSTED = ["lib/extract_c15.py: go/ast reading of disconnectBlock (incremental stamp or single literal) and of "
                     "MaxReorgDepth / staleHeight; when a shape is not recognised the fact is determined by running the witness "
                     "scenario (connect 1..n, disconnect n, read back SyncedTo / BlockHash; prune boundary) on the code built "
                     "from the repository (harness/cmd/probe-c15); evidence field facts_source says which path ran; the order of "
                     "w.recovery and the rollback-loop transaction among the top-level statements of syncWithChain (no fallback: an "
                     "unrecognised shape is a broken obligation)",
                     "harness/cmd/c15: the barrier protocol on the notification channel (a notification is taken as processed when "
                     "the goroutine accepts the next value) and the attempt gate in BackEnd() rely on handleChainNotifications "
                     "reading one notification at a time and on syncWithChain being the only caller of BackEnd()"]

    def extra_coverage(self, cases):
        # which path of lib/extract_c15.py produced the regenerated facts of this run
        src, detail = "unknown", ""
        try:
            txt = open(os.path.join(COQ, "Generated", "SyncFacts.v")).read()
            m = re.search(r"\(\* facts source: (\w+)(.*?)\*\)", txt, re.S)
            if m:
                src, detail = m.group(1), re.sub(r"\s+", " ", m.group(2)).strip()
        except OSError:
            pass
        return dict(facts_source=src, facts_source_detail=detail,
                    drift_not_deciding=dict(zip(DRIFT, getattr(self, "drift", [0] * len(DRIFT)))))

    def gen_args(self, tier, seed):
        nn = self.N_QUICK if tier == "quick" else self.N_THOROUGH
        out = []
        corpus = os.path.join(VERIF, "corpus", "C15")
        bd_corpus = None
        if os.path.isdir(corpus):
            # minimized earlier failures (S1, mutation witnesses) run first
            p = os.path.join(WORK, "corpus_C15.jsonl")
            pb = os.path.join(WORK, "corpus_C15_bd.jsonl")
            os.makedirs(WORK, exist_ok=True)
            nb = 0
            with open(p, "w") as f, open(pb, "w") as fb:
                for name in sorted(os.listdir(corpus)):
                    if name.endswith(".json"):
                        obj = json.load(open(os.path.join(corpus, name)))
                        if (obj.get("in") or {}).get("bd"):
                            fb.write(json.dumps(obj) + "\n")
                            nb += 1
                        else:
                            f.write(json.dumps(obj) + "\n")
            out.append(["c15", "-replay", p])
            if nb:
                bd_corpus = pb
        out.append(["c15", "-n", str(nn), "-seed", str(seed), "-tier", tier])
        # the bitcoind backend as the producer of the notifications: the REAL
        # BitcoindConn (RPC polling) + BitcoindClient against a loopback stub
        # node, the stream applied to a real wallet (harness/cmd/c15bd)
        okb, blog = build_harness("c15bd")
        self.bd_build_log = "" if okb else blog
        if bd_corpus:
            out.append(["c15bd", "-replay", bd_corpus])
        out.append(["c15bd", "-n", str(self.N_BD_QUICK if tier == "quick" else self.N_BD_THOROUGH), "-seed", str(seed), "-tier", tier])
        return out

    N_BD_QUICK = 40
    N_BD_THOROUGH = 400

    def run(self, tier, seed, replay=None):
        # a replay of a bitcoind-producer case goes to harness/cmd/c15bd
        self._cmd = "c15"
        if replay:
            try:
                first = json.loads(open(replay).readline())
                if (first.get("in") or {}).get("bd"):
                    self._cmd = "c15bd"
            except (OSError, ValueError):
                pass
        return super().run(tier, seed, replay)

    def vh_cmd(self):
        return getattr(self, "_cmd", "c15")

    def nontrivial(self, c):
        t = set(c.get("tags", []))
        if "bitcoind_reorg_deeper_than_one" in t:
            return True
        return bool(t & {"wallet_tx_in_replaced_block", "offline_reorg_of_wallet_tx_block", "first_sync", "startup_attempt_failed", "startup_with_recovery_window"})

    def sample(self, c):
        if "bd" in c:
            return dict(input=c["in"], tags=c.get("tags"), oracle=c.get("oracle"),
                        last_step=(c["bd"]["steps"] or [None])[-1])
        evs = c["obs"]["events"]
        last = [e for e in evs if e.get("obs")][-1:]
        return dict(input=c["in"], tags=c.get("tags"), notifications=len(evs), oracle=c.get("oracle"),
                    final_observation=(last[0]["obs"] if last else None))

    def render_cases(self, cases):
        return """From stdpp Require Import gmap list numbers.
From Coq Require Import ZArith NArith.
From Verif Require Import Sync.Sync Sync.SyncCorr.
Local Open Scope Z_scope.
Definition cases : list scase :=
%s.
Definition res := Eval vm_compute in evaluate cases.
Definition bad := Eval vm_compute in res.1.
Definition dr := Eval vm_compute in res.2.
Print bad.
Print dr.
""" % clist(["\n " + r_case(c) for c in cases])

    def render_bd(self, cases):
        def r_ntfn(n):
            return "%s %s %d%%N %s" % ("nc" if n["k"] == "conn" else "nd", zi(n["h"]), n["b"] + 1, zi(n["t"]))

        def r_bd(c):
            b = c["bd"]
            tm = {x["id"]: x for x in b["blocks"]}
            first = tm[b["steps"][0]["best0"]] if b["steps"] else tm[0]
            tree = clist(["(%d%%N, %d%%N, %s, %s)" % (x["id"] + 1, x["prev"] + 1, zi(x["h"]), zi(x["t"])) for x in b["blocks"]])
            steps = clist(["\n    {| bs_handed := %s; bs_ntfns := %s; bs_best := %d%%N |}" % (
                clist(["%d%%N" % (h + 1) for h in st["handed"]]), clist([r_ntfn(n) for n in st["ntfns"] or []]), st["client"] + 1)
                for st in b["steps"]])
            return "{| bc_tree := %s;\n   bc_best := bmk %s %d%%N %s;\n   bc_steps := %s |}" % (
                tree, zi(first["h"]), first["id"] + 1, zi(first["t"]), steps)
        return """From stdpp Require Import gmap list numbers.
From Coq Require Import ZArith NArith.
From Verif Require Import Sync.Sync Sync.BitcoindReorg Sync.BitcoindReorgCorr.
Local Open Scope Z_scope.
Definition cases : list bcase :=
%s.
Definition bad := Eval vm_compute in bd_failures cases.
Print bad.
""" % clist(["\n " + r_bd(c) for c in cases])

    def render_rescan(self, cases):
        def r_ntfn(n):
            return "%s %s %d%%N %s" % ("nc" if n["k"] == "conn" else "nd", zi(n["h"]), n["b"] + 1, zi(n["t"]))

        def r_rs(c):
            b, st = c["bd"], c["bd"]["steps"][0]
            step = st["step"]
            tm = {x["id"]: x for x in b["blocks"]}
            init, frm, at = c["in"]["init"], step.get("from", 0), step.get("at", 0)
            old = list(range(0, init + 1))                      # the chain when the rescan started: ids by height
            j = frm + at if at else init
            best, x = [], st["tip"]                             # the node's best chain afterwards, by walking the parents
            while x >= 0:
                best.append(x)
                x = tm[x]["prev"]
            best.reverse()
            ids = lambda l: clist(["%d%%N" % (v + 1) for v in l])   # noqa: E731
            tree = clist(["(%d%%N, %d%%N, %s, %s)" % (x["id"] + 1, x["prev"] + 1, zi(x["h"]), zi(x["t"])) for x in b["blocks"]])
            new_below = list(reversed(best[:j + 1])) if at else []
            new_above = best[j + 1:] if at else []
            return ("{| rc_tree := %s;\n   rc_start := %d%%N; rc_start_h := %s; rc_old_below := %s; rc_old_above := %s;\n"
                    "   rc_new_below := %s; rc_new_above := %s;\n   rc_ntfns := %s |}") % (
                tree, old[frm] + 1, zi(frm), ids(list(reversed(old[:frm + 1]))), ids(old[frm + 1:j + 1]),
                ids(new_below), ids(new_above), clist([r_ntfn(n) for n in st["ntfns"] or []]))
        return """From stdpp Require Import gmap list numbers.
From Coq Require Import ZArith NArith.
From Verif Require Import Sync.Sync Sync.BitcoindReorg Sync.BitcoindRescan Sync.BitcoindReorgCorr.
Local Open Scope Z_scope.
Definition cases : list rcase :=
%s.
Definition bad := Eval vm_compute in rescan_failures cases.
Print bad.
""" % clist(["\n " + r_rs(c) for c in cases])

    BD_DIFF = {1: "the model reports a failed node request", 2: "notification stream", 3: "client's best block"}

    def evaluate_bd(self, cases, idx):
        """model Sync/BitcoindReorg.v against the real client on the c15bd cases"""
        if not idx:
            return [], "", []
        is_rs = lambda c: bool(c["in"]["steps"]) and c["in"]["steps"][0]["k"] == "rescan"   # noqa: E731
        ridx = [i for i in idx if is_rs(cases[i])]
        # a step with an injected node failure is judged by the oracle only: which blocks the poller hands
        # over, and how often, then depends on its retry behaviour, which the model does not describe
        idx = [i for i in idx if not is_rs(cases[i]) and not any(st.get("fail") for st in cases[i]["in"]["steps"])]
        rmism, rlog, rprob = [], "", []
        if ridx:
            rc, out, err = coq_eval(self.ID, self.render_rescan([cases[i] for i in ridx]), "cases_bd_rescan")
            printed = parse_printed(out, "bad") if rc == 0 else None
            if printed is None:
                rprob.append("correspondence (bitcoind rescan): cases file does not evaluate: " + (err or out)[-1500:])
            else:
                nums = [int(x) for x in re.findall(r"\d+", printed)]
                for j in range(0, len(nums) - 1, 2):
                    ci = ridx[nums[j]]
                    cases[ci]["model_diff"] = dict(site="BitcoindClient.rescan", differs=self.BD_DIFF.get(nums[j + 1], str(nums[j + 1])))
                    rmism.append(ci)
            rlog = out[-300:]
        if not idx:
            return rmism, rlog, rprob
        m1, l1, p1 = self._evaluate_poll(cases, idx)
        return m1 + rmism, l1 + rlog, p1 + rprob

    def _evaluate_poll(self, cases, idx):
        rc, out, err = coq_eval(self.ID, self.render_bd([cases[i] for i in idx]), "cases_bd")
        if rc != 0:
            return [], out[-600:] + err[-600:], ["correspondence (bitcoind producer): cases file does not evaluate: " + (err or out)[-1500:]]
        printed = parse_printed(out, "bad")
        if printed is None:
            return [], out[-600:], ["correspondence (bitcoind producer): could not parse model output: " + out[-500:]]
        nums = [int(x) for x in re.findall(r"\d+", printed)]
        mism = []
        for j in range(0, len(nums) - 2, 3):
            ci, st, code = idx[nums[j]], nums[j + 1], nums[j + 2]
            cases[ci]["model_diff"] = dict(step=st, site="BitcoindClient", differs=self.BD_DIFF.get(code, str(code)))
            mism.append(ci)
        return mism, out[-300:], []

    def evaluate_model(self, cases):
        if getattr(self, "bd_build_log", ""):
            self._bd_problem = ["harness/cmd/c15bd does not build against the repository: " + self.bd_build_log[-2000:]]
        bd_idx = [i for i, c in enumerate(cases) if "bd" in c]
        bd_mism, bd_log, bd_prob = self.evaluate_bd(cases, bd_idx)
        bd_prob = bd_prob + getattr(self, "_bd_problem", [])
        if not bd_idx and not getattr(self, "_cmd", "c15") == "c15":
            bd_prob.append("correspondence (bitcoind producer): no case was run")
        other = [i for i, c in enumerate(cases) if "bd" not in c]
        sub = [cases[i] for i in other]
        m2, logs2, prob2 = self._evaluate_sync(sub) if sub else ([], "", [])
        return sorted(set(bd_mism + [other[i] for i in m2])), logs2 + bd_log, prob2 + bd_prob

    def _evaluate_sync(self, cases):
        mism, logs, problems = [], "", []
        # long chains get a shard of their own
        shards, cur = [], []
        for i, c in enumerate(cases):
            if "long_offline_extension" in c.get("tags", []):
                shards.append([i])
                continue
            cur.append(i)
            if len(cur) >= self.SHARD:
                shards.append(cur)
                cur = []
        if cur:
            shards.append(cur)

        def run(idx):
            return idx, coq_eval(self.ID, self.render_cases([cases[i] for i in idx]), "cases_%d" % idx[0])
        with cf.ThreadPoolExecutor(max_workers=12) as ex:
            results = list(ex.map(run, shards))
        self.fail_detail = {}
        self.drift = [0] * len(DRIFT)
        for idx, (rc, out, err) in results:
            logs += (out[-600:] + err[-600:])
            if rc != 0:
                problems.append("correspondence: cases file does not evaluate: " + (err or out)[-1500:])
                continue
            printed = parse_printed(out, "bad")
            if printed is None:
                problems.append("correspondence: could not parse model output: " + out[-500:])
                continue
            dp = parse_nat_list(parse_printed(out, "dr"))
            if dp is None or len(dp) != len(DRIFT):
                problems.append("correspondence: could not parse the drift counts: " + out[-500:])
            else:
                self.drift = [a + b for a, b in zip(self.drift, dp)]
            nums = [int(x) for x in re.findall(r"\d+", printed)]
            for j in range(0, len(nums) - 2, 3):
                ci, ev, code = idx[nums[j]], nums[j + 1], nums[j + 2]
                e = cases[ci]["obs"]["events"][ev]
                cases[ci]["model_diff"] = dict(event=ev, notification=e["k"], site=e["site"], differs=DIFF.get(code, str(code)))
                mism.append(ci)
        return sorted(set(mism)), logs, problems

    # greedy reduction of a failing input: drop ops / blocks / stale entries while the same kind is reported
    def shrink(self, case, kind):
        import copy, tempfile
        if "bd" in case:
            return self.shrink_bd(case, kind)
        best = case
        runs = [0]

        def still(inp):
            if runs[0] >= 150:
                return None
            runs[0] += 1
            with tempfile.NamedTemporaryFile("w", suffix=".jsonl", delete=False, dir=WORK) as f:
                f.write(json.dumps({"in": inp}) + "\n")
                p = f.name
            try:
                rc, cs, err = run_vh(["c15", "-replay", p], timeout=300)
            finally:
                os.unlink(p)
            if rc == 0 and cs and kind in cs[0].get("oracle", []):
                return cs[0]
            return None

        def evo_of(c, i, k):
            return c["ops"][i]["evo"] if k is None else c["ops"][i]["evos"][k]

        def candidates(inp):
            ops = inp["ops"]
            for i in range(len(ops) - 1, -1, -1):
                c = copy.deepcopy(inp)
                del c["ops"][i]
                yield c
            for i, op in enumerate(ops):
                if op.get("stale"):
                    c = copy.deepcopy(inp)
                    c["ops"][i]["stale"] = []
                    yield c
                for k in range(len(op.get("evos") or []) - 1, -1, -1):
                    if len(op["evos"]) > 1:
                        c = copy.deepcopy(inp)
                        del c["ops"][i]["evos"][k]
                        yield c
                slots = ([None] if op.get("evo") else []) + list(range(len(op.get("evos") or [])))
                for k in slots:
                    e = evo_of(inp, i, k)
                    if e.get("blocks"):
                        for j in range(len(e["blocks"]) - 1, -1, -1):
                            c = copy.deepcopy(inp)
                            del evo_of(c, i, k)["blocks"][j]
                            if evo_of(c, i, k).get("depth", 0) > len(evo_of(c, i, k)["blocks"]) and k is not None:
                                evo_of(c, i, k)["depth"] = len(evo_of(c, i, k)["blocks"])
                            yield c
                        if any(b for b in e["blocks"]):
                            c = copy.deepcopy(inp)
                            evo_of(c, i, k)["blocks"] = [{} for _ in e["blocks"]]
                            yield c
                            for j, b in enumerate(e["blocks"]):
                                if b:
                                    c = copy.deepcopy(inp)
                                    evo_of(c, i, k)["blocks"][j] = {}
                                    yield c
                    if e.get("depth", 0) > 1:
                        c = copy.deepcopy(inp)
                        evo_of(c, i, k)["depth"] = e["depth"] - 1
                        yield c
        progress = True
        while progress and runs[0] < 150:
            progress = False
            for cand in candidates(best["in"]):
                got = still(cand)
                if got is not None:
                    best = got
                    progress = True
                    break
        return best


    def shrink_bd(self, case, kind):
        """drop steps of a bitcoind-producer case while the same clause is violated"""
        import copy, tempfile
        best, runs = case, 0
        progress = True
        while progress and runs < 30:
            progress = False
            steps = best["in"]["steps"]
            for i in range(len(steps) - 1, -1, -1):
                if len(steps) <= 1:
                    break
                inp = copy.deepcopy(best["in"])
                del inp["steps"][i]
                runs += 1
                with tempfile.NamedTemporaryFile("w", suffix=".jsonl", delete=False, dir=WORK) as f:
                    f.write(json.dumps({"in": inp}) + "\n")
                    p = f.name
                try:
                    rc, cs, err = run_vh(["c15bd", "-replay", p], timeout=300)
                finally:
                    os.unlink(p)
                if rc == 0 and cs and kind in cs[0].get("oracle", []):
                    best, progress = cs[0], True
                    break
        return best


CHECK = C15
