"""Rendering of transaction-store cases (harness/cmd/txstore) as Coq literals
and the shared check class of C01, C02, C12, C13."""
from vlib import *

CODES = {
    10: "store_error", 11: "model:lock_result", 12: "model:lock_expiry", 13: "model:balance", 14: "model:utxos",
    15: "model:outputs_to_watch", 16: "model:unmined_set", 17: "model:locked_list", 18: "model:tx_details",
    19: "model:unique_tx_details", 20: "model:range_transactions", 21: "model:pair_balance", 22: "model:pair_utxos",
    23: "model:pair_details", 24: "model:histories_not_equal", 25: "model:lock_expiry_denotes_other_lease",
    113: "balance_differs_from_ledger", 114: "spendable_set_differs_from_ledger", 116: "unconfirmed_set_differs_from_ledger",
    117: "lease_list_differs_from_ledger", 118: "tx_details_differ_from_ledger", 120: "range_iteration_differs_from_ledger",
    121: "pair_balance_differs_from_ledger", 122: "pair_spendable_set_differs_from_ledger", 123: "pair_details_differ_from_ledger",
    900: "generator:tip", 901: "generator:inconsistent_event", 902: "model:out_of_fuel", 903: "generator:inconsistent_pair",
    904: "generator:pair_facts_differ", 905: "generator:universe_not_wf",
}


def n(x):
    return "%d%%N" % (x if x >= 0 else 4294967295)


def z(x):
    return "(%d)%%Z" % x


def op(o):
    return "(%s, %s)" % (n(o[0]), n(o[1]))


def r_tx(t):
    return "{| t_id := %s; t_ins := %s; t_outs := %s; t_creds := %s; t_coinbase := %s |}" % (
        n(t["id"]), clist([op(i) for i in t["ins"] or []]), clist([z(a) for a in t["outs"]]),
        clist(["(%s, %s)" % (n(c[0]), cbool(c[1] != 0)) for c in t["creds"] or []]), cbool(t["coinbase"]))


def r_event(e):
    k = e["k"]
    if k == "seen":
        return "Seen %s" % n(e["t"])
    if k == "confirm":
        return "Confirm %s %s %s %s" % (n(e["t"]), z(e.get("h", 0)), n(e.get("b", 0)), z(e.get("bt", 0)))
    if k == "disconnect":
        return "Disconnect %s" % z(e.get("h", 0))
    if k == "abandon":
        return "Abandon %s" % n(e["t"])
    if k == "lease":
        return "Lease %s %s %s" % (n(e.get("id", 0)), op(e.get("op", [0, 0])), z(e.get("dur", 0)))
    if k == "release":
        return "Release %s %s" % (n(e.get("id", 0)), op(e.get("op", [0, 0])))
    if k == "tick":
        return "Tick %s" % z(e.get("dt", 0))
    if k == "sweep":
        return "Sweep"
    if k == "redeliver":
        if e.get("h", 0) < 0:
            return "Redeliver %s None" % n(e["t"])
        return "Redeliver %s (Some (%s, %s, %s))" % (n(e["t"]), z(e.get("h", 0)), n(e.get("b", 0)), z(e.get("bt", 0)))
    raise ValueError(k)


def r_details(d):
    if not d["found"]:
        return "None"
    blk = "Some (%s, %s)" % (z(d["h"]), n(d["b"])) if d["mined"] else "None"
    creds = clist(["{| cr_index := %s; cr_amt := %s; cr_spent := %s; cr_change := %s |}" % (
        n(c["i"]), z(c["amt"]), cbool(c["spent"]), cbool(c["chg"])) for c in d["credits"] or []])
    debs = clist(["(%s, %s)" % (n(x[0]), z(x[1])) for x in d["debits"] or []])
    return "Some {| d_block := %s; d_credits := %s; d_debits := %s |}" % (blk, creds, debs)


LOCKC = {"": 0, "ok": 1, "unknown": 2, "already": 3, "notallowed": 4}


def r_obs(o, details):
    utx = clist(["{| u_op := %s; u_amt := %s; u_height := %s; u_hash := %s; u_coinbase := %s |}" % (
        op(u["op"]), z(u["amt"]), z(u["h"]), n(u["b"]), cbool(u["cb"])) for u in o["utxos"] or []])
    locked = clist(["(%s, {| l_id := %s; l_expiry := %s |})" % (op(l[:2]), n(l[2]), z(l[3])) for l in o["locked"] or []])
    dets = clist(["(%s, %s)" % (n(d["t"]), r_details(d)) for d in (o.get("details") or [])]) if details else "[]"
    uniq = clist(["(%s, %s)" % (n(d["t"]), r_details(d)) for d in (o.get("unique") or [])]) if details else "[]"
    ranges = "[]"
    if details and o.get("ranges") is not None:
        rs = []
        for q, groups in zip(o["rangeq"], o["ranges"]):
            gs = clist(["(%s, %s)" % (z(g[0]), clist([n(t) for t in g[1:]])) for g in groups])
            rs.append("((%s, %s), %s)" % (z(q[0]), z(q[1]), gs))
        ranges = clist(rs)
    out = o["out"]
    return ("{| io_err := %s; io_lock := %s; io_expiry := %s; io_tip := %s; io_bal := %s; io_utxos := %s; io_watch := %s; "
            "io_unmined := %s; io_locked := %s; io_details := %s; io_unique := %s; io_ranges := %s |}") % (
        cbool(bool(out.get("err"))), n(LOCKC[out.get("lock", "")]), z(out.get("expiry", 0)), z(o["tip"]),
        clist([z(b) for b in o["bal"] or []]), utx, clist([op(w) for w in o["watch"] or []]),
        clist([n(t) for t in o["unmined"] or []]), locked, dets, uniq, ranges)


def r_case(c):
    i = c["in"]
    det = bool(i.get("details"))
    evs = clist(["\n   (%s, %s)" % (r_event(e), r_obs(o, det)) for e, o in zip(i["events"], c["obs"])])
    evb = clist([r_event(e) for e in i.get("events_b") or []])
    ob = "Some (%s)" % r_obs(c["obs_b"], det) if c.get("obs_b") else "None"
    return ("{| tc_universe := %s;\n  tc_minconfs := %s; tc_syncoffs := %s; tc_details := %s;\n  tc_events := %s;\n"
            "  tc_events_b := %s; tc_obs_b := %s |}") % (
        clist(["\n   " + r_tx(t) for t in (i["universe"] or [])]), clist([z(x) for x in i["minconfs"]]),
        clist([z(x) for x in i["syncoffs"]]), cbool(det), evs, evb, ob)


class TxCheck(Check):
    MODE = "c01"
    SHARD = 25
    KINDS = None        # spec-level codes that belong to this property (None = all)
    MODEL_CODES = None  # model-level codes (10..99) whose mismatch breaks THIS property's correspondence
    MAXEV = 40
    MAXTX = 12

    def vh_cmd(self):
        return "txstore"

    def gen_args(self, tier, seed):
        nn = self.N_QUICK if tier == "quick" else self.N_THOROUGH
        return [["txstore", "-mode", self.MODE, "-n", str(nn), "-seed", str(seed), "-maxev", str(self.MAXEV),
                 "-maxtx", str(self.MAXTX)]]

    def replay_args(self, replay):
        return [["txstore", "-mode", self.MODE, "-replay", replay]]

    def sample(self, c):
        i = c["in"]
        return dict(universe=i["universe"], events=i["events"], events_b=i.get("events_b"), tags=c.get("tags"),
                    final_observation=dict((k, v) for k, v in c["obs"][-1].items() if k in ("bal", "utxos", "unmined", "locked", "tip")))

    def render_cases(self, cases):
        return """From stdpp Require Import gmap list numbers.
From Coq Require Import ZArith NArith.
From Verif Require Import Tx.Store Tx.Ledger Tx.Hist Tx.StoreCorr.
Definition cases : list tcase :=
%s.
Definition bad := Eval vm_compute in failures cases.
Print bad.
""" % clist(["\n " + r_case(c) for c in cases])

    def evaluate_model(self, cases):
        import concurrent.futures as cf
        mism, logs, problems = [], "", []
        shards = [(s, cases[s:s + self.SHARD]) for s in range(0, len(cases), self.SHARD)]

        def run(sh):
            start, chunk = sh
            return start, coq_eval(self.ID, self.render_cases(chunk), "cases_%d" % start)
        with cf.ThreadPoolExecutor(max_workers=12) as ex:
            results = list(ex.map(run, shards))
        self.fail_detail = {}
        for start, (rc, out, err) in results:
            if rc != 0:
                problems.append("correspondence: cases file does not evaluate: " + (err or out)[-1500:])
                continue
            printed = parse_printed(out, "bad")
            if printed is None:
                problems.append("correspondence: could not parse model output: " + out[-500:])
                continue
            nums = [int(x) for x in re.findall(r"\d+", printed)]
            for j in range(0, len(nums) - 2, 3):
                ci, ev, code = start + nums[j], nums[j + 1], nums[j + 2]
                self.fail_detail.setdefault(ci, []).append((ev, code))
        for ci, fl in sorted(self.fail_detail.items()):
            c = cases[ci]
            spec = sorted({CODES.get(code, str(code)) for ev, code in fl if 100 <= code < 900 or code == 10})
            other = [(ev, code) for ev, code in fl if not (100 <= code < 900 or code == 10)]
            if self.MODEL_CODES is not None:
                # observables outside this property's text are compared for
                # information only (recorded, never an alarm for this property)
                drift = [(ev, code) for ev, code in other if code < 100 and code not in self.MODEL_CODES]
                other = [(ev, code) for ev, code in other if not (code < 100 and code not in self.MODEL_CODES)]
                if drift:
                    self.drift = getattr(self, "drift", 0) + 1
            if self.KINDS is not None:
                spec = [k for k in spec if k in self.KINDS]
            for k in spec:
                if k not in c["oracle"]:
                    c["oracle"].append(k)
            c["first_failures"] = [dict(event=ev, what=CODES.get(code, str(code))) for ev, code in fl[:6]]
            if other:
                mism.append(ci)
                gen = [code for ev, code in other if code >= 900 and code != 902]
                if gen:
                    problems.append("generator produced an inadmissible case (index %d): %s" % (
                        ci, [CODES.get(x) for x in gen]))
        return mism, logs, problems

    def extra_coverage(self, cases):
        return dict(cases_with_drift_in_observables_outside_this_property=getattr(self, "drift", 0))

    def site_of(self, case, kind):
        # site = the event kind at which the property first failed
        fl = case.get("first_failures") or []
        for f in fl:
            if f["what"] == kind:
                ev = case["in"]["events"]
                if f["event"] < len(ev):
                    return ev[f["event"]]["k"]
                return "pair"
        return "*"
