"""Facts of wallet/txsizes, wallet/txrules and wallet/txauthor that the C07
theorems depend on, regenerated from the repository's current source into
coq/Generated/TxsizesConsts.v.

  * the size constants of wallet/txsizes/size.go (const block, evaluated);
  * DefaultRelayFeePerKb and the divisor of FeeForSerializeSize (rules.go);
  * the terms of EstimateVirtualSize as the function USES them: the per-kind
    input sizes of `baseSize`, and the whole witness-weight block (the fixed
    marker+flag weight, the per-kind witness weights - which constant is
    multiplied with which count -, the compact-size of the witness input
    count) and its rounding addend;
  * the script size the wallet's change source (wallet/createtx.go
    addrMgrWithChangeSource) declares to txauthor for each change address type;
  * varint_counts_change: whether the compact-size of the output count in
    EstimateVirtualSize is taken over the count that includes the change
    output (`outputCount`) or over `len(txOuts)` only;
  * the input counts of the initial size guess of NewUnsignedTransaction.

Two paths produce the same facts:

  PRIMARY  - reading the source shape (regular expressions over the three
             files);
  FALLBACK - when the shape is not recognised (e.g. after a behaviour
             preserving refactor): PROBING the code built from the repository
             through harness/cmd/extract-c07 (the harness module resolves the
             btcwallet packages to `repo`).  Exported constants are printed;
             every other fact is determined by a small fixed set of calls of
             EstimateVirtualSize / FeeForSerializeSize / NewUnsignedTransaction
             (see probe_facts for the argument set and why it determines each
             fact), and the fitted estimate/fee formulas are then compared with
             the functions on a fixed grid of ~7 600 argument tuples; a
             disagreement makes the probe path fail.

The Generated file says in a comment which path produced it
(`facts source: ...`).  Only if both paths fail does main() raise, so that the
check reports a broken obligation instead of silently keeping an old table."""
import hashlib, itertools, json, os, re, shutil, subprocess


class ExtractError(Exception):
    pass


def strip_comments(src):
    src = re.sub(r"/\*.*?\*/", " ", src, flags=re.S)
    return "\n".join(re.sub(r"//.*$", "", l) for l in src.split("\n"))


def const_block_values(src, path):
    """Evaluate `Name = <sum/product of ints and earlier names>` entries of all
    const ( ... ) blocks."""
    vals = {}
    for blk in re.findall(r"\bconst\s*\((.*?)^\)", src, flags=re.S | re.M):
        # join continuation lines (a line ending with an operator)
        text = re.sub(r"([+\-*])\s*\n\s*", r"\1 ", blk)
        for line in text.split("\n"):
            line = line.strip()
            if not line:
                continue
            m = re.match(r"^([A-Za-z_]\w*)\s*=\s*(.+)$", line)
            if not m:
                raise ExtractError("%s: const entry not recognised: %r" % (path, line))
            name, expr = m.group(1), m.group(2).strip()
            if not re.fullmatch(r"[\w\s+\-*()]+", expr):
                raise ExtractError("%s: const expression not recognised: %s = %s" % (path, name, expr))
            for ident in re.findall(r"[A-Za-z_]\w*", expr):
                if ident not in vals:
                    raise ExtractError("%s: %s refers to unknown constant %s" % (path, name, ident))
            vals[name] = int(eval(expr, {"__builtins__": {}}, dict(vals)))
    return vals


def func_body(src, name, path):
    m = re.search(r"^func\s+(?:\([^)]*\)\s*)?%s\s*\(" % re.escape(name), src, flags=re.M)
    if not m:
        raise ExtractError("%s: func %s not found" % (path, name))
    i = src.index("{", m.end())
    depth, j = 0, i
    while j < len(src):
        if src[j] == "{":
            depth += 1
        elif src[j] == "}":
            depth -= 1
            if depth == 0:
                return src[i + 1:j]
        j += 1
    raise ExtractError("%s: func %s: unbalanced braces" % (path, name))


def call_args(text, callee):
    """argument texts of every `callee(` ... `)` call in text (paren matched)."""
    out = []
    for m in re.finditer(re.escape(callee) + r"\s*\(", text):
        depth, j = 1, m.end()
        while j < len(text) and depth:
            if text[j] == "(":
                depth += 1
            elif text[j] == ")":
                depth -= 1
            j += 1
        out.append(re.sub(r"\s+", "", text[m.end():j - 1]))
    return out


NEED = ["RedeemP2PKHSigScriptSize", "P2PKHPkScriptSize", "RedeemP2PKHInputSize", "P2PKHOutputSize",
        "P2WPKHPkScriptSize", "P2WPKHOutputSize", "RedeemP2WPKHScriptSize", "RedeemP2WPKHInputSize",
        "P2TRPkScriptSize", "P2TROutputSize", "RedeemP2TRScriptSize", "RedeemP2TRInputSize",
        "NestedP2WPKHPkScriptSize", "RedeemNestedP2WPKHScriptSize", "RedeemNestedP2WPKHInputSize",
        "RedeemP2WPKHInputWitnessWeight", "RedeemP2TRInputWitnessWeight"]

NAMES = {
    "RedeemP2PKHSigScriptSize": "redeem_p2pkh_sig_script_size",
    "P2PKHPkScriptSize": "p2pkh_pk_script_size",
    "RedeemP2PKHInputSize": "redeem_p2pkh_input_size",
    "P2PKHOutputSize": "p2pkh_output_size",
    "P2WPKHPkScriptSize": "p2wpkh_pk_script_size",
    "P2WPKHOutputSize": "p2wpkh_output_size",
    "RedeemP2WPKHScriptSize": "redeem_p2wpkh_script_size",
    "RedeemP2WPKHInputSize": "redeem_p2wpkh_input_size",
    "P2TRPkScriptSize": "p2tr_pk_script_size",
    "P2TROutputSize": "p2tr_output_size",
    "RedeemP2TRScriptSize": "redeem_p2tr_script_size",
    "RedeemP2TRInputSize": "redeem_p2tr_input_size",
    "NestedP2WPKHPkScriptSize": "nested_p2wpkh_pk_script_size",
    "RedeemNestedP2WPKHScriptSize": "redeem_nested_p2wpkh_script_size",
    "RedeemNestedP2WPKHInputSize": "redeem_nested_p2wpkh_input_size",
    "RedeemP2WPKHInputWitnessWeight": "redeem_p2wpkh_input_witness_weight",
    "RedeemP2TRInputWitnessWeight": "redeem_p2tr_input_witness_weight",
}


# waddrmgr address type of the change address -> name in the Generated file
CHANGE_TYPES = {"PubKeyHash": "pubkeyhash", "NestedWitnessPubKey": "nested_witness_pubkey",
                "WitnessPubKey": "witness_pubkey", "TaprootPubKey": "taproot_pubkey"}
CHANGE_ORDER = ["pubkeyhash", "nested_witness_pubkey", "witness_pubkey", "taproot_pubkey"]


# ------------------------------------------------------------------ primary path: source shape

def source_facts(repo):
    p_size = os.path.join(repo, "wallet", "txsizes", "size.go")
    p_rules = os.path.join(repo, "wallet", "txrules", "rules.go")
    p_author = os.path.join(repo, "wallet", "txauthor", "author.go")
    size = strip_comments(open(p_size).read())
    rules = strip_comments(open(p_rules).read())
    author = strip_comments(open(p_author).read())

    consts = const_block_values(size, p_size)
    for n in NEED:
        if n not in consts:
            raise ExtractError("%s: constant %s not found" % (p_size, n))

    # ---- EstimateVirtualSize: which count goes into the output-count varint
    body = func_body(size, "EstimateVirtualSize", p_size)
    m = re.search(r"baseSize\s*:=(.*?)\n\s*\n", body, flags=re.S)
    if not m:
        raise ExtractError("%s: EstimateVirtualSize: `baseSize :=` expression not found" % p_size)
    base_expr = m.group(1)
    vargs = call_args(base_expr, "wire.VarIntSerializeSize")
    if len(vargs) != 2:
        raise ExtractError("%s: EstimateVirtualSize: expected two compact-size terms in baseSize, found %r" % (p_size, vargs))
    mi = re.fullmatch(r"uint64\(([\w+]+)\)", vargs[0])
    if not mi or sorted(mi.group(1).split("+")) != sorted(
            ["numP2PKHIns", "numP2TRIns", "numP2WPKHIns", "numNestedP2WPKHIns"]):
        raise ExtractError("%s: EstimateVirtualSize: input-count compact-size not recognised: %s" % (p_size, vargs[0]))
    counts_output_count = bool(re.search(r"outputCount\s*:=\s*len\(txOuts\)", body)) and bool(
        re.search(r"if\s+changeScriptSize\s*>\s*0\s*\{[^}]*outputCount\+\+[^}]*\}", body, flags=re.S))
    if vargs[1] == "uint64(len(txOuts))":
        vcc = False
    elif vargs[1] == "uint64(outputCount)" and counts_output_count:
        vcc = True
    else:
        raise ExtractError("%s: EstimateVirtualSize: output-count compact-size not recognised: %s" % (p_size, vargs[1]))
    COUNTS = {"numP2PKHIns": "p2pkh", "numP2WPKHIns": "p2wpkh", "numP2TRIns": "p2tr", "numNestedP2WPKHIns": "nested"}

    def value_of(tok, where):
        if re.fullmatch(r"\d+", tok):
            return int(tok)
        if tok in consts:
            return consts[tok]
        raise ExtractError("%s: EstimateVirtualSize: %s: %s is neither a literal nor a constant of the const block" % (p_size, where, tok))

    def top_terms(expr):
        """top-level `+` terms of an expression, white space removed"""
        expr = re.sub(r"\s+", "", expr)
        terms, depth, cur = [], 0, ""
        for ch in expr:
            if ch == "(":
                depth += 1
            elif ch == ")":
                depth -= 1
            if ch == "+" and depth == 0:
                terms.append(cur)
                cur = ""
            else:
                cur += ch
        terms.append(cur)
        return terms

    def per_kind(terms, where, kinds):
        """the `count*Const` terms: kind -> value; returns (map, other terms)"""
        got, rest = {}, []
        for t in terms:
            mm = re.fullmatch(r"(\w+)\*(\w+)", t)
            if mm and (mm.group(1) in COUNTS or mm.group(2) in COUNTS):
                cnt, c = (mm.group(1), mm.group(2)) if mm.group(1) in COUNTS else (mm.group(2), mm.group(1))
                k = COUNTS[cnt]
                if k in got:
                    raise ExtractError("%s: EstimateVirtualSize: %s: two terms for %s" % (p_size, where, cnt))
                got[k] = value_of(c, where)
            else:
                rest.append(t)
        if sorted(got) != sorted(kinds):
            raise ExtractError("%s: EstimateVirtualSize: %s: per-kind terms found for %r, expected %r" % (p_size, where, sorted(got), sorted(kinds)))
        return got, rest

    # the per-kind input sizes of baseSize, as the function uses them
    est_in, rest = per_kind(top_terms(base_expr), "baseSize", ["p2pkh", "p2wpkh", "p2tr", "nested"])
    rest = [t for t in rest if not t.startswith("wire.VarIntSerializeSize(")]
    if sorted(rest) != sorted(["8", "SumOutputSerializeSizes(txOuts)", "changeOutputSize"]):
        raise ExtractError("%s: EstimateVirtualSize: baseSize has unrecognised terms %r" % (p_size, rest))
    if not re.search(r"changeOutputSize\s*:=\s*0\s*\n\s*if\s+changeScriptSize\s*>\s*0\s*\{\s*changeOutputSize\s*=\s*8\s*\+\s*"
                     r"wire\.VarIntSerializeSize\(\s*uint64\(changeScriptSize\)\s*\)\s*\+\s*changeScriptSize\b", body):
        raise ExtractError("%s: EstimateVirtualSize: changeOutputSize block not recognised" % p_size)
    # the witness-weight block
    m = re.search(r"witnessWeight\s*:=\s*0\s*\n\s*if\s+([\w+\s]+?)\s*>\s*0\s*\{\s*witnessWeight\s*=(.*?)\n\s*\}", body, flags=re.S)
    if not m:
        raise ExtractError("%s: EstimateVirtualSize: witnessWeight block not recognised" % p_size)
    wnames = sorted(["numP2WPKHIns", "numNestedP2WPKHIns", "numP2TRIns"])
    if sorted(re.sub(r"\s+", "", m.group(1)).split("+")) != wnames:
        raise ExtractError("%s: EstimateVirtualSize: witnessWeight guard not recognised: %s" % (p_size, m.group(1)))
    est_ww, rest = per_kind(top_terms(m.group(2)), "witnessWeight", ["p2wpkh", "p2tr", "nested"])
    wv = [t for t in rest if t.startswith("wire.VarIntSerializeSize(")]
    lits = [t for t in rest if not t.startswith("wire.VarIntSerializeSize(")]
    mi = re.fullmatch(r"wire\.VarIntSerializeSize\(uint64\(([\w+]+)\)\)", wv[0]) if len(wv) == 1 else None
    if not mi or sorted(mi.group(1).split("+")) != wnames:
        raise ExtractError("%s: EstimateVirtualSize: witnessWeight compact-size term not recognised: %r" % (p_size, wv))
    if len(lits) != 1:
        raise ExtractError("%s: EstimateVirtualSize: witnessWeight fixed part not recognised: %r" % (p_size, lits))
    est_ww["marker"] = value_of(lits[0], "witnessWeight")
    m = re.search(r"return\s+baseSize\s*\+\s*\(witnessWeight\s*\+\s*(\d+)\)\s*/\s*blockchain\.WitnessScaleFactor", body)
    if not m:
        raise ExtractError("%s: EstimateVirtualSize: return expression not recognised" % p_size)
    wround = int(m.group(1))

    # ---- txrules
    m = re.search(r"const\s+DefaultRelayFeePerKb\s+btcutil\.Amount\s*=\s*([0-9][0-9_]*(?:e[0-9]+)?)", rules)
    if not m:
        raise ExtractError("%s: DefaultRelayFeePerKb not recognised" % p_rules)
    lit = m.group(1).replace("_", "")
    relay = int(float(lit)) if "e" in lit else int(lit)
    fbody = func_body(rules, "FeeForSerializeSize", p_rules)
    m = re.search(r"fee\s*:=\s*relayFeePerKb\s*\*\s*btcutil\.Amount\(txSerializeSize\)\s*/\s*(\d+)", fbody)
    if not m:
        raise ExtractError("%s: FeeForSerializeSize: fee expression not recognised" % p_rules)
    divisor = int(m.group(1))

    # ---- txauthor: the initial size guess
    abody = func_body(author, "NewUnsignedTransaction", p_author)
    m = re.search(r"estimatedSize\s*:=\s*txsizes\.EstimateVirtualSize\(\s*(\d+)\s*,\s*(\d+)\s*,\s*(\d+)\s*,\s*(\d+)\s*,"
                  r"\s*outputs\s*,\s*changeSource\.ScriptSize\s*,?\s*\)", abody)
    if not m:
        raise ExtractError("%s: NewUnsignedTransaction: initial EstimateVirtualSize call not recognised" % p_author)
    init = [int(x) for x in m.groups()]
    # parameter order of EstimateVirtualSize
    m = re.search(r"func\s+EstimateVirtualSize\s*\(\s*numP2PKHIns\s*,\s*numP2TRIns\s*,\s*numP2WPKHIns\s*,\s*"
                  r"numNestedP2WPKHIns\s+int\s*,\s*txOuts\s+\[\]\*wire\.TxOut\s*,\s*changeScriptSize\s+int\s*\)", size)
    if not m:
        raise ExtractError("%s: EstimateVirtualSize: parameter list not recognised" % p_size)
    # ---- wallet/createtx.go: what the change source declares per change address type
    p_create = os.path.join(repo, "wallet", "createtx.go")
    create = strip_comments(open(p_create).read())
    cbody = func_body(create, "addrMgrWithChangeSource", p_create)
    m = re.search(r"switch\s+addrType\s*\{(.*?)\n\s*default\s*:", cbody, flags=re.S)
    if not m or not re.search(r"ScriptSize\s*:\s*scriptSize\b", cbody) or not re.search(r"var\s+scriptSize\s+int\b", cbody):
        raise ExtractError("%s: addrMgrWithChangeSource: scriptSize switch / ChangeSource literal not recognised" % p_create)
    arms = re.findall(r"case\s+waddrmgr\.(\w+)\s*:\s*scriptSize\s*=\s*(?:txsizes\.)?(\w+)\s*(?=case\b|$)", m.group(1).strip(), flags=re.S)
    change = {}
    for at, c in arms:
        if at not in CHANGE_TYPES or at in change:
            raise ExtractError("%s: addrMgrWithChangeSource: unexpected arm for address type %s" % (p_create, at))
        if re.fullmatch(r"\d+", c):
            change[at] = int(c)
        elif c in consts:
            change[at] = consts[c]
        else:
            raise ExtractError("%s: addrMgrWithChangeSource: %s is not a txsizes constant" % (p_create, c))
    if sorted(change) != sorted(CHANGE_TYPES) or len(arms) != len(re.findall(r"\bcase\b", m.group(1))):
        raise ExtractError("%s: addrMgrWithChangeSource: arms recognised for %r, expected exactly %r" % (p_create, sorted(change), sorted(CHANGE_TYPES)))
    return dict(consts={n: consts[n] for n in NEED}, est_in=est_in, est_ww=est_ww, wround=wround, relay=relay,
                divisor=divisor, vcc=vcc,
                vcc_note="EstimateVirtualSize takes the compact-size of the output count over `%s`" % vargs[1],
                init=init, change={CHANGE_TYPES[k]: v for k, v in change.items()})


# ------------------------------------------------------------------ fallback path: probing the built code

MAX_SATOSHI = 2100000000000000


def _vi(n):
    return 1 if n < 253 else 3 if n <= 0xffff else 5 if n <= 0xffffffff else 9


def _est_model(P, c, nout, out_len, chg):
    """the shape of Fee.v's est_vsize_gen with parameters P"""
    k, t, a, b = c
    chg_out = 8 + _vi(chg) + chg if chg > 0 else 0
    oc = nout + 1 if chg > 0 else nout
    base = (8 + _vi(k + t + a + b) + _vi(oc if P["vcc"] else nout) + k * P["C1"] + a * P["C2"] + t * P["C3"] + b * P["C4"]
            + nout * (8 + _vi(out_len) + out_len) + chg_out)
    w = a + b + t
    ww = P["M"] + _vi(w) + a * P["W"] + t * P["WT"] + b * P["WN"] if w > 0 else 0
    return base + (ww + P["R"]) // 4


def _fee_model(D, rate, size):
    q = rate * size // D
    if q == 0 and rate > 0:
        q = rate
    if q < 0 or q > MAX_SATOSHI:
        q = MAX_SATOSHI
    return q


def _run_probe(repo, request):
    """build harness/cmd/extract-c07 against `repo` and run it on the request"""
    import vlib
    with vlib.Lock("go"):
        os.makedirs(os.path.join(vlib.WORK, "bin"), exist_ok=True)
        modflag = []
        if repo == "/repo":
            shutil.copyfile(os.path.join(repo, "go.sum"), os.path.join(vlib.HARNESS, "go.sum"))
        else:
            alt = os.path.join(vlib.WORK, "extract_c07_%s.mod" % hashlib.sha1(repo.encode()).hexdigest()[:8])
            txt = open(os.path.join(vlib.HARNESS, "go.mod")).read().replace("=> /repo", "=> " + repo)
            open(alt, "w").write(txt)
            shutil.copyfile(os.path.join(repo, "go.sum"), alt[:-4] + ".sum")
            modflag = ["-modfile=" + alt]
        exe = os.path.join(vlib.WORK, "bin", "extract-c07")
        p = subprocess.run(["go", "build"] + modflag + ["-tags", "verif", "-o", exe, "./cmd/extract-c07"], cwd=vlib.HARNESS,
                           env=vlib.GOENV, stdout=subprocess.PIPE, stderr=subprocess.PIPE, text=True, timeout=900)
        if p.returncode != 0:
            raise ExtractError("probe: harness/cmd/extract-c07 does not build against %s: %s" % (repo, (p.stdout + p.stderr)[-1500:]))
    p = subprocess.run([exe], input=json.dumps(request), cwd=vlib.WORK, stdout=subprocess.PIPE, stderr=subprocess.PIPE,
                       text=True, timeout=300)
    if p.returncode != 0:
        raise ExtractError("probe: extract-c07 failed: %s" % p.stderr[-1500:])
    return json.loads(p.stdout)


def probe_facts(repo):
    """Facts determined by running the code.

    Notation: E(c; n, chg) = EstimateVirtualSize(c = (p2pkh, p2tr, p2wpkh, nested), n outputs with 22-byte scripts,
    change script size chg); F(r, s) = FeeForSerializeSize(r, s); model shape (Fee.v, est_vsize_gen):
      E = 8 + vi(#in) + vi(#out [+1 if vcc and chg>0]) + k*C1 + a*C2 + t*C3 + b*C4 + outputs + change
          + (2 + vi(a+b+t) + (a+b)*W + t*WT + R) / 4            (witness part only when a+b+t > 0)

    1. exported constants: printed by the Go program.
    2. C1 (P2PKH input size as the function uses it) = E((2,0,0,0);0,0) - E((1,0,0,0);0,0): no witness part, same
       compact-sizes, so the difference is exactly one P2PKH input.
    3. per-input WEIGHT of each witness kind x: w_x = E(5 of x) - E(1 of x) = 4*C_x + W_x exactly (the numerator of
       the rounded term grows by 4*W_x, so the quotient grows by W_x; compact-sizes equal).  Only the weight is
       observable - moving 1 byte from C_x into 4 units of W_x never changes E - so the split is taken from the
       exported constants: W = RedeemP2WPKHInputWitnessWeight, WT = RedeemP2TRInputWitnessWeight and
       C_x = (w_x - W_x)/4, which must be integral (nested uses W, as the model does).
    4. R (rounding addend): the unique R in 0..7 for which the model reproduces E((0,0,a,0);0,0) for a = 0..4;
       unique whenever W is odd because a*W then runs through all residues mod 4.
    5. varint_counts_change: d = E((0,0,1,0);252,22) - E((0,0,1,0);252,0) = (8+1+22) + (vi(253)-vi(252) = 2 iff the
       compact-size counts the change output); d = 33 -> true, d = 31 -> false, anything else is inconsistent.
    6. fee_divisor D: F(10^9, 1) = floor(10^9 / D); for D < 31 622 at most one integer D has that quotient.
    7. init_guess: NewUnsignedTransaction(one output, rate 10^6, change size 22) with a recording input source that
       offers nothing: (first requested target - outputs) is the fee of the initial estimate; it is compared with
       F(10^6, E(c;1,22)) for c in {0, the four single-input vectors} - five distinct values - exactly one must match.
    8. validation: the fitted estimate/fee formulas against the functions on a fixed grid (counts in {0,1,2,5,253}^4
       x outputs {0,1,252,253} x change {0,22,34} plus long scripts; rates x sizes incl. the zero-fee rule and the
       MaxSatoshi clamp); any disagreement fails the probe path."""
    est_q, keys = [], {}

    def q(c, nout=0, chg=0, out_len=22):
        k = (tuple(c), nout, chg, out_len)
        if k not in keys:
            keys[k] = len(est_q)
            est_q.append(dict(c=list(c), nout=nout, out_len=out_len, chg=chg))
        return k

    unit = {"t": (0, 1, 0, 0), "a": (0, 0, 1, 0), "b": (0, 0, 0, 1)}
    fit_keys = [q((0, 0, 0, 0)), q((1, 0, 0, 0)), q((2, 0, 0, 0))]
    for u in unit.values():
        fit_keys += [q(u), q(tuple(5 * x for x in u))]
    for a in range(0, 5):
        fit_keys.append(q((0, 0, a, 0)))
    fit_keys += [q((0, 0, 1, 0), 252, 22), q((0, 0, 1, 0), 252, 0), q((0, 0, 1, 0), 251, 22), q((0, 0, 1, 0), 251, 0)]
    grid = []
    for c in itertools.product([0, 1, 2, 5, 253], repeat=4):
        for nout in (0, 1, 252, 253):
            for chg in (0, 22, 34):
                grid.append(q(c, nout, chg))
    for c in [(1, 0, 0, 0), (0, 1, 1, 1), (65536, 0, 0, 1)]:
        for nout, chg, ol in [(3, 253, 253), (252, 300, 25), (2, 25, 70000)]:
            grid.append(q(c, nout, chg, ol))
    rates = [0, 1, 10, 999, 1000, 1001, 2500, 52583, 10 ** 6, 10 ** 9]
    sizes = [0, 1, 2, 10, 122, 999, 1000, 1001, 8005, 100000, 10 ** 7, 3 * 10 ** 9]
    fee_q = [dict(rate=10 ** 9, size=1)] + [dict(rate=r, size=s) for r in rates for s in sizes]
    init_q = [dict(rate=10 ** 6, nout=1, out_len=22, out_val=5000, chg=22)]
    resp = _run_probe(repo, dict(est=est_q, fee=fee_q, init=init_q, change=CHANGE_ORDER))
    E = lambda k: resp["est"][keys[k]]                       # noqa: E731
    consts = resp["consts"]
    for n in NEED + ["DefaultRelayFeePerKb"]:
        if n not in consts:
            raise ExtractError("probe: constant %s not reported" % n)

    # the fixed marker+flag weight and the rounding addend are only observable as their sum: the marker is
    # taken as 2 (what a witness serialization has), the addend is fitted (step 4)
    P = dict(W=consts["RedeemP2WPKHInputWitnessWeight"], WT=consts["RedeemP2TRInputWitnessWeight"],
             WN=consts["RedeemP2WPKHInputWitnessWeight"], M=2)
    P["C1"] = E(((2, 0, 0, 0), 0, 0, 22)) - E(((1, 0, 0, 0), 0, 0, 22))
    for x, cname, wname in [("a", "C2", "W"), ("t", "C3", "WT"), ("b", "C4", "WN")]:
        u = unit[x]
        wx = E((tuple(5 * v for v in u), 0, 0, 22)) - E((u, 0, 0, 22))
        if (wx - P[wname]) % 4 != 0:
            raise ExtractError("probe: weight of a %s input (%d) is not 4*size + %d" % (x, wx, P[wname]))
        P[cname] = (wx - P[wname]) // 4
    d = E(((0, 0, 1, 0), 252, 22, 22)) - E(((0, 0, 1, 0), 252, 0, 22))
    d251 = E(((0, 0, 1, 0), 251, 22, 22)) - E(((0, 0, 1, 0), 251, 0, 22))
    chg_out = 8 + 1 + 22
    if d251 != chg_out or d not in (chg_out, chg_out + 2):
        raise ExtractError("probe: change output adds %d at 251 outputs and %d at 252 outputs; expected %d and %d or %d"
                           % (d251, d, chg_out, chg_out, chg_out + 2))
    P["vcc"] = d == chg_out + 2
    cand_R = []
    for R in range(8):
        P["R"] = R
        if all(_est_model(P, (0, 0, a, 0), 0, 22, 0) == E(((0, 0, a, 0), 0, 0, 22)) for a in range(5)):
            cand_R.append(R)
    if len(cand_R) != 1:
        raise ExtractError("probe: rounding addend not determined (candidates %r)" % cand_R)
    P["R"] = cand_R[0]
    v = resp["fee"][0]
    cand_D = [D for D in range(1, 31622) if 10 ** 9 // D == v]
    if len(cand_D) != 1:
        raise ExtractError("probe: fee divisor not determined: F(10^9,1) = %d (candidates %r)" % (v, cand_D[:5]))
    D = cand_D[0]
    ia = resp["init"][0]
    if ia["calls"] < 1 or "insufficient" not in ia["err"]:
        raise ExtractError("probe: NewUnsignedTransaction did not ask the input source / unexpected result: %r" % ia)
    fee0 = ia["first_target"] - ia["sum_out"]
    cands = [(0, 0, 0, 0), (1, 0, 0, 0), (0, 1, 0, 0), (0, 0, 1, 0), (0, 0, 0, 1)]
    hits = [c for c, f in zip(cands, ia["cand_fee"]) if f == fee0]
    if len(set(ia["cand_fee"])) != 5 or len(hits) != 1:
        raise ExtractError("probe: initial guess not determined: first fee %d, candidate fees %r" % (fee0, ia["cand_fee"]))
    # validation of the fitted formulas
    bad = [k for k in fit_keys + grid if _est_model(P, k[0], k[1], k[3], k[2]) != E(k)]
    if bad:
        k = bad[0]
        raise ExtractError("probe: EstimateVirtualSize does not have the model's shape: %d/%d probes differ, first %r: "
                           "function %d, fitted model %d (parameters %r)" % (
                               len(bad), len(fit_keys) + len(grid), k, E(k), _est_model(P, k[0], k[1], k[3], k[2]), P))
    badf = [(fq, got) for fq, got in zip(fee_q, resp["fee"]) if _fee_model(D, fq["rate"], fq["size"]) != got]
    if badf:
        raise ExtractError("probe: FeeForSerializeSize does not have the model's shape (divisor %d): %d/%d probes differ, "
                           "first %r -> %d" % (D, len(badf), len(fee_q), badf[0][0], badf[0][1]))
    cs = {n: consts[n] for n in NEED}
    # the sizes the function actually uses
    cs["RedeemP2PKHInputSize"], cs["RedeemP2WPKHInputSize"] = P["C1"], P["C2"]
    cs["RedeemP2TRInputSize"], cs["RedeemNestedP2WPKHInputSize"] = P["C3"], P["C4"]
    # 9. what the wallet's change source declares: asked from a real wallet (verif hook VerifChangeSource) for a
    #    change address of each waddrmgr address type
    chg = resp.get("change") or []
    if len(chg) != len(CHANGE_ORDER):
        raise ExtractError("probe: change source not probed: %r" % (chg,))
    return dict(consts=cs, est_in=dict(p2pkh=P["C1"], p2wpkh=P["C2"], p2tr=P["C3"], nested=P["C4"]),
                est_ww=dict(marker=P["M"], p2wpkh=P["W"], p2tr=P["WT"], nested=P["WN"]),
                wround=P["R"], relay=consts["DefaultRelayFeePerKb"], divisor=D, vcc=P["vcc"],
                vcc_note="probe: one change output adds %d to EstimateVirtualSize at 252 outputs (%d at 251)" % (d, d251),
                init=list(hits[0]), change={k: a["declared"] for k, a in zip(CHANGE_ORDER, chg)},
                nprobes=len(est_q) + len(fee_q) + 1 + len(chg))


# ------------------------------------------------------------------ rendering

def render(f, source_line):
    init = f["init"]
    lines = ["(** GENERATED by lib/extract_c07.py from wallet/txsizes/size.go, wallet/txrules/rules.go,",
             "    wallet/txauthor/author.go and wallet/createtx.go - do not edit; bin/extract rewrites it from the",
             "    current source. *)",
             "(* facts source: %s *)" % source_line,
             "From Coq Require Import ZArith.",
             "Local Open Scope Z_scope.",
             ""]
    for n in NEED:
        lines.append("Definition %s : Z := %d.  (* txsizes.%s *)" % (NAMES[n], f["consts"][n], n))
    lines += ["",
              "(* EstimateVirtualSize as it USES them: baseSize += count * size per input kind *)",
              "Definition est_in_p2pkh : Z := %d." % f["est_in"]["p2pkh"],
              "Definition est_in_p2wpkh : Z := %d." % f["est_in"]["p2wpkh"],
              "Definition est_in_p2tr : Z := %d." % f["est_in"]["p2tr"],
              "Definition est_in_nested : Z := %d." % f["est_in"]["nested"],
              "(* witnessWeight = marker + compact-size(#witness inputs) + count * weight per witness input kind *)",
              "Definition est_ww_marker : Z := %d." % f["est_ww"]["marker"],
              "Definition est_ww_p2wpkh : Z := %d." % f["est_ww"]["p2wpkh"],
              "Definition est_ww_p2tr : Z := %d." % f["est_ww"]["p2tr"],
              "Definition est_ww_nested : Z := %d." % f["est_ww"]["nested"],
              "",
              "(* wallet/createtx.go addrMgrWithChangeSource: ChangeSource.ScriptSize per change address type *)"]
    for k in CHANGE_ORDER:
        lines.append("Definition change_size_%s : Z := %d." % (k, f["change"][k]))
    lines += ["",
              "(* (witnessWeight + %d) / blockchain.WitnessScaleFactor in EstimateVirtualSize *)" % f["wround"],
              "Definition witness_round_add : Z := %d." % f["wround"],
              "",
              "(* txrules.DefaultRelayFeePerKb; divisor in FeeForSerializeSize *)",
              "Definition default_relay_fee_per_kb : Z := %d." % f["relay"],
              "Definition fee_divisor : Z := %d." % f["divisor"],
              "",
              "(* %s *)" % f["vcc_note"],
              "Definition varint_counts_change : bool := %s." % ("true" if f["vcc"] else "false"),
              "",
              "(* initial guess of NewUnsignedTransaction: EstimateVirtualSize(%d, %d, %d, %d, outputs, changeSize)"
              % tuple(init),
              "   parameter order: numP2PKHIns, numP2TRIns, numP2WPKHIns, numNestedP2WPKHIns *)",
              "Definition init_guess_p2pkh : Z := %d." % init[0],
              "Definition init_guess_p2tr : Z := %d." % init[1],
              "Definition init_guess_p2wpkh : Z := %d." % init[2],
              "Definition init_guess_nested : Z := %d." % init[3],
              ""]
    return "\n".join(lines)


def sanitize(msg):
    return re.sub(r"\s+", " ", msg).replace("(*", "( *").replace("*)", "* )")


def main(repo, outdir, write_if_changed):
    try:
        facts = source_facts(repo)
        source_line = "source (shape of size.go / rules.go / author.go / createtx.go recognised)"
    except (ExtractError, OSError) as e1:
        # the path of the scratch repository is not part of the fact
        why = sanitize(str(e1).replace(repo.rstrip("/") + "/", ""))
        try:
            facts = probe_facts(repo)
        except (ExtractError, OSError, ValueError, KeyError, subprocess.SubprocessError) as e2:
            raise ExtractError("source shape not recognised (%s) AND probing the built code failed (%s)" % (e1, e2))
        source_line = ("probe (source shape not recognised: %s; facts determined by %d calls of the code built from the "
                       "repository, harness/cmd/extract-c07)" % (why[:300], facts["nprobes"]))
    write_if_changed(os.path.join(outdir, "TxsizesConsts.v"), render(facts, source_line))
