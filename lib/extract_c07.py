"""Facts of wallet/txsizes, wallet/txrules and wallet/txauthor that the C07
theorems depend on, regenerated from the repository's current source into
coq/Generated/TxsizesConsts.v.

  * the size constants of wallet/txsizes/size.go (const block, evaluated);
  * DefaultRelayFeePerKb and the divisor of FeeForSerializeSize (rules.go);
  * the rounding addend of the witness weight in EstimateVirtualSize;
  * varint_counts_change: whether the compact-size of the output count in
    EstimateVirtualSize is taken over the count that includes the change
    output (`outputCount`) or over `len(txOuts)` only;
  * the input counts of the initial size guess of NewUnsignedTransaction.

Two paths produce the same facts:

  PRIMARY  - reading the source shape (regular expressions over the three
             files);
  FALLBACK - when the shape is not recognised (e.g. after a behaviour
             preserving refactor): PROBING the code built from the repository
             through harness/cmd/extract-c07 (the harness module resolves the
             btcwallet packages to `repo`).  Exported constants are printed;
             every other fact is determined by a small fixed set of calls of
             EstimateVirtualSize / FeeForSerializeSize / NewUnsignedTransaction
             (see probe_facts for the argument set and why it determines each
             fact), and the fitted estimate/fee formulas are then compared with
             the functions on a fixed grid of ~7 600 argument tuples; a
             disagreement makes the probe path fail.

The Generated file says in a comment which path produced it
(`facts source: ...`).  Only if both paths fail does main() raise, so that the
check reports a broken obligation instead of silently keeping an old table."""
import hashlib, itertools, json, os, re, shutil, subprocess


class ExtractError(Exception):
    pass


def strip_comments(src):
    src = re.sub(r"/\*.*?\*/", " ", src, flags=re.S)
    return "\n".join(re.sub(r"//.*$", "", l) for l in src.split("\n"))


def const_block_values(src, path):
    """Evaluate `Name = <sum/product of ints and earlier names>` entries of all
    const ( ... ) blocks."""
    vals = {}
    for blk in re.findall(r"\bconst\s*\((.*?)^\)", src, flags=re.S | re.M):
        # join continuation lines (a line ending with an operator)
        text = re.sub(r"([+\-*])\s*\n\s*", r"\1 ", blk)
        for line in text.split("\n"):
            line = line.strip()
            if not line:
                continue
            m = re.match(r"^([A-Za-z_]\w*)\s*=\s*(.+)$", line)
            if not m:
                raise ExtractError("%s: const entry not recognised: %r" % (path, line))
            name, expr = m.group(1), m.group(2).strip()
            if not re.fullmatch(r"[\w\s+\-*()]+", expr):
                raise ExtractError("%s: const expression not recognised: %s = %s" % (path, name, expr))
            for ident in re.findall(r"[A-Za-z_]\w*", expr):
                if ident not in vals:
                    raise ExtractError("%s: %s refers to unknown constant %s" % (path, name, ident))
            vals[name] = int(eval(expr, {"__builtins__": {}}, dict(vals)))
    return vals


def func_body(src, name, path):
    m = re.search(r"^func\s+%s\s*\(" % re.escape(name), src, flags=re.M)
    if not m:
        raise ExtractError("%s: func %s not found" % (path, name))
    i = src.index("{", m.end())
    depth, j = 0, i
    while j < len(src):
        if src[j] == "{":
            depth += 1
        elif src[j] == "}":
            depth -= 1
            if depth == 0:
                return src[i + 1:j]
        j += 1
    raise ExtractError("%s: func %s: unbalanced braces" % (path, name))


def call_args(text, callee):
    """argument texts of every `callee(` ... `)` call in text (paren matched)."""
    out = []
    for m in re.finditer(re.escape(callee) + r"\s*\(", text):
        depth, j = 1, m.end()
        while j < len(text) and depth:
            if text[j] == "(":
                depth += 1
            elif text[j] == ")":
                depth -= 1
            j += 1
        out.append(re.sub(r"\s+", "", text[m.end():j - 1]))
    return out


NEED = ["RedeemP2PKHSigScriptSize", "P2PKHPkScriptSize", "RedeemP2PKHInputSize", "P2PKHOutputSize",
        "P2WPKHPkScriptSize", "P2WPKHOutputSize", "RedeemP2WPKHScriptSize", "RedeemP2WPKHInputSize",
        "P2TRPkScriptSize", "P2TROutputSize", "RedeemP2TRScriptSize", "RedeemP2TRInputSize",
        "NestedP2WPKHPkScriptSize", "RedeemNestedP2WPKHScriptSize", "RedeemNestedP2WPKHInputSize",
        "RedeemP2WPKHInputWitnessWeight", "RedeemP2TRInputWitnessWeight"]

NAMES = {
    "RedeemP2PKHSigScriptSize": "redeem_p2pkh_sig_script_size",
    "P2PKHPkScriptSize": "p2pkh_pk_script_size",
    "RedeemP2PKHInputSize": "redeem_p2pkh_input_size",
    "P2PKHOutputSize": "p2pkh_output_size",
    "P2WPKHPkScriptSize": "p2wpkh_pk_script_size",
    "P2WPKHOutputSize": "p2wpkh_output_size",
    "RedeemP2WPKHScriptSize": "redeem_p2wpkh_script_size",
    "RedeemP2WPKHInputSize": "redeem_p2wpkh_input_size",
    "P2TRPkScriptSize": "p2tr_pk_script_size",
    "P2TROutputSize": "p2tr_output_size",
    "RedeemP2TRScriptSize": "redeem_p2tr_script_size",
    "RedeemP2TRInputSize": "redeem_p2tr_input_size",
    "NestedP2WPKHPkScriptSize": "nested_p2wpkh_pk_script_size",
    "RedeemNestedP2WPKHScriptSize": "redeem_nested_p2wpkh_script_size",
    "RedeemNestedP2WPKHInputSize": "redeem_nested_p2wpkh_input_size",
    "RedeemP2WPKHInputWitnessWeight": "redeem_p2wpkh_input_witness_weight",
    "RedeemP2TRInputWitnessWeight": "redeem_p2tr_input_witness_weight",
}


# ------------------------------------------------------------------ primary path: source shape

def source_facts(repo):
    p_size = os.path.join(repo, "wallet", "txsizes", "size.go")
    p_rules = os.path.join(repo, "wallet", "txrules", "rules.go")
    p_author = os.path.join(repo, "wallet", "txauthor", "author.go")
    size = strip_comments(open(p_size).read())
    rules = strip_comments(open(p_rules).read())
    author = strip_comments(open(p_author).read())

    consts = const_block_values(size, p_size)
    for n in NEED:
        if n not in consts:
            raise ExtractError("%s: constant %s not found" % (p_size, n))

    # ---- EstimateVirtualSize: which count goes into the output-count varint
    body = func_body(size, "EstimateVirtualSize", p_size)
    m = re.search(r"baseSize\s*:=(.*?)\n\s*\n", body, flags=re.S)
    if not m:
        raise ExtractError("%s: EstimateVirtualSize: `baseSize :=` expression not found" % p_size)
    base_expr = m.group(1)
    vargs = call_args(base_expr, "wire.VarIntSerializeSize")
    if len(vargs) != 2:
        raise ExtractError("%s: EstimateVirtualSize: expected two compact-size terms in baseSize, found %r" % (p_size, vargs))
    mi = re.fullmatch(r"uint64\(([\w+]+)\)", vargs[0])
    if not mi or sorted(mi.group(1).split("+")) != sorted(
            ["numP2PKHIns", "numP2TRIns", "numP2WPKHIns", "numNestedP2WPKHIns"]):
        raise ExtractError("%s: EstimateVirtualSize: input-count compact-size not recognised: %s" % (p_size, vargs[0]))
    counts_output_count = bool(re.search(r"outputCount\s*:=\s*len\(txOuts\)", body)) and bool(
        re.search(r"if\s+changeScriptSize\s*>\s*0\s*\{[^}]*outputCount\+\+[^}]*\}", body, flags=re.S))
    if vargs[1] == "uint64(len(txOuts))":
        vcc = False
    elif vargs[1] == "uint64(outputCount)" and counts_output_count:
        vcc = True
    else:
        raise ExtractError("%s: EstimateVirtualSize: output-count compact-size not recognised: %s" % (p_size, vargs[1]))
    # the per-kind terms of the estimate, as the model writes them
    for term in ["numP2PKHIns*RedeemP2PKHInputSize", "numP2WPKHIns*RedeemP2WPKHInputSize",
                 "numP2TRIns*RedeemP2TRInputSize", "numNestedP2WPKHIns*RedeemNestedP2WPKHInputSize"]:
        if term not in re.sub(r"\s+", "", base_expr):
            raise ExtractError("%s: EstimateVirtualSize: term %s not found in baseSize" % (p_size, term))
    m = re.search(r"return\s+baseSize\s*\+\s*\(witnessWeight\s*\+\s*(\d+)\)\s*/\s*blockchain\.WitnessScaleFactor", body)
    if not m:
        raise ExtractError("%s: EstimateVirtualSize: return expression not recognised" % p_size)
    wround = int(m.group(1))

    # ---- txrules
    m = re.search(r"const\s+DefaultRelayFeePerKb\s+btcutil\.Amount\s*=\s*([0-9][0-9_]*(?:e[0-9]+)?)", rules)
    if not m:
        raise ExtractError("%s: DefaultRelayFeePerKb not recognised" % p_rules)
    lit = m.group(1).replace("_", "")
    relay = int(float(lit)) if "e" in lit else int(lit)
    fbody = func_body(rules, "FeeForSerializeSize", p_rules)
    m = re.search(r"fee\s*:=\s*relayFeePerKb\s*\*\s*btcutil\.Amount\(txSerializeSize\)\s*/\s*(\d+)", fbody)
    if not m:
        raise ExtractError("%s: FeeForSerializeSize: fee expression not recognised" % p_rules)
    divisor = int(m.group(1))

    # ---- txauthor: the initial size guess
    abody = func_body(author, "NewUnsignedTransaction", p_author)
    m = re.search(r"estimatedSize\s*:=\s*txsizes\.EstimateVirtualSize\(\s*(\d+)\s*,\s*(\d+)\s*,\s*(\d+)\s*,\s*(\d+)\s*,"
                  r"\s*outputs\s*,\s*changeSource\.ScriptSize\s*,?\s*\)", abody)
    if not m:
        raise ExtractError("%s: NewUnsignedTransaction: initial EstimateVirtualSize call not recognised" % p_author)
    init = [int(x) for x in m.groups()]
    # parameter order of EstimateVirtualSize
    m = re.search(r"func\s+EstimateVirtualSize\s*\(\s*numP2PKHIns\s*,\s*numP2TRIns\s*,\s*numP2WPKHIns\s*,\s*"
                  r"numNestedP2WPKHIns\s+int\s*,\s*txOuts\s+\[\]\*wire\.TxOut\s*,\s*changeScriptSize\s+int\s*\)", size)
    if not m:
        raise ExtractError("%s: EstimateVirtualSize: parameter list not recognised" % p_size)
    return dict(consts={n: consts[n] for n in NEED}, wround=wround, relay=relay, divisor=divisor, vcc=vcc,
                vcc_note="EstimateVirtualSize takes the compact-size of the output count over `%s`" % vargs[1],
                init=init)


# ------------------------------------------------------------------ fallback path: probing the built code

MAX_SATOSHI = 2100000000000000


def _vi(n):
    return 1 if n < 253 else 3 if n <= 0xffff else 5 if n <= 0xffffffff else 9


def _est_model(P, c, nout, out_len, chg):
    """the shape of Fee.v's est_vsize_gen with parameters P"""
    k, t, a, b = c
    chg_out = 8 + _vi(chg) + chg if chg > 0 else 0
    oc = nout + 1 if chg > 0 else nout
    base = (8 + _vi(k + t + a + b) + _vi(oc if P["vcc"] else nout) + k * P["C1"] + a * P["C2"] + t * P["C3"] + b * P["C4"]
            + nout * (8 + _vi(out_len) + out_len) + chg_out)
    w = a + b + t
    ww = 2 + _vi(w) + a * P["W"] + t * P["WT"] + b * P["W"] if w > 0 else 0
    return base + (ww + P["R"]) // 4


def _fee_model(D, rate, size):
    q = rate * size // D
    if q == 0 and rate > 0:
        q = rate
    if q < 0 or q > MAX_SATOSHI:
        q = MAX_SATOSHI
    return q


def _run_probe(repo, request):
    """build harness/cmd/extract-c07 against `repo` and run it on the request"""
    import vlib
    with vlib.Lock("go"):
        os.makedirs(os.path.join(vlib.WORK, "bin"), exist_ok=True)
        modflag = []
        if repo == "/repo":
            shutil.copyfile(os.path.join(repo, "go.sum"), os.path.join(vlib.HARNESS, "go.sum"))
        else:
            alt = os.path.join(vlib.WORK, "extract_c07_%s.mod" % hashlib.sha1(repo.encode()).hexdigest()[:8])
            txt = open(os.path.join(vlib.HARNESS, "go.mod")).read().replace("=> /repo", "=> " + repo)
            open(alt, "w").write(txt)
            shutil.copyfile(os.path.join(repo, "go.sum"), alt[:-4] + ".sum")
            modflag = ["-modfile=" + alt]
        exe = os.path.join(vlib.WORK, "bin", "extract-c07")
        p = subprocess.run(["go", "build"] + modflag + ["-o", exe, "./cmd/extract-c07"], cwd=vlib.HARNESS,
                           env=vlib.GOENV, stdout=subprocess.PIPE, stderr=subprocess.PIPE, text=True, timeout=900)
        if p.returncode != 0:
            raise ExtractError("probe: harness/cmd/extract-c07 does not build against %s: %s" % (repo, (p.stdout + p.stderr)[-1500:]))
    p = subprocess.run([exe], input=json.dumps(request), cwd=vlib.WORK, stdout=subprocess.PIPE, stderr=subprocess.PIPE,
                       text=True, timeout=300)
    if p.returncode != 0:
        raise ExtractError("probe: extract-c07 failed: %s" % p.stderr[-1500:])
    return json.loads(p.stdout)


def probe_facts(repo):
    """Facts determined by running the code.

    Notation: E(c; n, chg) = EstimateVirtualSize(c = (p2pkh, p2tr, p2wpkh, nested), n outputs with 22-byte scripts,
    change script size chg); F(r, s) = FeeForSerializeSize(r, s); model shape (Fee.v, est_vsize_gen):
      E = 8 + vi(#in) + vi(#out [+1 if vcc and chg>0]) + k*C1 + a*C2 + t*C3 + b*C4 + outputs + change
          + (2 + vi(a+b+t) + (a+b)*W + t*WT + R) / 4            (witness part only when a+b+t > 0)

    1. exported constants: printed by the Go program.
    2. C1 (P2PKH input size as the function uses it) = E((2,0,0,0);0,0) - E((1,0,0,0);0,0): no witness part, same
       compact-sizes, so the difference is exactly one P2PKH input.
    3. per-input WEIGHT of each witness kind x: w_x = E(5 of x) - E(1 of x) = 4*C_x + W_x exactly (the numerator of
       the rounded term grows by 4*W_x, so the quotient grows by W_x; compact-sizes equal).  Only the weight is
       observable - moving 1 byte from C_x into 4 units of W_x never changes E - so the split is taken from the
       exported constants: W = RedeemP2WPKHInputWitnessWeight, WT = RedeemP2TRInputWitnessWeight and
       C_x = (w_x - W_x)/4, which must be integral (nested uses W, as the model does).
    4. R (rounding addend): the unique R in 0..7 for which the model reproduces E((0,0,a,0);0,0) for a = 0..4;
       unique whenever W is odd because a*W then runs through all residues mod 4.
    5. varint_counts_change: d = E((0,0,1,0);252,22) - E((0,0,1,0);252,0) = (8+1+22) + (vi(253)-vi(252) = 2 iff the
       compact-size counts the change output); d = 33 -> true, d = 31 -> false, anything else is inconsistent.
    6. fee_divisor D: F(10^9, 1) = floor(10^9 / D); for D < 31 622 at most one integer D has that quotient.
    7. init_guess: NewUnsignedTransaction(one output, rate 10^6, change size 22) with a recording input source that
       offers nothing: (first requested target - outputs) is the fee of the initial estimate; it is compared with
       F(10^6, E(c;1,22)) for c in {0, the four single-input vectors} - five distinct values - exactly one must match.
    8. validation: the fitted estimate/fee formulas against the functions on a fixed grid (counts in {0,1,2,5,253}^4
       x outputs {0,1,252,253} x change {0,22,34} plus long scripts; rates x sizes incl. the zero-fee rule and the
       MaxSatoshi clamp); any disagreement fails the probe path."""
    est_q, keys = [], {}

    def q(c, nout=0, chg=0, out_len=22):
        k = (tuple(c), nout, chg, out_len)
        if k not in keys:
            keys[k] = len(est_q)
            est_q.append(dict(c=list(c), nout=nout, out_len=out_len, chg=chg))
        return k

    unit = {"t": (0, 1, 0, 0), "a": (0, 0, 1, 0), "b": (0, 0, 0, 1)}
    fit_keys = [q((0, 0, 0, 0)), q((1, 0, 0, 0)), q((2, 0, 0, 0))]
    for u in unit.values():
        fit_keys += [q(u), q(tuple(5 * x for x in u))]
    for a in range(0, 5):
        fit_keys.append(q((0, 0, a, 0)))
    fit_keys += [q((0, 0, 1, 0), 252, 22), q((0, 0, 1, 0), 252, 0), q((0, 0, 1, 0), 251, 22), q((0, 0, 1, 0), 251, 0)]
    grid = []
    for c in itertools.product([0, 1, 2, 5, 253], repeat=4):
        for nout in (0, 1, 252, 253):
            for chg in (0, 22, 34):
                grid.append(q(c, nout, chg))
    for c in [(1, 0, 0, 0), (0, 1, 1, 1), (65536, 0, 0, 1)]:
        for nout, chg, ol in [(3, 253, 253), (252, 300, 25), (2, 25, 70000)]:
            grid.append(q(c, nout, chg, ol))
    rates = [0, 1, 10, 999, 1000, 1001, 2500, 52583, 10 ** 6, 10 ** 9]
    sizes = [0, 1, 2, 10, 122, 999, 1000, 1001, 8005, 100000, 10 ** 7, 3 * 10 ** 9]
    fee_q = [dict(rate=10 ** 9, size=1)] + [dict(rate=r, size=s) for r in rates for s in sizes]
    init_q = [dict(rate=10 ** 6, nout=1, out_len=22, out_val=5000, chg=22)]
    resp = _run_probe(repo, dict(est=est_q, fee=fee_q, init=init_q))
    E = lambda k: resp["est"][keys[k]]                       # noqa: E731
    consts = resp["consts"]
    for n in NEED + ["DefaultRelayFeePerKb"]:
        if n not in consts:
            raise ExtractError("probe: constant %s not reported" % n)

    P = dict(W=consts["RedeemP2WPKHInputWitnessWeight"], WT=consts["RedeemP2TRInputWitnessWeight"])
    P["C1"] = E(((2, 0, 0, 0), 0, 0, 22)) - E(((1, 0, 0, 0), 0, 0, 22))
    for x, cname, wname in [("a", "C2", "W"), ("t", "C3", "WT"), ("b", "C4", "W")]:
        u = unit[x]
        wx = E((tuple(5 * v for v in u), 0, 0, 22)) - E((u, 0, 0, 22))
        if (wx - P[wname]) % 4 != 0:
            raise ExtractError("probe: weight of a %s input (%d) is not 4*size + %d" % (x, wx, P[wname]))
        P[cname] = (wx - P[wname]) // 4
    d = E(((0, 0, 1, 0), 252, 22, 22)) - E(((0, 0, 1, 0), 252, 0, 22))
    d251 = E(((0, 0, 1, 0), 251, 22, 22)) - E(((0, 0, 1, 0), 251, 0, 22))
    chg_out = 8 + 1 + 22
    if d251 != chg_out or d not in (chg_out, chg_out + 2):
        raise ExtractError("probe: change output adds %d at 251 outputs and %d at 252 outputs; expected %d and %d or %d"
                           % (d251, d, chg_out, chg_out, chg_out + 2))
    P["vcc"] = d == chg_out + 2
    cand_R = []
    for R in range(8):
        P["R"] = R
        if all(_est_model(P, (0, 0, a, 0), 0, 22, 0) == E(((0, 0, a, 0), 0, 0, 22)) for a in range(5)):
            cand_R.append(R)
    if len(cand_R) != 1:
        raise ExtractError("probe: rounding addend not determined (candidates %r)" % cand_R)
    P["R"] = cand_R[0]
    v = resp["fee"][0]
    cand_D = [D for D in range(1, 31622) if 10 ** 9 // D == v]
    if len(cand_D) != 1:
        raise ExtractError("probe: fee divisor not determined: F(10^9,1) = %d (candidates %r)" % (v, cand_D[:5]))
    D = cand_D[0]
    ia = resp["init"][0]
    if ia["calls"] < 1 or "insufficient" not in ia["err"]:
        raise ExtractError("probe: NewUnsignedTransaction did not ask the input source / unexpected result: %r" % ia)
    fee0 = ia["first_target"] - ia["sum_out"]
    cands = [(0, 0, 0, 0), (1, 0, 0, 0), (0, 1, 0, 0), (0, 0, 1, 0), (0, 0, 0, 1)]
    hits = [c for c, f in zip(cands, ia["cand_fee"]) if f == fee0]
    if len(set(ia["cand_fee"])) != 5 or len(hits) != 1:
        raise ExtractError("probe: initial guess not determined: first fee %d, candidate fees %r" % (fee0, ia["cand_fee"]))
    # validation of the fitted formulas
    bad = [k for k in fit_keys + grid if _est_model(P, k[0], k[1], k[3], k[2]) != E(k)]
    if bad:
        k = bad[0]
        raise ExtractError("probe: EstimateVirtualSize does not have the model's shape: %d/%d probes differ, first %r: "
                           "function %d, fitted model %d (parameters %r)" % (
                               len(bad), len(fit_keys) + len(grid), k, E(k), _est_model(P, k[0], k[1], k[3], k[2]), P))
    badf = [(fq, got) for fq, got in zip(fee_q, resp["fee"]) if _fee_model(D, fq["rate"], fq["size"]) != got]
    if badf:
        raise ExtractError("probe: FeeForSerializeSize does not have the model's shape (divisor %d): %d/%d probes differ, "
                           "first %r -> %d" % (D, len(badf), len(fee_q), badf[0][0], badf[0][1]))
    cs = {n: consts[n] for n in NEED}
    # the sizes the function actually uses
    cs["RedeemP2PKHInputSize"], cs["RedeemP2WPKHInputSize"] = P["C1"], P["C2"]
    cs["RedeemP2TRInputSize"], cs["RedeemNestedP2WPKHInputSize"] = P["C3"], P["C4"]
    return dict(consts=cs, wround=P["R"], relay=consts["DefaultRelayFeePerKb"], divisor=D, vcc=P["vcc"],
                vcc_note="probe: one change output adds %d to EstimateVirtualSize at 252 outputs (%d at 251)" % (d, d251),
                init=list(hits[0]), nprobes=len(est_q) + len(fee_q) + 1)


# ------------------------------------------------------------------ rendering

def render(f, source_line):
    init = f["init"]
    lines = ["(** GENERATED by lib/extract_c07.py from wallet/txsizes/size.go, wallet/txrules/rules.go and",
             "    wallet/txauthor/author.go - do not edit; bin/extract rewrites it from the current source. *)",
             "(* facts source: %s *)" % source_line,
             "From Coq Require Import ZArith.",
             "Local Open Scope Z_scope.",
             ""]
    for n in NEED:
        lines.append("Definition %s : Z := %d.  (* txsizes.%s *)" % (NAMES[n], f["consts"][n], n))
    lines += ["",
              "(* (witnessWeight + %d) / blockchain.WitnessScaleFactor in EstimateVirtualSize *)" % f["wround"],
              "Definition witness_round_add : Z := %d." % f["wround"],
              "",
              "(* txrules.DefaultRelayFeePerKb; divisor in FeeForSerializeSize *)",
              "Definition default_relay_fee_per_kb : Z := %d." % f["relay"],
              "Definition fee_divisor : Z := %d." % f["divisor"],
              "",
              "(* %s *)" % f["vcc_note"],
              "Definition varint_counts_change : bool := %s." % ("true" if f["vcc"] else "false"),
              "",
              "(* initial guess of NewUnsignedTransaction: EstimateVirtualSize(%d, %d, %d, %d, outputs, changeSize)"
              % tuple(init),
              "   parameter order: numP2PKHIns, numP2TRIns, numP2WPKHIns, numNestedP2WPKHIns *)",
              "Definition init_guess_p2pkh : Z := %d." % init[0],
              "Definition init_guess_p2tr : Z := %d." % init[1],
              "Definition init_guess_p2wpkh : Z := %d." % init[2],
              "Definition init_guess_nested : Z := %d." % init[3],
              ""]
    return "\n".join(lines)


def sanitize(msg):
    return re.sub(r"\s+", " ", msg).replace("(*", "( *").replace("*)", "* )")


def main(repo, outdir, write_if_changed):
    try:
        facts = source_facts(repo)
        source_line = "source (shape of size.go / rules.go / author.go recognised)"
    except (ExtractError, OSError) as e1:
        # the path of the scratch repository is not part of the fact
        why = sanitize(str(e1).replace(repo.rstrip("/") + "/", ""))
        try:
            facts = probe_facts(repo)
        except (ExtractError, OSError, ValueError, KeyError, subprocess.SubprocessError) as e2:
            raise ExtractError("source shape not recognised (%s) AND probing the built code failed (%s)" % (e1, e2))
        source_line = ("probe (source shape not recognised: %s; facts determined by %d calls of the code built from the "
                       "repository, harness/cmd/extract-c07)" % (why[:300], facts["nprobes"]))
    write_if_changed(os.path.join(outdir, "TxsizesConsts.v"), render(facts, source_line))
