"""Facts of wallet/txsizes, wallet/txrules and wallet/txauthor that the C07
theorems depend on, regenerated from the repository's current source into
coq/Generated/TxsizesConsts.v.

  * the size constants of wallet/txsizes/size.go (const block, evaluated);
  * DefaultRelayFeePerKb and the divisor of FeeForSerializeSize (rules.go);
  * the rounding addend of the witness weight in EstimateVirtualSize;
  * varint_counts_change: whether the compact-size of the output count in
    EstimateVirtualSize is taken over the count that includes the change
    output (`outputCount`) or over `len(txOuts)` only;
  * the input counts of the initial size guess of NewUnsignedTransaction.

Anything that is not recognised raises, so that the check reports a broken
obligation instead of silently keeping an old table."""
import os, re


class ExtractError(Exception):
    pass


def strip_comments(src):
    src = re.sub(r"/\*.*?\*/", " ", src, flags=re.S)
    return "\n".join(re.sub(r"//.*$", "", l) for l in src.split("\n"))


def const_block_values(src, path):
    """Evaluate `Name = <sum/product of ints and earlier names>` entries of all
    const ( ... ) blocks."""
    vals = {}
    for blk in re.findall(r"\bconst\s*\((.*?)^\)", src, flags=re.S | re.M):
        # join continuation lines (a line ending with an operator)
        text = re.sub(r"([+\-*])\s*\n\s*", r"\1 ", blk)
        for line in text.split("\n"):
            line = line.strip()
            if not line:
                continue
            m = re.match(r"^([A-Za-z_]\w*)\s*=\s*(.+)$", line)
            if not m:
                raise ExtractError("%s: const entry not recognised: %r" % (path, line))
            name, expr = m.group(1), m.group(2).strip()
            if not re.fullmatch(r"[\w\s+\-*()]+", expr):
                raise ExtractError("%s: const expression not recognised: %s = %s" % (path, name, expr))
            for ident in re.findall(r"[A-Za-z_]\w*", expr):
                if ident not in vals:
                    raise ExtractError("%s: %s refers to unknown constant %s" % (path, name, ident))
            vals[name] = int(eval(expr, {"__builtins__": {}}, dict(vals)))
    return vals


def func_body(src, name, path):
    m = re.search(r"^func\s+%s\s*\(" % re.escape(name), src, flags=re.M)
    if not m:
        raise ExtractError("%s: func %s not found" % (path, name))
    i = src.index("{", m.end())
    depth, j = 0, i
    while j < len(src):
        if src[j] == "{":
            depth += 1
        elif src[j] == "}":
            depth -= 1
            if depth == 0:
                return src[i + 1:j]
        j += 1
    raise ExtractError("%s: func %s: unbalanced braces" % (path, name))


def call_args(text, callee):
    """argument texts of every `callee(` ... `)` call in text (paren matched)."""
    out = []
    for m in re.finditer(re.escape(callee) + r"\s*\(", text):
        depth, j = 1, m.end()
        while j < len(text) and depth:
            if text[j] == "(":
                depth += 1
            elif text[j] == ")":
                depth -= 1
            j += 1
        out.append(re.sub(r"\s+", "", text[m.end():j - 1]))
    return out


def main(repo, outdir, write_if_changed):
    p_size = os.path.join(repo, "wallet", "txsizes", "size.go")
    p_rules = os.path.join(repo, "wallet", "txrules", "rules.go")
    p_author = os.path.join(repo, "wallet", "txauthor", "author.go")
    size = strip_comments(open(p_size).read())
    rules = strip_comments(open(p_rules).read())
    author = strip_comments(open(p_author).read())

    consts = const_block_values(size, p_size)
    need = ["RedeemP2PKHSigScriptSize", "P2PKHPkScriptSize", "RedeemP2PKHInputSize", "P2PKHOutputSize",
            "P2WPKHPkScriptSize", "P2WPKHOutputSize", "RedeemP2WPKHScriptSize", "RedeemP2WPKHInputSize",
            "P2TRPkScriptSize", "P2TROutputSize", "RedeemP2TRScriptSize", "RedeemP2TRInputSize",
            "NestedP2WPKHPkScriptSize", "RedeemNestedP2WPKHScriptSize", "RedeemNestedP2WPKHInputSize",
            "RedeemP2WPKHInputWitnessWeight", "RedeemP2TRInputWitnessWeight"]
    for n in need:
        if n not in consts:
            raise ExtractError("%s: constant %s not found" % (p_size, n))

    # ---- EstimateVirtualSize: which count goes into the output-count varint
    body = func_body(size, "EstimateVirtualSize", p_size)
    m = re.search(r"baseSize\s*:=(.*?)\n\s*\n", body, flags=re.S)
    if not m:
        raise ExtractError("%s: EstimateVirtualSize: `baseSize :=` expression not found" % p_size)
    base_expr = m.group(1)
    vargs = call_args(base_expr, "wire.VarIntSerializeSize")
    if len(vargs) != 2:
        raise ExtractError("%s: EstimateVirtualSize: expected two compact-size terms in baseSize, found %r" % (p_size, vargs))
    mi = re.fullmatch(r"uint64\(([\w+]+)\)", vargs[0])
    if not mi or sorted(mi.group(1).split("+")) != sorted(
            ["numP2PKHIns", "numP2TRIns", "numP2WPKHIns", "numNestedP2WPKHIns"]):
        raise ExtractError("%s: EstimateVirtualSize: input-count compact-size not recognised: %s" % (p_size, vargs[0]))
    counts_output_count = bool(re.search(r"outputCount\s*:=\s*len\(txOuts\)", body)) and bool(
        re.search(r"if\s+changeScriptSize\s*>\s*0\s*\{[^}]*outputCount\+\+[^}]*\}", body, flags=re.S))
    if vargs[1] == "uint64(len(txOuts))":
        vcc = False
    elif vargs[1] == "uint64(outputCount)" and counts_output_count:
        vcc = True
    else:
        raise ExtractError("%s: EstimateVirtualSize: output-count compact-size not recognised: %s" % (p_size, vargs[1]))
    m = re.search(r"return\s+baseSize\s*\+\s*\(witnessWeight\s*\+\s*(\d+)\)\s*/\s*blockchain\.WitnessScaleFactor", body)
    if not m:
        raise ExtractError("%s: EstimateVirtualSize: return expression not recognised" % p_size)
    wround = int(m.group(1))

    # ---- txrules
    m = re.search(r"const\s+DefaultRelayFeePerKb\s+btcutil\.Amount\s*=\s*([0-9][0-9_]*(?:e[0-9]+)?)", rules)
    if not m:
        raise ExtractError("%s: DefaultRelayFeePerKb not recognised" % p_rules)
    lit = m.group(1).replace("_", "")
    relay = int(float(lit)) if "e" in lit else int(lit)
    fbody = func_body(rules, "FeeForSerializeSize", p_rules)
    m = re.search(r"fee\s*:=\s*relayFeePerKb\s*\*\s*btcutil\.Amount\(txSerializeSize\)\s*/\s*(\d+)", fbody)
    if not m:
        raise ExtractError("%s: FeeForSerializeSize: fee expression not recognised" % p_rules)
    divisor = int(m.group(1))

    # ---- txauthor: the initial size guess
    abody = func_body(author, "NewUnsignedTransaction", p_author)
    m = re.search(r"estimatedSize\s*:=\s*txsizes\.EstimateVirtualSize\(\s*(\d+)\s*,\s*(\d+)\s*,\s*(\d+)\s*,\s*(\d+)\s*,"
                  r"\s*outputs\s*,\s*changeSource\.ScriptSize\s*,?\s*\)", abody)
    if not m:
        raise ExtractError("%s: NewUnsignedTransaction: initial EstimateVirtualSize call not recognised" % p_author)
    init = [int(x) for x in m.groups()]
    # parameter order of EstimateVirtualSize
    m = re.search(r"func\s+EstimateVirtualSize\s*\(\s*numP2PKHIns\s*,\s*numP2TRIns\s*,\s*numP2WPKHIns\s*,\s*"
                  r"numNestedP2WPKHIns\s+int\s*,\s*txOuts\s+\[\]\*wire\.TxOut\s*,\s*changeScriptSize\s+int\s*\)", size)
    if not m:
        raise ExtractError("%s: EstimateVirtualSize: parameter list not recognised" % p_size)

    def snake(n):
        return re.sub(r"(?<=[a-z0-9])(?=[A-Z])|(?<=[A-Z0-9])(?=[A-Z][a-z])", "_", n).lower()

    lines = ["(** GENERATED by lib/extract_c07.py from wallet/txsizes/size.go, wallet/txrules/rules.go and",
             "    wallet/txauthor/author.go - do not edit; bin/extract rewrites it from the current source. *)",
             "From Coq Require Import ZArith.",
             "Local Open Scope Z_scope.",
             ""]
    names = {
        "RedeemP2PKHSigScriptSize": "redeem_p2pkh_sig_script_size",
        "P2PKHPkScriptSize": "p2pkh_pk_script_size",
        "RedeemP2PKHInputSize": "redeem_p2pkh_input_size",
        "P2PKHOutputSize": "p2pkh_output_size",
        "P2WPKHPkScriptSize": "p2wpkh_pk_script_size",
        "P2WPKHOutputSize": "p2wpkh_output_size",
        "RedeemP2WPKHScriptSize": "redeem_p2wpkh_script_size",
        "RedeemP2WPKHInputSize": "redeem_p2wpkh_input_size",
        "P2TRPkScriptSize": "p2tr_pk_script_size",
        "P2TROutputSize": "p2tr_output_size",
        "RedeemP2TRScriptSize": "redeem_p2tr_script_size",
        "RedeemP2TRInputSize": "redeem_p2tr_input_size",
        "NestedP2WPKHPkScriptSize": "nested_p2wpkh_pk_script_size",
        "RedeemNestedP2WPKHScriptSize": "redeem_nested_p2wpkh_script_size",
        "RedeemNestedP2WPKHInputSize": "redeem_nested_p2wpkh_input_size",
        "RedeemP2WPKHInputWitnessWeight": "redeem_p2wpkh_input_witness_weight",
        "RedeemP2TRInputWitnessWeight": "redeem_p2tr_input_witness_weight",
    }
    for n in need:
        lines.append("Definition %s : Z := %d.  (* txsizes.%s *)" % (names[n], consts[n], n))
    lines += ["",
              "(* (witnessWeight + %d) / blockchain.WitnessScaleFactor in EstimateVirtualSize *)" % wround,
              "Definition witness_round_add : Z := %d." % wround,
              "",
              "(* txrules.DefaultRelayFeePerKb; divisor in FeeForSerializeSize *)",
              "Definition default_relay_fee_per_kb : Z := %d." % relay,
              "Definition fee_divisor : Z := %d." % divisor,
              "",
              "(* EstimateVirtualSize takes the compact-size of the output count over `%s` *)" % vargs[1],
              "Definition varint_counts_change : bool := %s." % ("true" if vcc else "false"),
              "",
              "(* initial guess of NewUnsignedTransaction: EstimateVirtualSize(%d, %d, %d, %d, outputs, changeSize)"
              % tuple(init),
              "   parameter order: numP2PKHIns, numP2TRIns, numP2WPKHIns, numNestedP2WPKHIns *)",
              "Definition init_guess_p2pkh : Z := %d." % init[0],
              "Definition init_guess_p2tr : Z := %d." % init[1],
              "Definition init_guess_p2wpkh : Z := %d." % init[2],
              "Definition init_guess_nested : Z := %d." % init[3],
              ""]
    write_if_changed(os.path.join(outdir, "TxsizesConsts.v"), "\n".join(lines))
