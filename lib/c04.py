from vlib import *

CODES = {1: "implementation_committed_a_call_the_model_refuses", 3: "fact_of_changed_row_not_in_model",
         5: "complete_look_facts_differ", 7: "lock_unlock_open_changed_database", 8: "watching_only_flag_differs",
         9: "watching_only_accessor_answers_differently"}

SEAL = {"mpub": "LMasterPub", "mpriv": "LMasterPriv", "cpub": "LCryptoPub", "cpriv": "LCryptoPriv",
        "cscript": "LScriptStored", "zero": "LZero", "none": "LNone",
        "old_mpub": "LMasterPub", "old_mpriv": "LMasterPriv"}

SLOT = {"mhdpriv": "LMhdPriv", "mhdpub": "LMhdPub", "cpub": "LCPub", "cpriv": "LCPriv", "cscript": "LCScript",
        "ctpub": "LCtPub", "ctpriv": "LCtPriv", "acctpub": "LAcctPub", "acctpriv": "LAcctPriv",
        "watchacctpub": "LWatchAcctPub", "imppub": "LImpPub", "imppriv": "LImpPriv", "scrhash": "LScrHash",
        "scrscript_secret": "(LScrScript true)", "scrscript_public": "(LScrScript false)"}

CONTENT = {"master_xprv": "CtMasterXprv", "master_xpub": "CtMasterXpub", "cointype_xprv": "CtCoinXprv",
           "cointype_xpub": "CtCoinXpub", "account_xprv": "CtAcctXprv", "account_xpub": "CtAcctXpub",
           "imported_xpub": "CtImpXpub", "privkey": "CtPrivKey", "pubkey": "CtPubKey", "addr_id": "CtAddrId",
           "secret_script": "CtSecretScript", "public_script": "CtPublicScript", "crypto_key_pub": "CtKeyPub",
           "crypto_key_priv": "CtKeyPriv", "crypto_key_script": "CtKeyScript", "passphrase": "CtPassphrase",
           "seed": "CtSeed"}

API = {"unlock": "CUnlock", "privkey": "CPrivKey", "exportprivkey": "CExportPrivKey", "secretscript": "CSecretScript",
       "decryptprivate": "CDecryptPrivate", "decryptscript": "CDecryptScript", "newaccount": "CNewAccount",
       "changeprivatepassphrase": "CChangePrivatePassphrase"}
ANSWER = {"wo": "AWatchingOnly", "locked": "ALocked", "error": "AError", "served": "AServed"}


def n(x):
    return "%d%%N" % x


def scope(s):
    return "(%s, %s)" % (n(s[0]), n(s[1]))


def cstr(s):
    return '"%s"%%string' % s.replace('"', '""')


def addrid(a):
    k = a["kind"]
    if k == "ch":
        return "(AChain %s %s %s %s)" % (scope([a.get("p", 0), a.get("c", 0)]), n(a.get("acct", 0)),
                                         cbool(a.get("int", False)), n(a.get("idx", 0)))
    if k == "imp":
        return "(AImp %s)" % n(a.get("n", 0))
    return "(AScr %s %s)" % (n(a.get("n", 0)), n(a.get("hlen", 0)))


def r_op(o):
    k = o["k"]
    s = scope(o.get("scope") or [0, 0])
    if k == "create":
        return "OCreate"
    if k == "reopen":
        return "OReopen"
    if k == "unlock":
        return "OUnlock %s" % cbool(o.get("passok", False))
    if k == "lock":
        return "OLock"
    if k == "newacct":
        return "ONewAccount %s %s %s" % (s, n(o.get("name", 0)), n(o.get("nlen", 0)))
    if k == "newscope":
        return "ONewScope %s" % s
    if k == "derive":
        return "ODerive %s %s %s %s" % (s, n(o.get("acct", 0)), cbool(o.get("int", False)), n(o.get("n", 0)))
    # symbolic id of an imported key as serialised (harness impSym): the same key imported
    # compressed and uncompressed yields two different addresses, both accepted by the manager
    if k == "imppriv":
        comp = o.get("comp", False)
        return "OImportPriv %s %s %s" % (s, n(2 * o.get("id", 0) + (0 if comp else 1)), cbool(comp))
    if k == "imppub":
        return "OImportPub %s %s" % (s, n(2 * o.get("id", 0)))
    if k == "impscript":
        sk = o.get("skind")
        kind = "KP2SH" if sk == "p2sh" else "(%s %s)" % ("KWitness" if sk == "wsh" else "KTaproot", cbool(o.get("secret", False)))
        return "OImportScript %s %s %s %s" % (s, n(o.get("id", 0)), n(o.get("len", 0)), kind)
    if k == "impxpub":
        return "OImportXpub %s %s %s %s %s" % (s, n(o.get("id", 0)), n(o.get("name", 0)), n(o.get("nlen", 0)),
                                               cbool(o.get("schema", False)))
    if k == "rename":
        return "ORename %s %s %s %s" % (s, n(o.get("acct", 0)), n(o.get("name", 0)), n(o.get("nlen", 0)))
    if k == "chpass":
        return "OChangePass %s %s" % (cbool(o.get("private", False)), cbool(o.get("passok", False)))
    if k == "markused":
        return "OMarkUsed %s %s" % (s, addrid(o["addr"]))
    if k == "syncto":
        return "OSyncTo %s" % n(o.get("height", 0))
    if k == "neuter":
        return "ONeuter"
    if k == "convert":
        return "OConvert"
    raise ValueError(k)


def r_fact(f):
    return "{| f_slot := %s; f_tag := %s; f_key := %s; f_content := %s |}" % (
        SLOT[f["s"]], n(f.get("t", 0)), SEAL.get(f["k"], "LNone"), CONTENT.get(f["c"], "CtUnknown"))


def r_facts(fs):
    return clist(["\n      " + r_fact(f) for f in fs or [] if f["s"] in SLOT])


def r_obs(o):
    full = "None"
    if o.get("hasfull"):
        full = "Some %s" % r_facts(o.get("full"))
    api = clist(["(%s, %s)" % (API[c], ANSWER.get(a, "AError")) for c, a in o.get("apires") or [] if c in API])
    return "{| o_ok := %s; o_wo := %s; o_nchanged := %s; o_facts := %s;\n     o_full := %s; o_api := %s |}" % (
        cbool(o["ok"]), cbool(o.get("wo", False)), n(o.get("nchanged", 0)), r_facts(o.get("facts")), full, api)


def r_case(c):
    return clist(["\n   (%s,\n    %s)" % (r_op(op), r_obs(ob)) for op, ob in zip(c["in"]["ops"], c["obs"])])


class C04(Check):
    ID = "C04"
    SHARD = 12
    N_QUICK = 100
    N_THOROUGH = 1000
    RULE = ("2 systematic histories (every operation once, with and without a secret taproot script, conversion, reopen, "
            "operations on the watching-only manager) + 9 (thorough: 36) wallet-level runs through the real wallet package "
            "(wallet.Create / Open / Unlock / NewAddress / imports / passphrase changes incl. wrong ones / received transactions "
            "through the notification handler / SendOutputs = coin selection + change address + signing + recording + publishing / "
            "sends that fail (no funds, too much, locked) / conversion through InitAccounts / reopen) + generated manager histories "
            "of 8-25 operations over 4-6 key scopes (derive locked/unlocked, new account, imports of keys, scripts of 5 kinds and "
            "xpub accounts, renames, passphrase changes incl. wrong old passphrase, lock/unlock incl. wrong passphrase, mark-used, "
            "synced-to incl. stale-hash deletion, new scope, neuter, second create, reopen; 70% end with conversion + reopen + "
            "further operations). After EVERY call - committed or refused - (wallet level: after every commit of any goroutine "
            "too) (1) the whole bbolt file, all namespaces and free pages included, is scanned for every secret produced so far "
            "(raw, hex, HEX, base58, WIF, xprv string, 78-byte serialization, base64 in 3 alignments x 2 alphabets), every passphrase "
            "and - until a transaction is recorded - every sensitive item; (2) every sealed blob of every row that changed, in every "
            "bucket of every namespace (fields of the known layouts + anything that opens as a whole value, at a length prefix, as a "
            "suffix / prefix or at any offset with a secret's length), is OPENED with every key the harness derives itself from the "
            "passphrases (public chain: mpub -> cpub, all-zero key; private chain: mpriv -> cpriv / stored script key; remembered "
            "after conversion) and the PLAINTEXT is classified by content: no secret may open under a key of the public chain, and "
            "on a watching-only database no live row may hold a blob that a remembered private-chain key opens to a secret; "
            "(3) the facts (slot, key that opens it, plaintext class) are compared with the model. "
            "non-trivial = at least one address issued or imported; distinct by input")
    ASSUMPTIONS = ["bbolt's atomic commit: the only images a crash can leave behind are commit boundaries (trusted, C11)",
                   "strength of the sealing (secretbox) and of scrypt/sha256 is C17's hypothesis: Enc/Hash/Kdf are symbolic",
                   "operating-system page cache, swap and process memory are out of scope (memory is C05)"]
    PARTIAL_CLAUSES = [
        "raw-or-serialized-text clause: decided by scanning each file image for the encodings raw / hex / HEX / base58 / WIF / "
        "xprv-tprv string / 78-byte serialization / base64 (std and URL alphabet, any alignment); other encodings of a CLEAR secret "
        "are covered only by the symbolic theorem (sealed ones are opened and classified whatever the row)",
        "crash points: the file is scanned as it is after each committed transaction and after each refused call (free pages "
        "included); that no other image can be left behind is bbolt's atomic commit (trusted)",
        "freed pages after conversion to watching-only: bbolt does not overwrite the pages of deleted rows, so the image of a "
        "converted wallet still holds the CIPHERTEXTS of main/mpriv parameters, cpriv, cscript, mhdpriv, ctpriv, account and "
        "imported private keys and secret scripts (observations.old_ciphertext_in_free_pages...: nearly every converted run), and "
        "the remembered private-chain keys still open them: a holder of the OLD private passphrase and of a copy of the file can "
        "recover the keys until the pages are reused. The property's text asks for no key 'in raw or serialized text form' "
        "(ciphertext is neither) and, after conversion, for 'no passphrase unlocks it and no call returns private material' "
        "(behaviour of the reopened wallet): free pages are outside its letter; measured, not raised; theorem (c) is about live rows",
        "'no call returns private material': proved for the modelled calls as a function of the watching-only flag; the answers of "
        "the real accessors of the REOPENED manager (Unlock with every passphrase ever used, PrivKey, ExportPrivKey, Script, "
        "TaprootScript, DeriveFromKeyPath(+Cache), Decrypt(CKTPrivate/CKTScript), NewAccount, ChangePassphrase(private)) are "
        "compared with the model's [api] (correspondence code 9) and judged by the oracle; NewScopedKeyManager on a watching-only "
        "manager creates an empty scope (no key material) - the model's CNewScope answer is not compared",
        "after conversion: on this tree deletePrivateKeys strips secret taproot script rows too (fix 71c2e41; regenerated flag "
        "wo_strips_taproot = true), so C04_watching_only_if_stripped applies to every history; for a tree without that case the theorem "
        "holds outside K = histories importing a secret taproot script (witness C04_watch_only_residue_at_K, stated for sp = false); the "
        "repaired defect's replay corpus/C04/taproot_secret_script_survives_conversion.jsonl runs first on every check",
        "secret scripts are sealed under the all-zero key (Unlock never loads cryptoKeyScript, DESIGN 6 S5): readable from the file "
        "with no passphrase; the theorems are proved in both readings of the script key ([strict]: a secret script then only counts "
        "as sensitive data); the oracle raises it, known finding secret_readable_without_private_passphrase:secret_script",
        "transaction store (wtxmgr) and every other namespace: no symbolic model; covered by the byte scan and the decrypt-and-"
        "classify look of the wallet-level runs only",
    ]
    EXTRA_TRUSTED = ["coq/Generated/TaintSites.v regenerated by lib/extract_c04.py: (1) source-shape reader over waddrmgr/db.go "
                     "deletePrivateKeys (switch or equivalent if/else-if chain) and manager.go Unlock; (2) harness/cmd/extract-c04 "
                     "(go/ast): every call of a db.go function that takes sealed fields is traced back, argument by argument, to the "
                     "X.Encrypt(arg) that produced it - key = identity of X (key field / parameter resolved at the call sites / local "
                     "made by newCryptoKey or newSecretKey resolved by the slot its Bytes()/Marshal() is stored in), content = origin "
                     "class of arg; an unsealed value reaching a sealed slot, an Encrypt result that reaches no known slot, or any "
                     "unrecognised shape is an error. When a shape is not recognised the facts are determined by running the witness "
                     "scenarios on the built code (harness/cmd/c04 -probe: for the sealing table, which key opens and what is inside every "
                     "field each operation wrote); evidence fields facts_source / sealing_sites_source say which path ran; all facts are in "
                     "any case re-confirmed by the fact comparison of every run",
                     "the trial decryption of the harness (snacl.CryptoKey.Decrypt of the repository, keys derived by snacl.SecretKey from "
                     "the stored parameters and the passphrases the harness holds)"]

    def gen_args(self, tier, seed):
        n = self.N_QUICK if tier == "quick" else self.N_THOROUGH
        pre = []
        corpus = os.path.join(VERIF, "corpus", "C04")
        if os.path.isdir(corpus):
            # witnesses of the recorded findings run first (files directly in corpus/C04; corpus/C04/observations is not replayed)
            p = os.path.join(WORK, "corpus_C04.jsonl")
            os.makedirs(WORK, exist_ok=True)
            with open(p, "w") as out:
                for f in sorted(os.listdir(corpus)):
                    if f.endswith(".jsonl"):
                        for line in open(os.path.join(corpus, f)):
                            if line.strip():
                                out.write(json.dumps({"in": json.loads(line)["in"]}) + "\n")
            pre.append([self.vh_cmd(), "-replay", p])
        return pre + [[self.vh_cmd(), "-n", str(n), "-seed", str(seed), "-tier", tier]]

    def nontrivial(self, c):
        return "has_addresses" in (c.get("tags") or [])

    def oracle_kinds(self, case):
        out = []
        for s in case.get("sites") or []:
            k, site = s.split("@", 1)
            out.append((k, site))
        if not out:
            out = [(k, "*") for k in case.get("oracle", [])]
        return out

    def shrink(self, case, kind):
        """greedy removal of operations (never the first) while the harness still reports the same kind"""
        self._shrinks = getattr(self, "_shrinks", 0) + 1
        if self._shrinks > 2:
            return case
        best, budget = case, 30
        i = len(case["in"]["ops"]) - 1
        wd = os.path.join(WORK, self.ID)
        os.makedirs(wd, exist_ok=True)
        p = os.path.join(wd, "shrink_in.jsonl")
        while i >= 1 and budget > 0:
            ops = best["in"]["ops"]
            if i >= len(ops):
                i = len(ops) - 1
                continue
            inp = dict(best["in"], ops=ops[:i] + ops[i + 1:])
            with open(p, "w") as f:
                f.write(json.dumps({"in": inp}) + "\n")
            try:
                rc, cs, err = run_vh([self.vh_cmd(), "-replay", p], timeout=120)
            except Exception:
                break
            budget -= 1
            if rc == 0 and cs and kind in (cs[0].get("oracle") or []):
                best = cs[0]
            i -= 1
        return best

    def sample(self, c):
        ops = c["in"]["ops"]
        last = [o for o in c["obs"] if o.get("ok")][-1:] or [{}]
        return dict(mode=c["in"].get("mode"), ops=ops, tags=c.get("tags"), oracle=c.get("oracle"),
                    last_commit=dict((k, last[0].get(k)) for k in ("nrows", "needles", "image", "canary", "opened", "facts",
                                                                       "residue", "api", "apires")))

    def render_cases(self, cases):
        return """From Coq Require Import String.
From Verif Require Import Base.Prelude Addr.Taint Addr.TaintCorr.
Local Open Scope N_scope.
Definition cases : list tcase :=
%s.
Definition bad := Eval vm_compute in failures cases.
Print bad.
""" % clist(["\n " + r_case(c) for c in cases])

    def evaluate_model(self, cases):
        import concurrent.futures as cf
        mism, logs, problems = [], "", []
        idx = [i for i, c in enumerate(cases) if c["in"].get("mode") != "wallet"]
        shards = [idx[s:s + self.SHARD] for s in range(0, len(idx), self.SHARD)]

        def run(sh):
            return sh, coq_eval(self.ID, self.render_cases([cases[i] for i in sh]), "cases_%d" % sh[0])
        with cf.ThreadPoolExecutor(max_workers=12) as ex:
            results = list(ex.map(run, shards))
        self.fail_detail = {}
        for sh, (rc, out, err) in results:
            if rc != 0:
                problems.append("correspondence: cases file does not evaluate: " + (err or out)[-1500:])
                continue
            printed = parse_printed(out, "bad")
            if printed is None:
                problems.append("correspondence: could not parse model output: " + out[-500:])
                continue
            nums = [int(x) for x in re.findall(r"\d+", printed)]
            for j in range(0, len(nums) - 2, 3):
                ci, ev, code = sh[nums[j]], nums[j + 1], nums[j + 2]
                self.fail_detail.setdefault(ci, []).append((ev, code))
        for ci, fl in sorted(self.fail_detail.items()):
            c = cases[ci]
            c["first_failures"] = [dict(event=ev, op=c["in"]["ops"][ev], what=CODES.get(code, str(code))) for ev, code in fl[:6]]
            mism.append(ci)
        # harness self-checks that are not property violations
        for i, c in enumerate(cases):
            t = c.get("tags") or []
            if "canary_missed" in t:
                problems.append("scanner self-check failed (planted public index keys not found in the image), case %d" % i)
            km = [x for x in t if x.startswith("key_material_in_file:")]
            if km:
                problems.append("bytes of a master/crypto key found in the clear in the file image, case %d: %s" % (i, km))
            if "oracle_address_mismatch" in t:
                problems.append("independent address derivation disagrees with the manager, case %d" % i)
            fc = [x for x in t if x.startswith("failed_call_changed_database:")]
            if fc and c["in"].get("mode") != "wallet":
                problems.append("a refused call changed the database (the model takes a refusal as writing nothing), case %d: %s" % (i, fc))
        return mism, logs, problems

    def facts_source(self):
        try:
            txt = open(os.path.join(COQ, "Generated", "TaintSites.v")).read()
            m = re.search(r"\(\* facts source: (.*?) \*\)", txt, re.S)
            line = re.sub(r"\s+", " ", m.group(1)) if m else "unknown"
            m2 = re.search(r"\(\* sealing sites source: (.*?) \*\)", txt, re.S)
            line2 = re.sub(r"\s+", " ", m2.group(1)) if m2 else "unknown"
            flags = dict(re.findall(r"Definition (wo_strips_taproot|unlock_decrypts_script_key) : bool := (\w+)\.", txt))
            table = dict((a, "%s %s" % (k, c)) for a, k, c in
                         re.findall(r"\| (X\w+) => \{\| e_key := (\w+); e_content := (\w+) \|\}", txt))
            return line.split(" ", 1)[0], line, flags, line2, table
        except OSError as e:
            return "unknown", str(e), {}, "unknown", {}

    def extra_coverage(self, cases):
        obs = [o for c in cases for o in c["obs"]]
        commits = sum(1 for o in obs if o.get("ok") and o.get("commits"))
        needles = max([o.get("needles", 0) for o in obs] + [0])
        conv = [c for c in cases if "converted" in (c.get("tags") or [])]
        src, detail, flags, sites_detail, table = self.facts_source()
        wallet = [c for c in cases if c["in"].get("mode") == "wallet"]
        facts = {}
        for o in obs:
            for f in (o.get("facts") or []) + (o.get("full") or []):
                k = "%s%s sealed under %s holds %s" % (f["s"], (":row_type_%d" % f["t"]) if f.get("t") else "", f["k"], f["c"])
                facts[k] = facts.get(k, 0) + 1
        free = {}
        for c in conv:
            for t in c["tags"]:
                if t.startswith("residue_free:"):
                    free[t[len("residue_free:"):]] = free.get(t[len("residue_free:"):], 0) + 1
        return dict(
            facts_source=src, facts_source_detail=detail, regenerated_facts=flags,
            sealing_sites_source=sites_detail.split(" ", 1)[0], sealing_sites_source_detail=sites_detail, sealing_table=table,
            committed_transactions_scanned=commits, images_scanned=sum(1 for o in obs if o.get("scanned")),
            refused_calls_scanned=sum(1 for o in obs if o.get("scanned") and not o.get("ok")),
            sealed_fields_opened_and_classified=sum(o.get("opened", 0) for o in obs),
            observed_facts=facts,
            sealed_blobs_outside_known_layouts=sum(len(o.get("extra") or []) for o in obs),
            max_needles=needles,
            histories_with_conversion=len(conv),
            api_checked_after_reopen=sum(1 for c in cases if "api_checked" in (c.get("tags") or [])),
            observations=dict(
                sealed_private_field_left_in_live_row_after_conversion=sum(
                    1 for c in conv if "residue:live_sealed_private" in c["tags"]),
                kinds=sorted({t[len("residue_kind:"):] for c in conv for t in c["tags"] if t.startswith("residue_kind:")}),
                old_ciphertext_still_in_free_pages_after_conversion=sum(
                    1 for c in conv if "residue:old_ciphertext_in_free_pages" in c["tags"]),
                old_ciphertext_in_free_pages_opens_with_old_private_passphrase=sum(
                    1 for c in conv if "residue:old_ciphertext_in_free_pages_opens_with_old_private_passphrase" in c["tags"]),
                freed_page_residue_by_row_class=free,
                old_master_key_parameters_still_in_free_pages=sum(
                    1 for c in conv if "residue:old_master_params_in_free_pages" in c["tags"]),
                note="freed pages are outside the letter of C04 (ciphertext, not clear text; not a live row): see partial_clauses"),
            wallet_level_cases=len(wallet),
            wallet_level_with_sends=sum(1 for c in wallet if any(op["k"] == "send" and o.get("ok") for op, o in zip(c["in"]["ops"], c["obs"]))),
            wallet_level_commits_scanned=sum(o.get("commits", 0) for c in wallet for o in c["obs"]),
            harness_wall_ms=sum(c.get("wall_ms", 0) for c in cases),
            model_failures=[dict(case=ci, detail=cases[ci].get("first_failures")) for ci in sorted(self.fail_detail)][:5]
            if hasattr(self, "fail_detail") else [],
        )


CHECK = C04
