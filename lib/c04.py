from vlib import *

CODES = {1: "call_outcome", 2: "row_count", 3: "changed_row", 4: "deleted_row", 5: "full_dump",
         6: "unrecognised_key_or_unopenable_field", 7: "lock_unlock_open_changed_database"}

SEG = {"main": "BMain", "sync": "BSync", "schema": "BSchema", "scope": "BScope", "acct": "BAcct", "addr": "BAddr",
       "usedaddrs": "BUsed", "addracctidx": "BAddrAcctIdx", "acctnameidx": "BNameIdx", "acctididx": "BIdIdx", "meta": "BMeta"}

SEAL = {"mpub": "LMasterPub", "mpriv": "LMasterPriv", "cpub": "LCryptoPub", "cpriv": "LCryptoPriv",
        "cscript": "LScriptStored", "zero": "LZero", "none": "LNone"}


def n(x):
    return "%d%%N" % x


def scope(s):
    return "(%s, %s)" % (n(s[0]), n(s[1]))


def cstr(s):
    return '"%s"%%string' % s.replace('"', '""')


def addrid(a):
    k = a["kind"]
    if k == "ch":
        return "(AChain %s %s %s %s)" % (scope([a.get("p", 0), a.get("c", 0)]), n(a.get("acct", 0)),
                                         cbool(a.get("int", False)), n(a.get("idx", 0)))
    if k == "imp":
        return "(AImp %s)" % n(a.get("n", 0))
    return "(AScr %s %s)" % (n(a.get("n", 0)), n(a.get("hlen", 0)))


def r_op(o):
    k = o["k"]
    s = scope(o.get("scope") or [0, 0])
    if k == "create":
        return "OCreate"
    if k == "reopen":
        return "OReopen"
    if k == "unlock":
        return "OUnlock %s" % cbool(o.get("passok", False))
    if k == "lock":
        return "OLock"
    if k == "newacct":
        return "ONewAccount %s %s %s" % (s, n(o.get("name", 0)), n(o.get("nlen", 0)))
    if k == "newscope":
        return "ONewScope %s" % s
    if k == "derive":
        return "ODerive %s %s %s %s" % (s, n(o.get("acct", 0)), cbool(o.get("int", False)), n(o.get("n", 0)))
    # symbolic id of an imported key as serialised (harness impSym): the same key imported
    # compressed and uncompressed yields two different addresses, both accepted by the manager
    if k == "imppriv":
        comp = o.get("comp", False)
        return "OImportPriv %s %s %s" % (s, n(2 * o.get("id", 0) + (0 if comp else 1)), cbool(comp))
    if k == "imppub":
        return "OImportPub %s %s" % (s, n(2 * o.get("id", 0)))
    if k == "impscript":
        sk = o.get("skind")
        kind = "KP2SH" if sk == "p2sh" else "(%s %s)" % ("KWitness" if sk == "wsh" else "KTaproot", cbool(o.get("secret", False)))
        return "OImportScript %s %s %s %s" % (s, n(o.get("id", 0)), n(o.get("len", 0)), kind)
    if k == "impxpub":
        return "OImportXpub %s %s %s %s %s" % (s, n(o.get("id", 0)), n(o.get("name", 0)), n(o.get("nlen", 0)),
                                               cbool(o.get("schema", False)))
    if k == "rename":
        return "ORename %s %s %s %s" % (s, n(o.get("acct", 0)), n(o.get("name", 0)), n(o.get("nlen", 0)))
    if k == "chpass":
        return "OChangePass %s %s" % (cbool(o.get("private", False)), cbool(o.get("passok", False)))
    if k == "markused":
        return "OMarkUsed %s %s" % (s, addrid(o["addr"]))
    if k == "syncto":
        return "OSyncTo %s" % n(o.get("height", 0))
    if k == "neuter":
        return "ONeuter"
    if k == "convert":
        return "OConvert"
    raise ValueError(k)


def r_path(p):
    out = []
    for i, x in enumerate(p):
        if x in SEG and not (i == 1 and p[0] == "scope"):
            out.append(SEG[x])
        elif x.startswith("acct:"):
            out.append("BAcctOf %s" % n(int(x[5:])))
        elif ":" in x:
            a, b = x.split(":")
            out.append("BScopeOf %s" % scope([int(a), int(b)]))
        else:
            out.append("BMeta")   # unknown bucket: cannot match any model row below its parent
    return clist(out)


def r_key(k):
    t = k[0]
    if t == "s":
        s = k[1]
        if all(32 <= ord(ch) < 127 for ch in s):
            return "HStr %s" % cstr(s)
        return "HOther"
    if t == "n":
        return "HNum %s" % n(k[1])
    if t == "a":
        return "HAddr %s" % addrid(k[1])
    if t == "m":
        return "HName %s %s" % (n(k[1]), n(k[2]))
    if t == "c":
        return "HScope %s" % scope([k[1], k[2]])
    return "HOther"


def r_field(f):
    if f[0] == "S":
        return "HSealed %s %s" % (SEAL.get(f[1], "LNone"), n(max(f[2], 0)))
    if f[0] == "H":
        return "HHashed"
    return "HClear %s" % n(f[1])


def r_row(r):
    return "{| h_path := %s; h_key := %s; h_val := %s |}" % (r_path(r["p"]), r_key(r["k"]),
                                                             clist([r_field(f) for f in r.get("v") or []]))


def r_obs(o):
    full = "None"
    if o.get("hasfull"):
        full = "Some %s" % clist(["\n      " + r_row(r) for r in o.get("full") or []])
    dele = clist(["(%s, %s)" % (r_path(d[0]), r_key(d[1])) for d in o.get("deleted") or []])
    return "{| o_ok := %s; o_nrows := %s; o_changed := %s;\n     o_deleted := %s; o_full := %s |}" % (
        cbool(o["ok"]), n(o.get("nrows", 0)), clist(["\n      " + r_row(r) for r in o.get("changed") or []]), dele, full)


def r_case(c):
    return clist(["\n   (%s,\n    %s)" % (r_op(op), r_obs(ob)) for op, ob in zip(c["in"]["ops"], c["obs"])])


class C04(Check):
    ID = "C04"
    SHARD = 12
    N_QUICK = 100
    N_THOROUGH = 1000
    RULE = ("2 systematic histories (every operation once, with and without a secret taproot script, conversion, reopen, "
            "operations on the watching-only manager) + wallet-level runs (wallet.Create / Open / Unlock / NewAddress / imports / "
            "passphrase change / conversion through InitAccounts / a recorded transaction) + generated manager histories of 8-25 "
            "operations over 4-6 key scopes (derive locked/unlocked, new account, imports of keys, scripts of 5 kinds and xpub "
            "accounts, renames, passphrase changes incl. wrong old passphrase, lock/unlock incl. wrong passphrase, mark-used, "
            "synced-to incl. stale-hash deletion, new scope, neuter, second create, reopen; 70% end with conversion + reopen + "
            "further operations). After EVERY committed transaction the whole bbolt file is scanned for every secret produced "
            "so far (several encodings), both passphrases and every sensitive item; every row's shape is compared with the model. "
            "non-trivial = at least one address issued or imported; distinct by input")
    ASSUMPTIONS = ["bbolt's atomic commit: the only images a crash can leave behind are commit boundaries (trusted, C11)",
                   "strength of the sealing (secretbox) and of scrypt/sha256 is C17's hypothesis: Enc/Hash/Kdf are symbolic",
                   "operating-system page cache, swap and process memory are out of scope (memory is C05)"]
    PARTIAL_CLAUSES = [
        "raw-or-serialized-text clause: decided by scanning each committed file image for the encodings raw / hex / HEX / base58 / "
        "WIF / xprv-tprv string / 78-byte serialization; other encodings are covered only by the symbolic theorem",
        "crash points: every commit boundary is scanned (the file as it is after each committed transaction, free pages included); "
        "that no other image can be left behind is bbolt's atomic commit (trusted)",
        "'no call returns private material': proved for the modelled calls as a function of the watching-only flag; the real "
        "accessors (Unlock with every passphrase ever used, PrivKey, ExportPrivKey, Script, TaprootScript, DeriveFromKeyPath(+Cache), "
        "Decrypt(CKTPrivate/CKTScript), NewAccount, ChangePassphrase(private)) are exercised on the reopened manager",
        "after conversion the theorem holds outside K = histories importing a secret taproot script (deletePrivateKeys has no case for "
        "adtTaprootScript on this tree: the sealed script row stays; the accessor refuses) - witness C04_watch_only_residue_at_K",
    ]
    EXTRA_TRUSTED = ["coq/Generated/TaintSites.v regenerated by lib/extract_c04.py: source-shape reader over waddrmgr/db.go "
                     "deletePrivateKeys (switch or equivalent if/else-if chain) and manager.go Unlock; when the shape is not "
                     "recognised the two facts are determined by running their witness scenarios on the built code "
                     "(harness/cmd/c04 -probe); evidence field facts_source says which path ran; both facts are in any case "
                     "re-confirmed by the row comparison of every run"]

    def nontrivial(self, c):
        return "has_addresses" in (c.get("tags") or [])

    def oracle_kinds(self, case):
        out = []
        for s in case.get("sites") or []:
            k, site = s.split("@", 1)
            out.append((k, site))
        if not out:
            out = [(k, "*") for k in case.get("oracle", [])]
        return out

    def shrink(self, case, kind):
        """greedy removal of operations (never the first) while the harness still reports the same kind"""
        self._shrinks = getattr(self, "_shrinks", 0) + 1
        if self._shrinks > 2:
            return case
        best, budget = case, 30
        i = len(case["in"]["ops"]) - 1
        wd = os.path.join(WORK, self.ID)
        os.makedirs(wd, exist_ok=True)
        p = os.path.join(wd, "shrink_in.jsonl")
        while i >= 1 and budget > 0:
            ops = best["in"]["ops"]
            if i >= len(ops):
                i = len(ops) - 1
                continue
            inp = dict(best["in"], ops=ops[:i] + ops[i + 1:])
            with open(p, "w") as f:
                f.write(json.dumps({"in": inp}) + "\n")
            try:
                rc, cs, err = run_vh([self.vh_cmd(), "-replay", p], timeout=120)
            except Exception:
                break
            budget -= 1
            if rc == 0 and cs and kind in (cs[0].get("oracle") or []):
                best = cs[0]
            i -= 1
        return best

    def sample(self, c):
        ops = c["in"]["ops"]
        last = [o for o in c["obs"] if o.get("ok")][-1:] or [{}]
        return dict(mode=c["in"].get("mode"), ops=ops, tags=c.get("tags"), oracle=c.get("oracle"),
                    last_commit=dict((k, last[0].get(k)) for k in ("nrows", "needles", "image", "canary", "residue", "api")))

    def render_cases(self, cases):
        return """From Coq Require Import String.
From Verif Require Import Base.Prelude Addr.Taint Addr.TaintCorr.
Local Open Scope N_scope.
Definition cases : list tcase :=
%s.
Definition bad := Eval vm_compute in failures cases.
Print bad.
""" % clist(["\n " + r_case(c) for c in cases])

    def evaluate_model(self, cases):
        import concurrent.futures as cf
        mism, logs, problems = [], "", []
        idx = [i for i, c in enumerate(cases) if c["in"].get("mode") != "wallet"]
        shards = [idx[s:s + self.SHARD] for s in range(0, len(idx), self.SHARD)]

        def run(sh):
            return sh, coq_eval(self.ID, self.render_cases([cases[i] for i in sh]), "cases_%d" % sh[0])
        with cf.ThreadPoolExecutor(max_workers=12) as ex:
            results = list(ex.map(run, shards))
        self.fail_detail = {}
        for sh, (rc, out, err) in results:
            if rc != 0:
                problems.append("correspondence: cases file does not evaluate: " + (err or out)[-1500:])
                continue
            printed = parse_printed(out, "bad")
            if printed is None:
                problems.append("correspondence: could not parse model output: " + out[-500:])
                continue
            nums = [int(x) for x in re.findall(r"\d+", printed)]
            for j in range(0, len(nums) - 2, 3):
                ci, ev, code = sh[nums[j]], nums[j + 1], nums[j + 2]
                self.fail_detail.setdefault(ci, []).append((ev, code))
        for ci, fl in sorted(self.fail_detail.items()):
            c = cases[ci]
            c["first_failures"] = [dict(event=ev, op=c["in"]["ops"][ev], what=CODES.get(code, str(code))) for ev, code in fl[:6]]
            mism.append(ci)
        # harness self-checks that are not property violations
        for i, c in enumerate(cases):
            t = c.get("tags") or []
            if "canary_missed" in t:
                problems.append("scanner self-check failed (planted public index keys not found in the image), case %d" % i)
            km = [x for x in t if x.startswith("key_material_in_file:")]
            if km:
                problems.append("bytes of a master/crypto key found in the clear in the file image, case %d: %s" % (i, km))
            if "oracle_address_mismatch" in t:
                problems.append("independent address derivation disagrees with the manager, case %d" % i)
        return mism, logs, problems

    def facts_source(self):
        try:
            txt = open(os.path.join(COQ, "Generated", "TaintSites.v")).read()
            m = re.search(r"\(\* facts source: (.*?) \*\)", txt, re.S)
            line = re.sub(r"\s+", " ", m.group(1)) if m else "unknown"
            flags = dict(re.findall(r"Definition (wo_strips_taproot|unlock_decrypts_script_key) : bool := (\w+)\.", txt))
            return line.split(" ", 1)[0], line, flags
        except OSError as e:
            return "unknown", str(e), {}

    def extra_coverage(self, cases):
        commits = sum(1 for c in cases for o in c["obs"] if o.get("ok") and o.get("commits"))
        scans = sum(1 for c in cases for o in c["obs"] if o.get("ok"))
        needles = max([o.get("needles", 0) for c in cases for o in c["obs"]] + [0])
        conv = [c for c in cases if "converted" in (c.get("tags") or [])]
        src, detail, flags = self.facts_source()
        return dict(
            facts_source=src, facts_source_detail=detail, regenerated_facts=flags,
            committed_transactions_scanned=commits, images_scanned=scans, max_needles=needles,
            histories_with_conversion=len(conv),
            api_checked_after_reopen=sum(1 for c in cases if "api_checked" in (c.get("tags") or [])),
            observations=dict(
                sealed_private_field_left_in_live_row_after_conversion=sum(
                    1 for c in conv if "residue:live_sealed_private" in c["tags"]),
                kinds=sorted({t[len("residue_kind:"):] for c in conv for t in c["tags"] if t.startswith("residue_kind:")}),
                old_ciphertext_still_in_free_pages_after_conversion=sum(
                    1 for c in conv if "residue:old_ciphertext_in_free_pages" in c["tags"]),
                old_master_key_parameters_still_in_free_pages=sum(
                    1 for c in conv if "residue:old_master_params_in_free_pages" in c["tags"]),
                note="observations outside the letter of C04 (sealed data, not clear text); see DESIGN section 6 S5 and the C04 paragraph"),
            wallet_level_cases=sum(1 for c in cases if c["in"].get("mode") == "wallet"),
            model_failures=[dict(case=ci, detail=cases[ci].get("first_failures")) for ci in sorted(self.fail_detail)][:5]
            if hasattr(self, "fail_detail") else [],
        )


CHECK = C04
