from txcommon import *


class C13(TxCheck):
    ID = "C13"
    MODE = "c13"
    N_QUICK = 60
    N_THOROUGH = 1500
    RULE = "x"
    KINDS = ["tx_details_differ_from_ledger", "unconfirmed_set_differs_from_ledger", "store_error"]


CHECK = C13
