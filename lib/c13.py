from txcommon import *

# codes of coq/Tx/QueryCorr.v (on top of StoreCorr's): 6x = implementation differs from the MODEL,
# 26x = implementation differs from the LEDGER (property violated)
CODES13 = dict(CODES)
CODES13.update({
    60: "model:unique_tx_details_block", 61: "model:range_transactions_details", 62: "model:previous_pkscripts",
    63: "model:get_transactions", 64: "harness:malformed_query_observation",
    260: "block_qualified_lookup_differs_from_ledger", 261: "range_details_differ_from_ledger",
    262: "previous_scripts_differ_from_ledger",
})
# GetTransactions against the ledger: 2600 + 10 * backend + identifier shape (QueryCorr.gt_code) - one kind, the site
# names the backend branch and the shape
GT_BACKENDS = ["neutrino", "bitcoind", "btcd"]
GT_SHAPES = ["heights", "start-hash", "end-hash", "both-hashes"]
GT_SITES = {}
for _b, _bn in enumerate(GT_BACKENDS):
    for _s, _sn in enumerate(GT_SHAPES):
        CODES13[2600 + 10 * _b + _s] = "get_transactions_differs_from_ledger"
        GT_SITES[2600 + 10 * _b + _s] = "GetTransactions/%s-%s" % (_bn, _sn)


def is_spec(code):
    return 100 <= code < 900 or code == 10 or code in GT_SITES


def zz(x):
    return "(%d)" % x if x < 0 else "%d" % x


def bid(b):
    # block ids the harness could not map back are rendered as a value no block has
    return "%d" % (b if b >= 0 else 4294967295)


def q_det(d):
    blk = "Some (%s,%s)" % (zz(d["h"]), bid(d["b"])) if d["mined"] else "None"
    cs = clist(["(%d,%s,%s,%s)" % (c["i"], zz(c["amt"]), cbool(c["spent"]), cbool(c["chg"])) for c in d["credits"] or []])
    ds = clist(["(%d,%s)" % (x[0], zz(x[1])) for x in d["debits"] or []])
    return "(%d,%s,%s,%s)" % (d["t"], blk, cs, ds)


def q_sum(s):
    return "(%d,%s,%s,%s)" % (s["t"], clist(["(%d,%s)" % (x[0], zz(x[1])) for x in s["ins"] or []]),
                             clist(["%d" % x for x in s["outs"] or []]), zz(s["fee"]))


def q_obs(q):
    if not q:
        return "{| qo_tab := []; qo_uniq := []; qo_range := []; qo_prev := []; qo_gt := [] |}"
    tab = clist([q_det(d) for d in q["tab"] or []])
    uniq = clist(["(%d,%s,%s,%s)" % (u[0], zz(u[1]), bid(u[2]), zz(u[3])) for u in q["uniq"] or []])
    rng = clist(["(%s,%s,%d,%s,%s)" % (zz(r["b"]), zz(r["e"]), r["k"], cbool(bool(r.get("err"))),
                                       clist([clist(["%d" % i for i in g]) for g in r["groups"] or []]))
                 for r in q["range"] or []])
    prev = clist(["(%d,%s,%s,%s,%s)" % (p["t"], zz(p["h"]), bid(p["b"]), cbool(bool(p.get("err"))),
                                        clist(["(%d,%d)" % (o[0], o[1]) for o in p["ops"] or []]))
                  for p in q["prev"] or []])
    gt = clist(["(%d,(%d,%s),(%d,%s),%s,%s,%s,%s)" % (
        g.get("backend", 0), g["start"][0], zz(g["start"][1]), g["end"][0], zz(g["end"][1]), cbool(g["cancel"]), cbool(bool(g.get("err"))),
        clist(["(%s,%s,%s)" % (zz(b["h"]), bid(b["b"]), clist([q_sum(s) for s in b["txs"] or []])) for b in g["mined"] or []]),
        clist([q_sum(s) for s in g["unmined"] or []])) for g in q["gt"] or []])
    return "{| qo_tab := %s; qo_uniq := %s; qo_range := %s; qo_prev := %s; qo_gt := %s |}" % (tab, uniq, rng, prev, gt)


class C13(TxCheck):
    ID = "C13"
    MODE = "c13"
    LEVEL = "proof"
    BINS = 12
    # 20 (txid-only ranges INCLUDING the order inside a block) is recorded as drift only: the property fixes no
    # order inside a block; 61 compares the same iterations with full details, groups as multisets
    MODEL_CODES = [16, 18, 19, 60, 61, 62, 63, 64, 902]
    N_QUICK = 50
    N_THOROUGH = 1500
    KINDS = ["tx_details_differ_from_ledger", "unconfirmed_set_differs_from_ledger", "range_iteration_differs_from_ledger", "store_error",
             "block_qualified_lookup_differs_from_ledger", "range_details_differ_from_ledger",
             "previous_scripts_differ_from_ledger", "get_transactions_differs_from_ledger"]
    RULE = ("C01's generator on a real wallet's store; after EVERY event: TxDetails and UniqueTxDetails(nil) for every transaction of the universe "
            "(known, removed, never seen); UniqueTxDetails(block) for the current block, every block the transaction was ever confirmed in (stale after a reorg), "
            "a block it never was in and the current height under a foreign hash; RangeTransactions over {0..-1, -1..0, 0..tip, tip..0, -1..-1, tip..tip, tip+1..-1, "
            "1..tip-1, tip-1..1} (txids) and over 5 (begin,end) pairs per event drawn from {-1,0,1,tip-1,tip,tip+1,h,h+1}^2 with FULL details per group "
            "(groups compared as multisets) and a callback that stops after k in {never,1,2,3} groups; PreviousPkScripts(nil / confirming block / stale block) for "
            "every known and a third of the other transactions; 2 Wallet.GetTransactions calls per event (nil / height / hash identifiers, unknown hashes, "
            "closed cancel channel), each through one of the three REAL backends of its type switch - chain.NeutrinoClient over a stub chain service, "
            "chain.BitcoindClient over an in-process JSON-RPC/HTTP stand-in, chain.RPCClient over an in-process btcd websocket stand-in; corpus/C13 runs first; UnminedTxHashes - each compared with the model and with the ledger specification. "
            "non-trivial = history with a confirmation and a reorg or removal; distinct by input")

    PARTIAL_CLAUSES = [
        "TransactionSummary fields that come from the address manager or the clock (PreviousAccount, Account, Internal, Label, Timestamp) are "
        "outside the model; hash, MyInputs (index, amount), MyOutputs (index) and Fee are modelled and compared",
    ]

    def gen_args(self, tier, seed):
        args = super().gen_args(tier, seed)
        corpus = os.path.join(VERIF, "corpus", "C13")
        pre = []
        if os.path.isdir(corpus):
            # witnesses of repaired findings run first (one case per file: {"in": ...})
            for f in sorted(os.listdir(corpus)):
                if not f.endswith(".json"):
                    continue
                p = os.path.join(WORK, "corpus_C13_" + f + "l")
                os.makedirs(WORK, exist_ok=True)
                with open(p, "w") as out:
                    out.write(json.dumps({"in": json.load(open(os.path.join(corpus, f)))["in"]}) + "\n")
                pre.append(["txstore", "-mode", "c13", "-replay", p])
        return pre + args

    def nontrivial(self, c):
        t = set(c.get("tags", []))
        return "ev_confirm" in t and bool(t & {"reorg_depth_1", "reorg_depth_2", "reorg_depth_3", "conflict_confirmed", "ev_abandon"})

    def render_cases(self, cases):
        parts = []
        for k, c in enumerate(cases):
            qs = clist(["\n   " + q_obs(o.get("q")) for o in c["obs"]])
            parts.append("Definition c%d : tcase :=\n %s.\nLocal Open Scope Z_scope.\nDefinition q%d : list qobs := %s.\nLocal Close Scope Z_scope.\n"
                         % (k, r_case(c), k, qs))
        return """From stdpp Require Import gmap list numbers.
From Coq Require Import ZArith NArith.
From Verif Require Import Tx.Store Tx.Ledger Tx.Hist Tx.StoreCorr Tx.Query Tx.QueryCorr.
%s
Definition bad := Eval vm_compute in qfailures %s.
Print bad.
""" % ("\n".join(parts), clist(["(c%d, q%d)" % (k, k) for k in range(len(cases))]))

    def sample(self, c):
        s = TxCheck.sample(self, c)
        q = c["obs"][-1].get("q") or {}
        s["final_queries"] = dict(range=[(r["b"], r["e"], r["k"], len(r["groups"] or [])) for r in q.get("range") or []],
                                  get_transactions=[(g["start"], g["end"], g["cancel"], bool(g.get("err"))) for g in q.get("gt") or []])
        return s

    def evaluate_model(self, cases):
        # TxCheck.evaluate_model with this property's code table
        import concurrent.futures as cf
        mism, logs, problems = [], "", []
        # shards balanced by rendered size (parsing the literals dominates), at most BINS of them
        sizes = sorted(((len(json.dumps(c["obs"])), i) for i, c in enumerate(cases)), reverse=True)
        nb = max(1, min(self.BINS, (len(cases) + 1) // 2), (len(cases) + 5) // 6)
        bins, load = [[] for _ in range(nb)], [0] * nb
        for sz, i in sizes:
            k = load.index(min(load))
            bins[k].append(i)
            load[k] += sz
        bins = [sorted(b) for b in bins if b]

        def run(bi):
            return bi, coq_eval(self.ID, self.render_cases([cases[i] for i in bins[bi]]), "cases_%d" % bi)
        with cf.ThreadPoolExecutor(max_workers=self.BINS) as ex:
            results = list(ex.map(run, range(len(bins))))
        self.fail_detail = {}
        for bi, (rc, out, err) in results:
            if rc != 0:
                problems.append("correspondence: cases file does not evaluate: " + (err or out)[-1500:])
                continue
            printed = parse_printed(out, "bad")
            if printed is None:
                problems.append("correspondence: could not parse model output: " + out[-500:])
                continue
            nums = [int(x) for x in re.findall(r"\d+", printed)]
            for j in range(0, len(nums) - 2, 3):
                ci, ev, code = bins[bi][nums[j]], nums[j + 1], nums[j + 2]
                self.fail_detail.setdefault(ci, []).append((ev, code))
        for ci, fl in sorted(self.fail_detail.items()):
            c = cases[ci]
            spec = sorted({CODES13.get(code, str(code)) for ev, code in fl if is_spec(code)})
            other = [(ev, code) for ev, code in fl if not is_spec(code)]
            drift = [(ev, code) for ev, code in other if code < 100 and code not in self.MODEL_CODES]
            other = [(ev, code) for ev, code in other if not (code < 100 and code not in self.MODEL_CODES)]
            if drift:
                self.drift = getattr(self, "drift", 0) + 1
            spec = [k for k in spec if k in self.KINDS]
            for k in spec:
                if k not in c["oracle"]:
                    c["oracle"].append(k)
            c["first_failures"] = [dict(event=ev, what=CODES13.get(code, str(code))) for ev, code in fl[:8]]
            c["failure_codes"] = [[ev, code] for ev, code in fl[:400]]
            if other:
                mism.append(ci)
                gen = [code for ev, code in other if code >= 900 and code != 902]
                if gen:
                    problems.append("generator produced an inadmissible case (index %d): %s" % (
                        ci, [CODES13.get(x) for x in gen]))
        return mism, logs, problems

    def extra_coverage(self, cases):
        cov = TxCheck.extra_coverage(self, cases)
        n = dict(unique_block_lookups=0, unique_block_hits=0, stale_or_foreign_block_lookups=0, range_queries=0,
                 range_queries_stopped_early=0, range_groups_with_2plus_txs=0, previous_pkscripts_calls=0,
                 previous_pkscripts_nonempty=0, get_transactions_calls=0, get_transactions_by_hash=0,
                 get_transactions_backend_errors=0, get_transactions_cancelled=0)
        for c in cases:
            for o in c["obs"]:
                q = o.get("q")
                if not q:
                    continue
                for u in q["uniq"] or []:
                    n["unique_block_lookups"] += 1
                    if u[3] >= 0:
                        n["unique_block_hits"] += 1
                    else:
                        n["stale_or_foreign_block_lookups"] += 1
                for r in q["range"] or []:
                    n["range_queries"] += 1
                    if r["k"] and len(r["groups"] or []) == r["k"]:
                        n["range_queries_stopped_early"] += 1
                    n["range_groups_with_2plus_txs"] += sum(1 for g in r["groups"] or [] if len(g) > 1)
                for p in q["prev"] or []:
                    n["previous_pkscripts_calls"] += 1
                    if p["ops"]:
                        n["previous_pkscripts_nonempty"] += 1
                for g in q["gt"] or []:
                    n["get_transactions_calls"] += 1
                    if g["start"][0] >= 2 or g["end"][0] >= 2:
                        n["get_transactions_by_hash"] += 1
                    bk = "get_transactions_via_" + GT_BACKENDS[g.get("backend", 0)]
                    n[bk] = n.get(bk, 0) + 1
                    if g["end"][0] == 2:
                        n[bk + "_end_hash_resolved"] = n.get(bk + "_end_hash_resolved", 0) + 1
                    if g.get("err"):
                        n["get_transactions_backend_errors"] += 1
                    if g["cancel"]:
                        n["get_transactions_cancelled"] += 1
        cov["query_coverage"] = n
        return cov

    def site_of(self, case, kind):
        # GetTransactions: the backend branch and identifier shape of the first failing call;
        # otherwise the event kind at which the property first failed
        ev = case["in"]["events"]
        for e, code in case.get("failure_codes") or []:
            if CODES13.get(code, str(code)) == kind:
                if code in GT_SITES:
                    return GT_SITES[code]
                return ev[e]["k"] if e < len(ev) else "pair"
        return "*"


CHECK = C13
