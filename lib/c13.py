from txcommon import *


class C13(TxCheck):
    ID = "C13"
    MODE = "c13"
    LEVEL = "proof"
    MODEL_CODES = [16, 18, 19, 20, 902]
    N_QUICK = 50
    N_THOROUGH = 1500
    KINDS = ["tx_details_differ_from_ledger", "unconfirmed_set_differs_from_ledger", "range_iteration_differs_from_ledger", "store_error"]
    RULE = ("C01's generator; after EVERY event: TxDetails and UniqueTxDetails(unmined) for every transaction of the universe "
            "(known, removed, never seen), RangeTransactions over {0..-1, -1..0, 0..tip, tip..0, -1..-1, tip..tip, tip+1..-1, 1..tip-1, tip-1..1} "
            "(groups per block in both directions, unmined group position), UnminedTxHashes - compared with the model and with spec_details. "
            "non-trivial = history with a confirmation and a reorg or removal; distinct by input")

    def nontrivial(self, c):
        t = set(c.get("tags", []))
        return "ev_confirm" in t and bool(t & {"reorg_depth_1", "reorg_depth_2", "reorg_depth_3", "conflict_confirmed", "ev_abandon"})


CHECK = C13
