from vlib import *


class C18(Check):
    ID = "C18"
    RULE = ("(1) real chain.ConcurrentQueue with bufferSize in {0,1,2,5,20}. systematic (10 plans per capacity): stop at once, burst of cap+3 "
            "and of 3*cap+40 sends with no consumer then drain, stop with the overflow list non-empty, exactly-full buffer, fast and "
            "steadily-slower consumer, overflow used-emptied-used again. random (N): (3/4) one goroutine performs a PRNG plan of "
            "send/receive/pause ops in phases (mostly sends / mostly receives / balanced / sure burst > buffer), then drains or not, then "
            "Stop + goroutine-count probe + non-blocking drain of what chanOut still holds; (1/4) producer and consumer goroutines run "
            "concurrently with seeded pauses (slow, fast, mixed consumer; consumer may stop half-way), events logged under a mutex. "
            "every send must complete within 5 s with nobody receiving (else producer_blocked); every planned receive must deliver "
            "within 5 s (else lost_item); with nothing outstanding a 12 ms wait must deliver nothing. "
            "(2) the REAL inline slice queues: chain.RPCClient.handler (real NewRPCClient+Start against an in-process loopback websocket "
            "stand-in answering getcurrentnet/getbestblock) and chain.NeutrinoClient.notificationHandler (real Start over a stub "
            "NeutrinoChainService); hand-overs through the backends' own callbacks onBlockConnected/onBlockDisconnected "
            "(chain/verif_hooks_c18.go), the backend's ClientConnected is consumed first; run in a child process, a panic of the handler "
            "goroutine is attributed to the input being run (worker_panicked). systematic (41): 14 scripts x 2 backends (stop at once, "
            "BlockStamp before/after deliveries, queue of 1 and 2, bursts of 6/60 with no consumer, stop with a backlog, consumer that "
            "empties the queue after every item, empties-and-refills), 6 concurrent runs x 2 (slow / fast consumer, quit in the middle of "
            "a burst while the consumer reads), 1 wire run (btcd: notifications written to the websocket, delivered by rpcclient through "
            "the callbacks NewRPCClient registered). random (N/2): backend by coin; 3/5 script plans over {send BlockConnected, send "
            "BlockDisconnected, receive, BlockStamp, pause} in phases + drain-or-not + Stop, 2/5 concurrent (consumer stops half-way 1/4, "
            "producer calls Stop after k sends 1/4), btcd 1/12 wire. waits that must succeed: 10 s; after Stop: WaitForShutdown must "
            "return and Notifications() must report closed (else worker_not_terminated). "
            "(3) wallet.NotificationServer (a rendezvous, not a queue; oracle only): real wallet, VerifConnectBlock for heights 1..N, one "
            "or two TransactionNotifications clients with seeded pauses, Done() in mid-burst: 6 systematic + N/15 random. "
            "non-trivial = (1) more items outstanding than the buffer holds or Stop with items outstanding, (2) backlog >= 2 or Stop with "
            "a backlog, (3) N >= 2; distinct by input")
    N_QUICK = 300
    N_THOROUGH = 4000
    SHARD = 400
    EXTRA_TRUSTED = [
        "slice queues: the loopback btcd stand-in (harness/cmd/c18/slice.go fakeBtcd: answers getcurrentnet and getbestblock, "
        "forwards nothing else) and the neutrino chain-service stub (Start/Stop/BestBlock/IsCurrent) - they only let the real "
        "Start() reach the real loop; rpcclient's websocket client is the production one",
        "source-shape reader harness/cmd/extract-c18 (go/ast) for the facts of Generated/QueueSites.v",
    ]
    ASSUMPTIONS = [
        "Go channel/select semantics as stated in the header of coq/Queue/Queue.v (a select takes any ready case, default only when "
        "none is ready, a closed channel is always ready to receive, operations on channels are atomic steps)",
        "overflow (container/list) is touched by the worker goroutine only (true in chain/queue.go: the field is unexported and "
        "used only inside Start's goroutine)",
        "script order of the concurrent-mode cases is the order in which the events were logged under the harness mutex "
        "(a send is logged after it completed, before the lock is released)",
        "slice queues: notifications, next, dequeue, enqueue are locals of the handler goroutine (no other goroutine can touch them); "
        "enqueueNotification and dequeueNotification are unbuffered (make(chan interface{}) in NewRPCClient / NewRPCClientWithConfig / "
        "NeutrinoClient.Start), so every step of the loop is a rendezvous; the bodies of the select cases do not block",
        "slice queues, wire mode: the script claims 'all written, then all received' - one possible order of the same observations "
        "(when rpcclient's dispatcher completed each hand-over is not observable)",
    ]
    PARTIAL_CLAUSES = [
        "liveness under Go's scheduler is not proved: 'stopping the queue terminates its worker' is proved as - quit is an enabled "
        "case at every control point of a live worker after Stop, taking it terminates the worker, every worker-only run is bounded "
        "and ends terminated (C18_stop_terminates_partial, C18_slice_stop_terminates_partial); that select actually takes the quit "
        "case while a producer keeps sending needs fairness of select's random choice - only exercised (goroutine-count probe / "
        "WaitForShutdown + closed channel after Stop on every case)",
        "'the producer is never blocked' is proved as - ConcurrentQueue: from every reachable running state at most 2 worker steps, "
        "none involving the consumer, re-enable a send (1 for the code, where chanIn is unbuffered); slice queues: a send is enabled "
        "in EVERY reachable state in which the loop is alive, with no step of anybody else (C18_slice_producer_never_blocked). That the "
        "Go scheduler runs the worker is exercised only (each send of every burst must complete within 5 s / 10 s with no consumer)",
        "the Go memory model (visibility of close(quit), happens-before of channel operations) is taken as atomic interleaving "
        "semantics; data-race freedom of overflow / of the loop's locals is by single-goroutine ownership, not proved",
        "for bufferSize = 0 the model does not track whether a consumer is parked on chanOut: default and the rendezvous are "
        "both offered at the inner select (over-approximation; safe for the safety clauses)",
        "slice queues: the branch taken when enqueueNotification is CLOSED (enqueue = nil, drain, leave) is modelled and covered by "
        "the theorems but never executed - no code in the repository closes that channel; the callbacks' own select "
        "(`case enqueueNotification <- n: case <-quit:`) is exercised but not modelled (a hand-over abandoned because of quit is "
        "outside the queue)",
        "slice queues: the tie of the model's shape to the source is the go/ast reader (recognised variants: renamed locals, "
        "len==0 / <1 / <=0, len!=0 / >0 / >=1, if/else swapped, reslice or copy-shift, order of the two arming assignments); an "
        "unrecognised shape is a reported broken obligation, there is no behavioural fallback for the facts (the behaviour itself is "
        "run: every case drives the real loop)",
        "wallet.NotificationServer (wallet/notifications.go) is NOT modelled and NOT covered by the theorems: it has no queue (every "
        "notify* sends on the clients' unbuffered channels under the server mutex, block notifications inside the wallet's database "
        "write transaction). Order / nothing lost / nothing duplicated per client and 'Done() closes the channel' are exercised and "
        "judged by the oracle; clause (b) does not hold for it by design (observed: 0 hand-overs complete while nobody reads; recorded "
        "as tag ntfn_producer_waits_for_consumer, no oracle kind: the property is about the chain backends' queues)",
    ]

    # Files of this property that the build (coq/_CoqProject, owned by the integrator)
    # may not list yet.  While one is unlisted it is compiled here, by hand and in
    # dependency order, after the locked build; once listed this does nothing.
    UNLISTED_OK = ["Queue/SliceQueue.v", "Generated/QueueSites.v", "Queue/SliceQueueCorr.v", "Queue/SliceQueueProofs.v"]

    def run(self, tier, seed, replay=None):
        import vlib as V
        orig = V.ensure_coq

        def with_unlisted():
            r = orig()                    # sync of a scratch tree, regeneration, locked make
            self.build_unlisted()
            return r
        V.ensure_coq = with_unlisted
        try:
            return super().run(tier, seed, replay)
        finally:
            V.ensure_coq = orig

    def build_unlisted(self):
        import os
        listed = set(l.strip() for l in open(os.path.join(COQ, "_CoqProject")) if l.strip().endswith(".v"))
        missing = [f for f in self.UNLISTED_OK if f not in listed]
        with Lock("coq"):
            for f in missing:
                if not os.path.exists(os.path.join(COQ, f)):
                    continue              # extraction failed: reported by the base class
                rc, out, err = sh(["timeout", "600", "coqc", "-R", ".", "Verif", f], cwd=COQ, timeout=660)
                if rc != 0:
                    log("C18: %s does not compile: %s" % (f, (out + err)[-800:]))
                    break

    def nontrivial(self, c):
        o = c["obs"]
        if c["in"].get("q") == "ntfn":
            return c["in"]["n"] >= 2
        if c["in"].get("q"):
            return o["max_outstanding"] >= 2 or o["outstanding_at_stop"] > 0
        return o["max_outstanding"] > c["in"]["cap"] or o["outstanding_at_stop"] > 0

    def sample(self, c):
        c = dict(c)
        o = dict(c["obs"])
        if len(o["ev"]) > 120:
            o["ev"] = o["ev"][:120] + "...(%d events)" % len(c["obs"]["ev"])
            o["val"] = o["val"][:120]
        c["obs"] = o
        return c

    def render_cases(self, cases):
        def val(v):
            return cN(v if v >= 0 else 4294967295)

        def ntfn(kind, v):
            if v == -1:
                return "NilNtfn"
            return "(%s %s)" % (kind, val(v))

        rows, srows = [], []
        for idx, c in enumerate(cases):
            o = c["obs"]
            evs = []
            if c["in"].get("q"):
                # inline slice queue of the btcd / neutrino backend (Queue/SliceQueueCorr.v)
                for e, v in zip(o["ev"], o["val"]):
                    if e == "s":
                        evs.append("ESend %s" % ntfn("Other", v))
                    elif e == "c":
                        evs.append("ESend %s" % ntfn("Connected", v))
                    elif e in "ru":
                        evs.append("ERecv %s" % ntfn("Other", v))
                    elif e == "R":
                        evs.append("ERecv %s" % ntfn("Connected", v))
                    elif e == "b":
                        evs.append("EBS %s" % val(v))
                    elif e == "x":
                        evs.append("EStop")
                    elif e == "z":
                        evs.append("EClosed")
                    else:
                        raise ValueError("unknown event %r" % e)
                srows.append("(%d, (%s, %s))" % (idx, cN(c["in"].get("b0", 0)), clist(evs)))
                continue
            for e, v in zip(o["ev"], o["val"]):
                if e == "s":
                    evs.append("ESend %s" % val(v))
                elif e == "r":
                    evs.append("ERecv %s" % val(v))
                elif e == "x":
                    evs.append("EStop")
                else:
                    raise ValueError("unknown event %r" % e)
            rows.append("(%d, (%d, %s))" % (idx, c["in"]["cap"], clist(evs)))
        return """From Verif Require Import Base.Prelude Queue.Queue Queue.QueueCorr.
From Verif Require Queue.SliceQueue Queue.SliceQueueCorr.
Definition cases : list (nat * (nat * list ext)) :=
%s.
Definition bad_q := map fst (filter (fun k => negb (case_ok (snd k))) cases).
Module S.
Import Verif.Queue.SliceQueue Verif.Queue.SliceQueueCorr.
Definition cases : list (nat * (N * list ext)) :=
%s.
Definition bad := map fst (filter (fun k => negb (case_ok (snd k))) cases).
End S.
Definition bad := Eval vm_compute in (bad_q ++ S.bad).
Print bad.
""" % (clist(["\n " + r for r in rows]), clist(["\n " + r for r in srows]))


CHECK = C18
