from vlib import *


class C18(Check):
    ID = "C18"
    RULE = ("real chain.ConcurrentQueue with bufferSize in {0,1,2,5,20}. systematic (10 plans per capacity): stop at once, burst of cap+3 "
            "and of 3*cap+40 sends with no consumer then drain, stop with the overflow list non-empty, exactly-full buffer, fast and "
            "steadily-slower consumer, overflow used-emptied-used again. random: (3/4) one goroutine performs a PRNG plan of "
            "send/receive/pause ops in phases (mostly sends / mostly receives / balanced / sure burst > buffer), then drains or not, then "
            "Stop + goroutine-count probe + non-blocking drain of what chanOut still holds; (1/4) producer and consumer goroutines run "
            "concurrently with seeded pauses (slow, fast, mixed consumer; consumer may stop half-way), events logged under a mutex. "
            "every send must complete within 5 s with nobody receiving (else producer_blocked); every planned receive must deliver "
            "within 5 s (else lost_item); with nothing outstanding a 12 ms wait must deliver nothing. "
            "non-trivial = at some point more items were outstanding than the buffer holds (overflow list in use) or Stop was called "
            "with items outstanding; distinct by input (capacity, mode, plan / concurrent parameters)")
    N_QUICK = 300
    N_THOROUGH = 4000
    SHARD = 400
    ASSUMPTIONS = [
        "Go channel/select semantics as stated in the header of coq/Queue/Queue.v (a select takes any ready case, default only when "
        "none is ready, a closed channel is always ready to receive, operations on channels are atomic steps)",
        "overflow (container/list) is touched by the worker goroutine only (true in chain/queue.go: the field is unexported and "
        "used only inside Start's goroutine)",
        "script order of the concurrent-mode cases is the order in which the events were logged under the harness mutex "
        "(a send is logged after it completed, before the lock is released)",
    ]
    PARTIAL_CLAUSES = [
        "liveness under Go's scheduler is not proved: 'stopping the queue terminates its worker' is proved as - quit is an enabled "
        "case at every control point of a live worker after Stop, taking it terminates the worker, every worker-only run is bounded "
        "and ends terminated (C18_stop_terminates_partial); that select actually takes the quit case while a producer keeps sending "
        "needs fairness of select's random choice - only exercised (goroutine-count probe after Stop on every case)",
        "'the producer is never blocked' is proved as - from every reachable running state at most 2 worker steps, none involving "
        "the consumer, re-enable a send (1 for the code, where chanIn is unbuffered); that the Go scheduler runs the worker is "
        "exercised only (each send of every burst must complete within 5 s with no consumer)",
        "the Go memory model (visibility of close(quit), happens-before of channel operations) is taken as atomic interleaving "
        "semantics; data-race freedom of overflow is by single-goroutine ownership, not proved",
        "for bufferSize = 0 the model does not track whether a consumer is parked on chanOut: default and the rendezvous are "
        "both offered at the inner select (over-approximation; safe for the safety clauses)",
    ]

    def nontrivial(self, c):
        o = c["obs"]
        return o["max_outstanding"] > c["in"]["cap"] or o["outstanding_at_stop"] > 0

    def sample(self, c):
        c = dict(c)
        o = dict(c["obs"])
        if len(o["ev"]) > 120:
            o["ev"] = o["ev"][:120] + "...(%d events)" % len(c["obs"]["ev"])
            o["val"] = o["val"][:120]
        c["obs"] = o
        return c

    def render_cases(self, cases):
        def val(v):
            return cN(v if v >= 0 else 4294967295)

        rows = []
        for c in cases:
            o = c["obs"]
            evs = []
            for e, v in zip(o["ev"], o["val"]):
                if e == "s":
                    evs.append("ESend %s" % val(v))
                elif e == "r":
                    evs.append("ERecv %s" % val(v))
                elif e == "x":
                    evs.append("EStop")
                else:
                    raise ValueError("unknown event %r" % e)
            rows.append("(%d, %s)" % (c["in"]["cap"], clist(evs)))
        return """From Verif Require Import Base.Prelude Queue.Queue Queue.QueueCorr.
Definition cases : list (nat * list ext) :=
%s.
Definition bad := Eval vm_compute in mismatches cases.
Print bad.
""" % clist(["\n " + r for r in rows])


CHECK = C18
