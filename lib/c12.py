from txcommon import *


class C12(TxCheck):
    ID = "C12"
    MODE = "c12"
    LEVEL = "proof"
    MODEL_CODES = [11, 12, 13, 14, 17, 902]
    N_QUICK = 100
    N_THOROUGH = 4000
    KINDS = ["balance_differs_from_ledger", "spendable_set_differs_from_ledger", "lease_list_differs_from_ledger", "store_error"]
    RULE = ("C01's generator with lease events interleaved (LockOutput/UnlockOutput by ids 1..3 on credited, spent, unknown outpoints; "
            "durations 0.5/1/1.5/2/60 s; mock clock (hook VerifSetClock) advanced by 1,250,499,500,501,999,1000,1001,... ms so that "
            "queries fall just before/at/after the stored (second-truncated) expiry; DeleteExpiredLockedOutputs), half of the histories "
            "with a close-and-reopen of the database file at a random point. After every event: lock result class and returned expiry, "
            "balances, spendable set, ListLockedOutputs vs model and vs ledger. non-trivial = at least one successful lease and one clock advance; distinct by input")

    def nontrivial(self, c):
        evs = c["in"]["events"]
        return any(e["k"] == "lease" for e in evs) and any(e["k"] == "tick" for e in evs)

    def extra_coverage(self, cases):
        n = dict(lease_ok=0, lease_already=0, lease_unknown=0, release_notallowed=0, reopen=0)
        for c in cases:
            if c["in"].get("reopen"):
                n["reopen"] += 1
            for e, o in zip(c["in"]["events"], c["obs"]):
                l = o["out"].get("lock", "")
                if e["k"] == "lease":
                    n["lease_ok"] += l == "ok"
                    n["lease_already"] += l == "already"
                    n["lease_unknown"] += l == "unknown"
                if e["k"] == "release":
                    n["release_notallowed"] += l == "notallowed"
        d = super().extra_coverage(cases)
        d.update(lease_outcomes=n)
        return d


CHECK = C12
