from txcommon import *
import copy


class C12(TxCheck):
    ID = "C12"
    MODE = "c12"
    LEVEL = "proof"
    # 25 instead of 12: the returned expiry may be the instant asked for or the
    # stored, second-truncated one (both denote the granted lease; no theorem
    # of Properties/C12.v depends on which)
    MODEL_CODES = [11, 25, 13, 14, 17, 902]
    N_QUICK = 100
    N_THOROUGH = 4000
    KINDS = ["balance_differs_from_ledger", "spendable_set_differs_from_ledger", "lease_list_differs_from_ledger", "store_error"]
    PARTIAL_CLAUSES = ["leases survive restart: the restart is an event whose model and ledger steps are the identity "
                       "(C12_restart_step_is_identity_partial); that the real store keeps no lease state in memory is exercised "
                       "(close-and-reopen / wallet stop-and-start in the middle of leases, all observables compared afterwards), not proved"]
    RULE = ("C01's generator with lease events interleaved (LockOutput/UnlockOutput by ids 1..3 on credited, spent, unknown outpoints, "
            "half of them on an outpoint an earlier lease asked for (contention); the three ids are full-width 32-byte identifiers named by "
            "the case: independent, sharing a prefix / suffix of 1..31 bytes, differing in one byte or one bit, differing in the first / last "
            "byte only; durations 0.5/1/1.5/2/60 s; mock clock (hook VerifSetClock) advanced by 1,250,499,500,501,999,1000,1001,... ms so "
            "that queries fall just before/at/after the stored (second-truncated) expiry; DeleteExpiredLockedOutputs; 'restart' events "
            "(close and reopen the database file), a fifth of them right after a lease). A third of the cases run on a real wallet.Wallet: "
            "lease/release through Wallet.LeaseOutput/ReleaseOutput, restart = stop wallet, close file, reopen, start, and "
            "Wallet.ListLeasedOutputs must equal the store's list restricted to transactions the wallet knows (with the outputs' values). "
            "After every event: lock result class and returned expiry (the instant asked for or the stored one), balances, spendable set, "
            "ListLockedOutputs (identifiers compared on all 32 bytes) vs model and vs ledger; after a restart the lease list must equal the "
            "list before it. non-trivial = at least one successful lease and one clock advance; distinct by input")

    def nontrivial(self, c):
        evs = c["in"]["events"]
        return any(e["k"] == "lease" for e in evs) and any(e["k"] == "tick" for e in evs)

    def render_cases(self, cases):
        # a restart is the identity step of the model and of the ledger: it is
        # rendered as [Tick 0] (InvLease.restart_step_is_identity), so that
        # everything observed after it is compared with the unchanged state
        cs = []
        for c in cases:
            if any(e["k"] == "restart" for e in c["in"]["events"]):
                c = dict(c, **{"in": dict(c["in"], events=[dict(k="tick", dt=0) if e["k"] == "restart" else e
                                                           for e in c["in"]["events"]])})
            cs.append(c)
        return super().render_cases(cs)

    def extra_coverage(self, cases):
        n = dict(lease_ok=0, lease_already=0, lease_unknown=0, release_notallowed=0, reopen=0, restart_events=0,
                 restarts_with_live_lease=0, wallet_api_cases=0, wallet_lease_lists_compared=0,
                 contention_between_ids_sharing_8_bytes_or_more=0)
        for c in cases:
            if c["in"].get("reopen"):
                n["reopen"] += 1
            if c["in"].get("wallet_lease"):
                n["wallet_api_cases"] += 1
            ids = [bytes.fromhex(x) for x in c["in"].get("lockids") or []]
            owner = {}
            for e, o in zip(c["in"]["events"], c["obs"]):
                l = o["out"].get("lock", "")
                if e["k"] == "restart":
                    n["restart_events"] += 1
                    n["restarts_with_live_lease"] += bool(o["locked"])
                if o.get("wleased") is not None:
                    n["wallet_lease_lists_compared"] += 1
                if e["k"] == "lease":
                    n["lease_ok"] += l == "ok"
                    n["lease_already"] += l == "already"
                    n["lease_unknown"] += l == "unknown"
                if e["k"] == "release":
                    n["release_notallowed"] += l == "notallowed"
                if l in ("already", "notallowed") and ids:
                    cur = owner.get(tuple(e["op"]))
                    if cur and cur != e["id"] and max(cur, e["id"]) <= len(ids):
                        a, b = ids[cur - 1], ids[e["id"] - 1]
                        pre = next((i for i in range(32) if a[i] != b[i]), 32)
                        suf = next((i for i in range(32) if a[31 - i] != b[31 - i]), 32)
                        n["contention_between_ids_sharing_8_bytes_or_more"] += max(pre, suf) >= 8
                for lk in o["locked"]:
                    owner[(lk[0], lk[1])] = lk[2]
        d = super().extra_coverage(cases)
        d.update(lease_outcomes=n)
        return d


CHECK = C12
