"""C20: regenerate coq/Generated/PublishFacts.v from the repository's source.

The facts come from harness/cmd/extract-c20 (go/ast over wallet/*.go and
wtxmgr/*.go, nothing is compiled):

  * notify_failure_removes_tx: the error branch taken by
    reliablyPublishTransaction when chainClient.NotifyReceived fails removes
    the transaction it recorded just before (RemoveUnminedTx) before returning;
  * for every answer class of SendRawTransaction in publishTransaction
    (accepted, ErrTxAlreadyInMempool, ErrTxAlreadyKnown,
    ErrTxAlreadyConfirmed, any other error): does the branch call
    RemoveUnminedTx, does it return an error;
  * resendUnminedTxs ranges over Store.UnminedTxs (= DependencySort of the
    unmined records) and offers every element (no early exit);
  * RemoveUnminedTx is removeConflict.

The model Tx/Publish.v is parameterised by these facts; the theorems of
Properties/C20.v take their expected values as premises discharged by
eq_refl, so a source edit that changes one of them makes the proof side fail.
The extractor refuses shapes it does not understand; that is turned into an
exception here."""
import hashlib, json, os, re, shutil, subprocess

import vlib


class ExtractError(Exception):
    pass


def extract(repo):
    """Primary path: the source-shape reader (go/ast, nothing is compiled).
    VERIF_C20_FORCE_PROBE=1 (development aid) skips it to exercise the fallback."""
    if os.environ.get("VERIF_C20_FORCE_PROBE"):
        raise ExtractError("source reader skipped (VERIF_C20_FORCE_PROBE)")
    with vlib.Lock("go"):
        p = subprocess.run(["go", "run", "./cmd/extract-c20", repo], cwd=vlib.HARNESS, env=vlib.GOENV,
                           stdout=subprocess.PIPE, stderr=subprocess.PIPE, text=True, timeout=280)
    if p.returncode != 0:
        raise ExtractError("extract-c20 on %s (rc=%d): %s" % (repo, p.returncode, p.stderr.strip()[-1200:]))
    return json.loads(p.stdout)


def probe_facts(repo):
    """Fallback, used only when the source shape is not recognised: every fact
    is determined BEHAVIOURALLY by `c20 -probe` (harness/cmd/c20/probe.go),
    built from `repo` through the harness module with -tags verif and run on
    real wallets against internal/simchain.  Why each scenario determines its
    fact - the facts are statements about what one call does, and the scenario
    is that call:

      <class>_removes / <class>_is_error   a funded wallet authors a FRESH transaction, the backend is scripted to
          answer <class> (no error / ErrTxAlreadyInMempool / ErrTxAlreadyKnown / ErrTxAlreadyConfirmed / another
          error), PublishTransaction is called: is_error = the call returned an error; removes = the transaction is
          not in the unconfirmed store afterwards (UnminedTxHashes).  Two instances per class (spending a confirmed
          coin; chained on an accepted unconfirmed parent) that must agree.
      notify_failure_removes_tx / _is_error   the same with simchain.NotifyFail = 1 (the witness scenario of finding
          S9, corpus/C20 line 1, C20_refuted_notify_failure); four instances (fresh/chained x scripted accept/reject);
          additionally no SendRawTransaction call may happen.
      records_before_broadcast   hooks on the backend's NotifyReceived and SendRawTransaction look into the store at
          the moment of the call: true iff in all ten class instances the transaction is already recorded when the
          subscription is requested, the subscription precedes the (single) broadcast, and it is still recorded then.
      remove_unmined_is_remove_conflict   parent -> child -> grandchild all recorded; the parent is re-published and
          refused with a class that removes: true iff child and grandchild are gone too (two wallets).
      resend_uses_dependency_sort   six wallets (different txids and Go map orders) with that chain plus an independent
          unconfirmed payment, three VerifResendUnminedTxs each: true iff a child is never offered before its parent
          (the store order by txid would do so with probability 5/6 per wallet).
      resend_offers_every_element   a refusing answer (rejected / already known) at each of the four positions of the
          re-broadcast: true iff every transaction that was unconfirmed before the loop is offered exactly once.

    Instances that disagree, or a harness that does not build, make this path fail."""
    with vlib.Lock("go"):
        os.makedirs(os.path.join(vlib.WORK, "bin"), exist_ok=True)
        modflag = []
        if repo == "/repo":
            shutil.copyfile(os.path.join(repo, "go.sum"), os.path.join(vlib.HARNESS, "go.sum"))
        else:
            alt = os.path.join(vlib.WORK, "extract_c20_%s.mod" % hashlib.sha1(repo.encode()).hexdigest()[:8])
            txt = open(os.path.join(vlib.HARNESS, "go.mod")).read().replace("=> /repo", "=> " + repo)
            open(alt, "w").write(txt)
            shutil.copyfile(os.path.join(repo, "go.sum"), alt[:-4] + ".sum")
            modflag = ["-modfile=" + alt]
        exe = os.path.join(vlib.WORK, "bin", "extract-c20-probe")
        p = subprocess.run(["go", "build"] + modflag + ["-tags", "verif", "-o", exe, "./cmd/c20"], cwd=vlib.HARNESS,
                           env=vlib.GOENV, stdout=subprocess.PIPE, stderr=subprocess.PIPE, text=True, timeout=900)
        if p.returncode != 0:
            raise ExtractError("probe: harness/cmd/c20 does not build against %s: %s" % (repo, (p.stdout + p.stderr)[-1200:]))
    p = subprocess.run([exe, "-probe"], cwd=vlib.WORK, env=vlib.GOENV, stdout=subprocess.PIPE, stderr=subprocess.PIPE,
                       text=True, timeout=300)
    if p.returncode != 0:
        raise ExtractError("probe: c20 -probe failed: %s" % p.stderr.strip()[-1200:])
    return json.loads(p.stdout)


def sanitize(s):
    return re.sub(r"\s+", " ", s.replace("(*", "( *").replace("*)", "* )"))


def b(x):
    return "true" if x else "false"


CLASSES = [("accepted", "accepted", "SendRawTransaction returned no error"),
           ("in_mempool", "in_mempool", "chain.ErrTxAlreadyInMempool"),
           ("already_known", "already_known", "chain.ErrTxAlreadyKnown"),
           ("already_confirmed", "already_confirmed", "chain.ErrTxAlreadyConfirmed"),
           ("other", "rejected", "any other error")]


def render(res, source_line):
    rows = []
    for key, name, what in CLASSES:
        a = res["classes"][key]
        rows.append("(* %s: %s *)\nDefinition %s_removes : bool := %s.\nDefinition %s_is_error : bool := %s." % (
            what, a["where"], name, b(a["removes"]), name, b(a["is_error"])))
    return """(* GENERATED by lib/extract_c20.py (harness/cmd/extract-c20, go/ast) from the
   repository's wallet/wallet.go and wtxmgr/{tx,unconfirmed}.go.
   Do not edit; bin/extract rewrites it. *)
(* facts source: %s *)

(* reliablyPublishTransaction records the transaction (addRelevantTx with a nil
   block) before NotifyReceived, and broadcasts (publishTransaction) after it *)
Definition records_before_broadcast : bool := %s.

(* the error branch after a failed NotifyReceived (%s) removes the
   recorded transaction (RemoveUnminedTx) before it returns *)
Definition notify_failure_removes_tx : bool := %s.
Definition notify_failure_is_error : bool := %s.

(* publishTransaction: per answer class of SendRawTransaction, does the branch
   call RemoveUnminedTx / return an error *)
%s

(* resendUnminedTxs (%s) ranges over Store.UnminedTxs = DependencySort(unmined)
   and calls publishTransaction on every element (no break / return in the loop) *)
Definition resend_uses_dependency_sort : bool := %s.
Definition resend_offers_every_element : bool := %s.

(* RemoveUnminedTx (%s) is `return s.removeConflict(ns, rec)` *)
Definition remove_unmined_is_remove_conflict : bool := %s.
""" % (source_line, b(res["records_before_broadcast"]), res["notify_where"], b(res["notify_failure_removes_tx"]),
       b(res["notify_failure_is_error"]), "\n".join(rows), res["resend_where"],
       b(res["resend_uses_dependency_sort"]), b(res["resend_offers_every_element"]),
       res["remove_where"], b(res["remove_unmined_is_remove_conflict"]))


def main(repo, outdir, write_if_changed):
    try:
        res = extract(repo)
        source_line = "source (go/ast shape reader harness/cmd/extract-c20)"
    except (ExtractError, OSError, ValueError, KeyError, subprocess.SubprocessError) as e1:
        why = sanitize(str(e1).replace(repo.rstrip("/") + "/", ""))
        try:
            res = probe_facts(repo)
        except (ExtractError, OSError, ValueError, KeyError, subprocess.SubprocessError) as e2:
            raise ExtractError("source shape not recognised (%s) AND probing the built code failed (%s)" % (e1, e2))
        source_line = ("probe (source shape not recognised: %s; facts determined by %d wallet scenarios run on the code "
                       "built from the repository, harness/cmd/c20 -probe)" % (why[-300:], res.get("scenarios", 0)))
    write_if_changed(os.path.join(outdir, "PublishFacts.v"), render(res, source_line))
