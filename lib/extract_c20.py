"""C20: regenerate coq/Generated/PublishFacts.v from the repository's source.

The facts come from harness/cmd/extract-c20 (go/ast over wallet/*.go and
wtxmgr/*.go, nothing is compiled):

  * notify_failure_removes_tx: the error branch taken by
    reliablyPublishTransaction when chainClient.NotifyReceived fails removes
    the transaction it recorded just before (RemoveUnminedTx) before returning;
  * for every answer class of SendRawTransaction in publishTransaction
    (accepted, ErrTxAlreadyInMempool, ErrTxAlreadyKnown,
    ErrTxAlreadyConfirmed, any other error): does the branch call
    RemoveUnminedTx, does it return an error;
  * resendUnminedTxs ranges over Store.UnminedTxs (= DependencySort of the
    unmined records) and offers every element (no early exit);
  * RemoveUnminedTx is removeConflict.

  * from package chain (always from the source, there is no fallback for
    this part): the list of EVERY exported error sentinel (RPCErr constants
    with their index, errors.New variables) and the substring tables that
    MapRPCErr matches a node's text against (text of every RPCErr,
    Bitcoind28ErrMap, BtcdErrMap, BtcdErrMapPre2402);
  * for every one of these sentinels: the branch of publishTransaction that
    an error which Is it takes (sentinel_table).

The sentinel list is also written to <work>/c20_sentinels.json: the harness
(cmd/c20) sends every sentinel of it, and the behavioural fallback below
probes every one of them - a class the source reader refuses is never a class
the probe does not try.

The model Tx/Publish.v is parameterised by these facts; the theorems of
Properties/C20.v take their expected values as premises discharged by
eq_refl, so a source edit that changes one of them makes the proof side fail.
The extractor refuses shapes it does not understand; that is turned into an
exception here."""
import hashlib, json, os, re, shutil, subprocess

import vlib


class ExtractError(Exception):
    pass


SENTINELS_FILE = "c20_sentinels.json"


def extract_chain(repo):
    """Sentinels and MapRPCErr tables of package chain (go/ast).  No fallback:
    a declaration that is not understood is a broken obligation."""
    with vlib.Lock("go"):
        p = subprocess.run(["go", "run", "./cmd/extract-c20", "-chain", repo], cwd=vlib.HARNESS, env=vlib.GOENV,
                           stdout=subprocess.PIPE, stderr=subprocess.PIPE, text=True, timeout=280)
    if p.returncode != 0:
        raise ExtractError("extract-c20 -chain on %s (rc=%d): %s" % (repo, p.returncode, p.stderr.strip()[-1200:]))
    ch = json.loads(p.stdout)
    for rows in ch["tables"].values():
        for k, v in rows:
            if not all(32 <= ord(c) < 127 for c in k):
                raise ExtractError("non-ASCII key %r in a MapRPCErr table" % k)
    return ch


def write_sentinels(ch):
    os.makedirs(vlib.WORK, exist_ok=True)
    path = os.path.join(vlib.WORK, SENTINELS_FILE)
    tmp = "%s.%d.tmp" % (path, os.getpid())
    with open(tmp, "w") as f:
        json.dump(ch, f, sort_keys=True)
    os.replace(tmp, path)


def extract(repo):
    """Primary path: the source-shape reader (go/ast, nothing is compiled).
    VERIF_C20_FORCE_PROBE=1 (development aid) skips it to exercise the fallback."""
    if os.environ.get("VERIF_C20_FORCE_PROBE"):
        raise ExtractError("source reader skipped (VERIF_C20_FORCE_PROBE)")
    with vlib.Lock("go"):
        p = subprocess.run(["go", "run", "./cmd/extract-c20", repo], cwd=vlib.HARNESS, env=vlib.GOENV,
                           stdout=subprocess.PIPE, stderr=subprocess.PIPE, text=True, timeout=280)
    if p.returncode != 0:
        raise ExtractError("extract-c20 on %s (rc=%d): %s" % (repo, p.returncode, p.stderr.strip()[-1200:]))
    return json.loads(p.stdout)


def probe_facts(repo):
    """Fallback, used only when the source shape is not recognised: every fact
    is determined BEHAVIOURALLY by `c20 -probe` (harness/cmd/c20/probe.go),
    built from `repo` through the harness module with -tags verif and run on
    real wallets against internal/simchain.  Why each scenario determines its
    fact - the facts are statements about what one call does, and the scenario
    is that call:

      <class>_removes / <class>_is_error   a funded wallet authors a FRESH transaction, the backend is scripted to
          answer <class> (no error / ErrTxAlreadyInMempool / ErrTxAlreadyKnown / ErrTxAlreadyConfirmed / another
          error), PublishTransaction is called: is_error = the call returned an error; removes = the transaction is
          not in the unconfirmed store afterwards (UnminedTxHashes).  Two instances per class (spending a confirmed
          coin; chained on an accepted unconfirmed parent) that must agree.
      sentinel_table   the same for EVERY sentinel of the list regenerated from package chain (c20_sentinels.json),
          four fresh transactions per sentinel in one wallet: answered with the sentinel itself, with
          fmt.Errorf("..%w", sentinel) twice, and with the sentinel again; all four must agree.  So a new answer
          class in publishTransaction (say, keep the transaction and return the error on ErrMempoolMinFeeNotMet),
          which the source reader refuses, is reported here as that sentinel's action and then fails
          C20_every_sentinel_by_class - the fallback never stays silent about a class it does not try.
      notify_failure_removes_tx / _is_error   the same with simchain.NotifyFail = 1 (the witness scenario of finding
          S9, corpus/C20 line 1, C20_refuted_notify_failure); four instances (fresh/chained x scripted accept/reject);
          additionally no SendRawTransaction call may happen.
      records_before_broadcast   hooks on the backend's NotifyReceived and SendRawTransaction look into the store at
          the moment of the call: true iff in all ten class instances the transaction is already recorded when the
          subscription is requested, the subscription precedes the (single) broadcast, and it is still recorded then.
      remove_unmined_is_remove_conflict   parent -> child -> grandchild all recorded; the parent is re-published and
          refused with a class that removes: true iff child and grandchild are gone too (two wallets).
      resend_uses_dependency_sort   six wallets (different txids and Go map orders) with that chain plus an independent
          unconfirmed payment, three VerifResendUnminedTxs each: true iff a child is never offered before its parent
          (the store order by txid would do so with probability 5/6 per wallet).
      resend_offers_every_element   a refusing answer (rejected / already known) at each of the four positions of the
          re-broadcast: true iff every transaction that was unconfirmed before the loop is offered exactly once.

    Instances that disagree, or a harness that does not build, make this path fail."""
    with vlib.Lock("go"):
        os.makedirs(os.path.join(vlib.WORK, "bin"), exist_ok=True)
        modflag = []
        if repo == "/repo":
            shutil.copyfile(os.path.join(repo, "go.sum"), os.path.join(vlib.HARNESS, "go.sum"))
        else:
            alt = os.path.join(vlib.WORK, "extract_c20_%s.mod" % hashlib.sha1(repo.encode()).hexdigest()[:8])
            txt = open(os.path.join(vlib.HARNESS, "go.mod")).read().replace("=> /repo", "=> " + repo)
            open(alt, "w").write(txt)
            shutil.copyfile(os.path.join(repo, "go.sum"), alt[:-4] + ".sum")
            modflag = ["-modfile=" + alt]
        exe = os.path.join(vlib.WORK, "bin", "extract-c20-probe")
        p = subprocess.run(["go", "build"] + modflag + ["-tags", "verif", "-o", exe, "./cmd/c20"], cwd=vlib.HARNESS,
                           env=vlib.GOENV, stdout=subprocess.PIPE, stderr=subprocess.PIPE, text=True, timeout=900)
        if p.returncode != 0:
            raise ExtractError("probe: harness/cmd/c20 does not build against %s: %s" % (repo, (p.stdout + p.stderr)[-1200:]))
    p = subprocess.run([exe, "-probe"], cwd=vlib.WORK, env=vlib.GOENV, stdout=subprocess.PIPE, stderr=subprocess.PIPE,
                       text=True, timeout=300)
    if p.returncode != 0:
        raise ExtractError("probe: c20 -probe failed: %s" % p.stderr.strip()[-1200:])
    return json.loads(p.stdout)


def sanitize(s):
    return re.sub(r"\s+", " ", s.replace("(*", "( *").replace("*)", "* )"))


def b(x):
    return "true" if x else "false"


CLASSES = [("accepted", "accepted", "SendRawTransaction returned no error"),
           ("in_mempool", "in_mempool", "chain.ErrTxAlreadyInMempool"),
           ("already_known", "already_known", "chain.ErrTxAlreadyKnown"),
           ("already_confirmed", "already_confirmed", "chain.ErrTxAlreadyConfirmed"),
           ("other", "rejected", "any other error")]


def cstr(x):
    return '"' + x.replace('"', '""') + '"'


def render_table(name, comment, rows):
    body = ";\n    ".join("(%s, %s)" % (cstr(k), cstr(v)) for k, v in rows)
    return "(* %s *)\nDefinition %s : list (string * string) :=\n  [ %s ]." % (comment, name, body)


def render(res, ch, source_line):
    rows = []
    for key, name, what in CLASSES:
        a = res["classes"][key]
        rows.append("(* %s: %s *)\nDefinition %s_removes : bool := %s.\nDefinition %s_is_error : bool := %s." % (
            what, a["where"], name, b(a["removes"]), name, b(a["is_error"])))
    sa = res["sentinel_actions"]
    missing = [x["name"] for x in ch["sentinels"] if x["name"] not in sa]
    if missing:
        raise ExtractError("no action determined for the sentinels %s" % missing)
    # (comment first: the separator then never ends up inside a comment)
    srows = ";\n    ".join("(* %s %s; branch: %s *) (%s, (%s, %s))" % (
        ("RPCErr(%d)" % x["index"]) if x["kind"] == "rpcerr" else "errors.New", x["where"], sa[x["name"]]["where"],
        cstr(x["name"]), b(sa[x["name"]]["removes"]), b(sa[x["name"]]["is_error"])) for x in ch["sentinels"])
    t = ch["tables"]
    tables = "\n\n".join([
        render_table("map_bitcoind", "BitcoindClient.MapRPCErr: RPCErr(i).Error() for i = 0 .. errSentinel-1, in this order", t["bitcoind"]),
        render_table("map_bitcoind28", "Bitcoind28ErrMap", t["bitcoind28"]),
        render_table("map_btcd", "BtcdErrMap (RPCClient.MapRPCErr, NeutrinoClient.MapRPCErr)", t["btcd"]),
        render_table("map_btcd_pre2402", "BtcdErrMapPre2402 (btcd older than 0.24.2, neutrino)", t["btcd_pre2402"])])
    return """(* GENERATED by lib/extract_c20.py (harness/cmd/extract-c20, go/ast) from the
   repository's wallet/wallet.go, wtxmgr/{tx,unconfirmed}.go and chain/*.go.
   Do not edit; bin/extract rewrites it. *)
(* facts source: %s *)
From Coq Require Import Strings.String Lists.List.
Import ListNotations.
Local Open Scope string_scope.

(* reliablyPublishTransaction records the transaction (addRelevantTx with a nil
   block) before NotifyReceived, and broadcasts (publishTransaction) after it *)
Definition records_before_broadcast : bool := %s.

(* the error branch after a failed NotifyReceived (%s) removes the
   recorded transaction (RemoveUnminedTx) before it returns *)
Definition notify_failure_removes_tx : bool := %s.
Definition notify_failure_is_error : bool := %s.

(* publishTransaction: per answer class of SendRawTransaction, does the branch
   call RemoveUnminedTx / return an error *)
%s

(* resendUnminedTxs (%s) ranges over Store.UnminedTxs = DependencySort(unmined)
   and calls publishTransaction on every element (no break / return in the loop) *)
Definition resend_uses_dependency_sort : bool := %s.
Definition resend_offers_every_element : bool := %s.

(* RemoveUnminedTx (%s) is `return s.removeConflict(ns, rec)` *)
Definition remove_unmined_is_remove_conflict : bool := %s.

(* EVERY exported error sentinel of package chain (source: chain/*.go, always
   read from the source), with the branch of publishTransaction that an error
   which Is it takes: (name, (calls RemoveUnminedTx, returns an error)) *)
Definition sentinel_table : list (string * (bool * bool)) :=
  [ %s ].

(* The substring tables of MapRPCErr (chain/errors.go): (text, sentinel) *)
%s
""" % (source_line, b(res["records_before_broadcast"]), res["notify_where"], b(res["notify_failure_removes_tx"]),
       b(res["notify_failure_is_error"]), "\n".join(rows), res["resend_where"],
       b(res["resend_uses_dependency_sort"]), b(res["resend_offers_every_element"]),
       res["remove_where"], b(res["remove_unmined_is_remove_conflict"]), srows, tables)


def main(repo, outdir, write_if_changed):
    # the sentinels: from the source or not at all.  The list of an earlier
    # run must not survive a FAILURE; on success it is replaced atomically
    # (checks of other properties run bin/extract concurrently with a C20
    # harness that is reading the file).
    try:
        ch = extract_chain(repo)
    except Exception:
        try:
            os.remove(os.path.join(vlib.WORK, SENTINELS_FILE))
        except OSError:
            pass
        raise
    write_sentinels(ch)
    try:
        res = extract(repo)
        source_line = "source (go/ast shape reader harness/cmd/extract-c20)"
    except (ExtractError, OSError, ValueError, KeyError, subprocess.SubprocessError) as e1:
        why = sanitize(str(e1).replace(repo.rstrip("/") + "/", ""))
        try:
            res = probe_facts(repo)
        except (ExtractError, OSError, ValueError, KeyError, subprocess.SubprocessError) as e2:
            raise ExtractError("source shape not recognised (%s) AND probing the built code failed (%s)" % (e1, e2))
        source_line = ("probe (source shape not recognised: %s; facts determined by %d wallet scenarios run on the code "
                       "built from the repository, harness/cmd/c20 -probe)" % (why[-300:], res.get("scenarios", 0)))
    write_if_changed(os.path.join(outdir, "PublishFacts.v"), render(res, ch, source_line))
