"""C03 - every issued address is the seed's BIP32 child and the wallet can sign for it."""
from vlib import *

FMT = {"p2pkh": "P2PKH", "np2wkh": "NP2WKH", "p2wkh": "P2WKH", "p2tr": "P2TR"}
ERR = {"locked": "ELocked", "watching": "EWatching", "addr_not_found": "EAddrNotFound", "acct_not_found": "EAcctNotFound",
       "scope_not_found": "EScopeNotFound", "crypto": "ECrypto", "not_cached": "ENotCached", "not_priv": "ENotPriv",
       "duplicate": "EDuplicate", "too_many": "ETooMany", "wrong_pass": "EWrongPass", "keychain": "EKeyChain",
       "other": "EOther", "panic": "EPanic"}

NONTRIVIAL_TAGS = {"probe_extended_address", "probe_created_locked_then_unlocked", "probe_after_restart",
                   "imported_account_address", "derive_locked", "recreated_compared"}


def n(x):
    return "%d%%N" % x


def scope(s):
    return "(%s, %s)" % (n(s[0]), n(s[1]))


def schema(s):
    return "(mkSchema %s %s)" % (FMT[s[0]], FMT[s[1]])


def skey(root, ident, cn, path):
    r = {"seed": "RSeed %s" % n(ident), "xpub": "RXpub %s %s" % (n(ident), n(cn)), "imp": "RImp %s" % n(ident)}[root]
    return "(mkKey (%s) %s)" % (r, clist(["(%s, %s)" % (n(i), cbool(bool(h))) for i, h in path]))


def keyref(k):
    """option skey of a projected key"""
    if k is None or k["root"] == "unknown":
        return None
    return skey(k["root"], k["id"], k.get("cn", 0), k["path"])


def dpath(p):
    return "(mkPath %s %s %s %s %s)" % tuple(n(x) for x in p)


def target(seed, o):
    """the symbolic address of a lookup / markused"""
    if o["root"] == "script":
        return "(AScriptHash %s)" % n(o["script"])
    if o["root"] == "imp":
        k = skey("imp", o["key"], 0, [])
    elif o["root"] == "xpub":
        k = skey("xpub", o["xpub"], o["cn"], [(o["branch"], 0), (o["index"], 0)])
    else:
        k = skey("seed", seed, 0, [(o["scope"][0], 1), (o["scope"][1], 1), (o["account"], 1), (o["branch"], 0), (o["index"], 0)])
    return "(AKey %s (Pub %s))" % (FMT[o["fmt"]], k)


def r_op(seed, o):
    k = o["op"]
    if k == "open":
        return "OOpen"
    if k == "unlock":
        return "OUnlock %s" % n(o["pass"])
    if k == "lock":
        return "OLock"
    if k == "chpass":
        return "OChangePass %s %s" % (n(o["pass"]), n(o["newpass"]))
    if k == "newscope":
        return "ONewScope %s %s" % (scope(o["scope"]), schema(o["schema"]))
    if k == "newacct":
        return "ONewAccount %s %s" % (scope(o["scope"]), n(o["name"]))
    if k == "importxpub":
        return "OImportXpub %s %s %s %s %s %s" % (scope(o["scope"]), n(o["name"]), n(o["xpub"]), n(o["cn"]), n(o["fp"]),
                                                  copt(schema(o["schema"]) if o.get("schema") else None))
    if k == "next":
        return "ONext %s %s %s %s" % (scope(o["scope"]), n(o["account"]), cbool(o["internal"]), n(o["n"]))
    if k == "extend":
        return "OExtend %s %s %s %s" % (scope(o["scope"]), n(o["account"]), cbool(o["internal"]), n(o["n"]))
    if k == "lookup":
        return "OLookup %s" % target(seed, o)
    if k == "markused":
        return "OMarkUsed %s" % target(seed, o)
    if k in ("derive", "derivecache"):
        return "%s %s %s" % ("ODerive" if k == "derive" else "ODeriveCache", scope(o["scope"]),
                             dpath([o["account"], o["acct_child"], o["branch"], o["index"], o["fp"]]))
    if k == "importkey":
        return "OImportKey %s %s" % (scope(o["scope"]), n(o["key"]))
    if k == "importscript":
        return "OImportScript %s %s" % (scope(o["scope"]), n(o["script"]))
    if k == "props":
        return "OProps %s %s" % (scope(o["scope"]), n(o["account"]))
    if k == "priv":
        return "OPriv %d" % max(o["handle"], 0)
    if k == "script":
        return "OScript %d" % max(o["handle"], 0)
    raise ValueError("op " + k)


def r_priv(p):
    if p == "ok":
        return "IPOk"
    if p == "mismatch":
        return "IPMismatch"
    return "(IPErr %s)" % ERR[p.split(":", 1)[1]]


def r_addr(a):
    if a["kind"] == "script":
        v = a["scriptv"]
        sv = "ISOk" if v == "ok" else ("ISChanged" if v == "changed" else "(ISErr %s)" % ERR[v.split(":", 1)[1]])
        return "IScr %s %s" % (copt(n(a["script"]) if a["script"] >= 0 else None), sv)
    k = keyref(a["key"])
    return ("IKey (mkIInfo %s %s %s %s %s %s %s %s %s)" % (
        scope(a["dscope"]), dpath(a["dpath"]), cbool(a["known"]), n(a["iacct"]),
        copt(FMT.get(a["fmt"])), copt("(Pub %s)" % k if k else None),
        cbool(a["internal"]), cbool(a["imported"]), r_priv(a["priv"])))


def r_out(o):
    k = o["kind"]
    if k == "ok":
        return "IOk"
    if k == "err":
        return "IErr %s" % ERR[o["err"]]
    if k == "addrs":
        return "IAddrs %s" % clist([r_addr(a) for a in o["addrs"]])
    if k == "props":
        return "IProps %s %s" % (n(o["props"][0]), n(o["props"][1]))
    if k == "acct":
        return "IAcct %s" % n(o["acct"])
    if k == "key":
        kk = keyref(o.get("key"))
        return "IKeyOut %s" % copt("(Priv %s)" % kk if kk else None)
    if k == "script":
        return "IScriptOut %s" % copt(n(o["script"]) if o["script"] >= 0 else None)
    raise ValueError("result " + k)


def r_case(c):
    i = c["in"]
    rows = ["\n   (%s,\n    %s)" % (r_op(i["seed"], o), r_out(r)) for o, r in zip(i["ops"], c["obs"])]
    return "mkCase %s %s %s" % (n(i["seed"]), n(i["pass"]), clist(rows))


class C03(Check):
    ID = "C03"
    RULE = ("the real waddrmgr (Create with a chosen seed, Open, over a bbolt file) driven through 9 scripted situations and random histories of "
            "10..45 operations over 5 seeds (24 in the thorough tier), the four default key scopes plus a custom scope, accounts 0..4 and "
            "imported xpub accounts with and without a schema override: Next{External,Internal}Addresses, Extend*, Manager.Address of issued "
            "and not-issued addresses, DeriveFromKeyPath(Cache), MarkUsed, Lock/Unlock (right and wrong passphrase), ChangePassphrase, "
            "NewAccount, NewAccountWatchingOnly, NewScopedKeyManager, ImportPrivateKey, ImportScript, restart; every returned address, public "
            "and private key is mapped to a derivation path by the independent oracle (own BIP32 + legacy hardened rule + address encoders) "
            "and PrivKey()/DerivationInfo()/Internal()/InternalAccount() are read after every operation; every 4th history is followed by a "
            "wallet re-created from the same seed.  non-trivial = the history probed a private key of an address that was extended, created "
            "while locked and unlocked later, or reloaded after a restart, or issued an imported-account address, or was compared with a "
            "re-created wallet; distinct by input")
    N_QUICK = 200
    N_THOROUGH = 1500
    SHARD = 40
    ASSUMPTIONS = [
        "keys are symbolic (root + path); the BIP32 law pub(CKDpriv(k,i)) = CKDpub(pub(k),i) for unhardened i holds by construction; "
        "which bytes a path denotes is decided by the harness' independent oracle, not by a theorem",
        "invalid BIP32 children (probability 2^-127 per step) are not modelled",
        "every operation commits its database transaction; the manager is created from a seed (never watching-only at the root)",
        "Generated.AddrFacts.extend_derives_private_when_unlocked = true is a premise of the private-key theorems (discharged by eq_refl "
        "against the current source; false at the pinned commit, see C03_refuted_when_false)",
    ]
    EXTRA_TRUSTED = ["harness/internal/hdoracle (independent BIP32 + address encoders; secp256k1 group operations from btcec)",
                     "lib/extract_c03.py: the three source facts are read off the shape of scoped_manager.go / manager.go (original and "
                     "syntactically equivalent shapes); a fact whose shape is not recognised is determined by running its witness "
                     "scenarios on the waddrmgr built from the repository (harness/cmd/extract-c03: extend x {locked,unlocked} x "
                     "{seed,imported} account; first account of a new custom scope; DeriveFromKeyPathCache on a cached imported "
                     "account); evidence field facts_source says which path ran"]
    PARTIAL_CLAUSES = [
        "'hierarchical derivation from the wallet's seed yields ...' in bytes (HMAC-SHA512, secp256k1, legacy hardened rule): exercised "
        "through the oracle on every returned key, not a Coq theorem",
        "address encodings (base58check, bech32/bech32m, BIP86 tweak): exercised through independent encoders",
    ]

    def gen_args(self, tier, seed):
        nn = self.N_QUICK if tier == "quick" else self.N_THOROUGH
        return [["c03", "-n", str(nn), "-seed", str(seed), "-tier", tier]]

    def nontrivial(self, c):
        return bool(NONTRIVIAL_TAGS & set(c.get("tags", [])))

    def sample(self, c):
        return dict(seed=c["in"]["seed"], ops=c["in"]["ops"][:12], n_ops=len(c["in"]["ops"]), tags=c.get("tags"),
                    oracle=c.get("oracle"), last_result=c["obs"][-1] if c["obs"] else None)

    def extra_coverage(self, cases):
        # which path of lib/extract_c03.py produced the regenerated facts of this run
        src, detail, vals = "unknown", "", {}
        try:
            txt = open(os.path.join(COQ, "Generated", "AddrFacts.v")).read()
            m = re.search(r"\(\* facts source: (\w+)(.*?)\*\)", txt, re.S)
            if m:
                src, detail = m.group(1), re.sub(r"\s+", " ", m.group(2)).strip()
            vals = dict(re.findall(r"Definition (\w+) : bool := (true|false)\.", txt))
        except OSError:
            pass
        return dict(facts_source=src, facts_source_detail=detail, facts=vals)

    def site_of(self, case, kind):
        return (case.get("sites") or {}).get(kind, case.get("site", "*"))

    def extend_priv(self):
        txt = open(os.path.join(COQ, "Generated", "AddrFacts.v")).read()
        m = re.search(r"Definition extend_derives_private_when_unlocked : bool := (true|false)\.", txt)
        return m.group(1) if m else "true"

    def render_cases(self, cases):
        return """From Verif Require Import Base.Prelude Addr.Keys Addr.Mgr Addr.MgrCorr Generated.AddrFacts.
Local Open Scope N_scope.
Definition cases : list acase :=
%s.
Definition source := mkFacts extend_derives_private_when_unlocked new_scope_stores_last_account
                              derive_cache_checks_account_key.
Definition bad := Eval vm_compute in mismatches source cases.
Print bad.
Definition where_ := Eval vm_compute in diffs_from source 0 cases.
Print where_.
""" % clist(["\n " + r_case(c) for c in cases])

    def evaluate_model(self, cases):
        import concurrent.futures as cf
        mism, logs, problems = [], "", []
        shards = [(s, cases[s:s + self.SHARD]) for s in range(0, len(cases), self.SHARD)]

        def run(sh):
            start, chunk = sh
            return start, coq_eval(self.ID, self.render_cases(chunk), "cases_%d" % start)
        with cf.ThreadPoolExecutor(max_workers=12) as ex:
            results = list(ex.map(run, shards))
        self.first_diff = {}
        for start, (rc, out, err) in results:
            logs += out[-1500:] + err[-1500:]
            if rc != 0:
                problems.append("correspondence: cases file does not evaluate: " + (err or out)[-1500:])
                continue
            bad = parse_nat_list(parse_printed(out, "bad"))
            if bad is None:
                problems.append("correspondence: could not parse model output: " + out[-500:])
                continue
            mism.extend(start + b for b in bad)
            w = parse_printed(out, "where_")
            nums = [int(x) for x in re.findall(r"\d+", w or "")]
            for j in range(0, len(nums) - 1, 2):
                self.first_diff[start + nums[j]] = nums[j + 1]
        for ci in mism:
            j = self.first_diff.get(ci)
            if j is not None and j < len(cases[ci]["in"]["ops"]):
                cases[ci]["model_differs_at"] = dict(op_index=j, op=cases[ci]["in"]["ops"][j], impl=cases[ci]["obs"][j])
        return mism, logs, problems

    # -- shrinking: delta debugging over the operation list, re-running the real code
    def shrink(self, case, kind):
        ops = list(case["in"]["ops"])
        best = case

        def try_ops(cand):
            inp = dict(case["in"], ops=cand)
            p = os.path.join(WORK, self.ID, "shrink_in.jsonl")
            os.makedirs(os.path.dirname(p), exist_ok=True)
            with open(p, "w") as f:
                f.write(json.dumps({"in": inp}) + "\n")
            rc, cs, err = run_vh(["c03", "-replay", p], timeout=120)
            if rc == 0 and cs and kind in cs[0].get("oracle", []):
                return cs[0]
            return None
        chunk = max(len(ops) // 2, 1)
        budget = 120
        while chunk >= 1 and budget > 0:
            i, progressed = 0, False
            while i < len(ops) and budget > 0:
                cand = ops[:i] + ops[i + chunk:]
                budget -= 1
                got = try_ops(cand) if cand else None
                if got is not None:
                    ops, best, progressed = cand, got, True
                else:
                    i += chunk
            if not progressed:
                chunk //= 2
        return best


CHECK = C03
