"""C03 - every issued address is the seed's BIP32 child and the wallet can sign for it."""
from vlib import *

FMT = {"p2pkh": "P2PKH", "np2wkh": "NP2WKH", "p2wkh": "P2WKH", "p2tr": "P2TR"}
ERR = {"locked": "ELocked", "watching": "EWatching", "addr_not_found": "EAddrNotFound", "acct_not_found": "EAcctNotFound",
       "scope_not_found": "EScopeNotFound", "crypto": "ECrypto", "not_cached": "ENotCached", "not_priv": "ENotPriv",
       "duplicate": "EDuplicate", "too_many": "ETooMany", "wrong_pass": "EWrongPass", "keychain": "EKeyChain",
       "other": "EOther", "panic": "EPanic"}

NONTRIVIAL_TAGS = {"probe_extended_address", "probe_created_locked_then_unlocked", "probe_after_restart",
                   "imported_account_address", "derive_locked", "recreated_compared", "derive_hardened_derived",
                   "importkey_uncompressed", "importscript_public", "chpubpass"}
NONTRIVIAL_PREFIXES = ("divergent_step_exercised:", "importpub:", "importscript:")
SKIND = {"": 0, None: 0, "wsh": 1, "tr": 2}


def script_no(ident, skind):
    """the model's script number names the script bytes AND the kind of address"""
    return ident * 4 + SKIND[skind]


def n(x):
    return "%d%%N" % x


def scope(s):
    return "(%s, %s)" % (n(s[0]), n(s[1]))


def schema(s):
    return "(mkSchema %s %s)" % (FMT[s[0]], FMT[s[1]])


def skey(root, ident, cn, path):
    r = {"seed": "RSeed %s" % n(ident), "xpub": "RXpub %s %s" % (n(ident), n(cn)), "imp": "RImp %s" % n(ident),
         "imppub": "RImpPub %s" % n(ident)}[root]
    return "(mkKey (%s) %s)" % (r, clist(["(%s, %s)" % (n(i), cbool(bool(h))) for i, h in path]))


def keyref(k):
    """option skey of a projected key"""
    if k is None or k["root"] == "unknown":
        return None
    return skey(k["root"], k["id"], k.get("cn", 0), k["path"])


def dpath(p):
    return "(mkPath %s %s %s %s %s)" % tuple(n(x) for x in p)


def raw_step(x):
    """raw uint32 child number -> (index, hardened)"""
    return (x - 2 ** 31, 1) if x >= 2 ** 31 else (x, 0)


def target(seed, o):
    """the symbolic address of a lookup / markused"""
    if o["root"] == "script":
        return "(AScriptHash %s)" % n(script_no(o["script"], o.get("skind")))
    if o["root"] in ("imp", "imppub"):
        k = skey(o["root"], o["key"], 0, [])
    elif o["root"] == "xpub":
        k = skey("xpub", o["xpub"], o["cn"], [raw_step(o["branch"]), raw_step(o["index"])])
    else:
        k = skey("seed", seed, 0, [(o["scope"][0], 1), (o["scope"][1], 1), (o["account"], 1), raw_step(o["branch"]), raw_step(o["index"])])
    return "(AKey %s (Pub %s))" % (FMT[o["fmt"]], k)


def r_op(seed, o):
    k = o["op"]
    if k == "open":
        return "OOpen"
    if k == "unlock":
        return "OUnlock %s" % n(o["pass"])
    if k == "lock":
        return "OLock"
    if k == "chpass":
        return "OChangePass %s %s" % (n(o["pass"]), n(o["newpass"]))
    if k == "chpubpass":
        return "OChangePubPass %s %s" % (n(o["pass"]), n(o["newpass"]))
    if k == "importpub":
        return "OImportPub %s %s" % (scope(o["scope"]), n(o["key"]))
    if k == "importwscript":
        return "OImportScript %s %s %s" % (scope(o["scope"]), n(script_no(o["script"], o.get("skind"))), cbool(bool(o.get("secret"))))
    if k == "newscope":
        return "ONewScope %s %s" % (scope(o["scope"]), schema(o["schema"]))
    if k == "newacct":
        return "ONewAccount %s %s" % (scope(o["scope"]), n(o["name"]))
    if k == "importxpub":
        return "OImportXpub %s %s %s %s %s %s" % (scope(o["scope"]), n(o["name"]), n(o["xpub"]), n(o["cn"]), n(o["fp"]),
                                                  copt(schema(o["schema"]) if o.get("schema") else None))
    if k == "next":
        return "ONext %s %s %s %s" % (scope(o["scope"]), n(o["account"]), cbool(o["internal"]), n(o["n"]))
    if k == "extend":
        return "OExtend %s %s %s %s" % (scope(o["scope"]), n(o["account"]), cbool(o["internal"]), n(o["n"]))
    if k == "lookup":
        return "OLookup %s" % target(seed, o)
    if k == "markused":
        return "OMarkUsed %s" % target(seed, o)
    if k in ("derive", "derivecache"):
        return "%s %s %s" % ("ODerive" if k == "derive" else "ODeriveCache", scope(o["scope"]),
                             dpath([o["account"], o["acct_child"], o["branch"], o["index"], o["fp"]]))
    if k == "importkey":
        return "OImportKey %s %s" % (scope(o["scope"]), n(o["key"]))
    if k == "importscript":
        return "OImportScript %s %s true" % (scope(o["scope"]), n(script_no(o["script"], "")))
    if k == "props":
        return "OProps %s %s" % (scope(o["scope"]), n(o["account"]))
    if k == "priv":
        return "OPriv %d" % max(o["handle"], 0)
    if k == "script":
        return "OScript %d" % max(o["handle"], 0)
    raise ValueError("op " + k)


def r_priv(p):
    if p == "ok":
        return "IPOk"
    if p == "mismatch":
        return "IPMismatch"
    return "(IPErr %s)" % ERR[p.split(":", 1)[1]]


def r_addr(a):
    if a["kind"] == "script":
        v = a["scriptv"]
        sv = "ISOk" if v == "ok" else ("ISChanged" if v == "changed" else "(ISErr %s)" % ERR[v.split(":", 1)[1]])
        return "IScr %s %s" % (copt(n(script_no(a["script"], a.get("skind"))) if a["script"] >= 0 else None), sv)
    k = keyref(a["key"])
    return ("IKey (mkIInfo %s %s %s %s %s %s %s %s %s)" % (
        scope(a["dscope"]), dpath(a["dpath"]), cbool(a["known"]), n(a["iacct"]),
        copt(FMT.get(a["fmt"])), copt("(Pub %s)" % k if k else None),
        cbool(a["internal"]), cbool(a["imported"]), r_priv(a["priv"])))


def r_out(o):
    k = o["kind"]
    if k == "ok":
        return "IOk"
    if k == "err":
        return "IErr %s" % ERR[o["err"]]
    if k == "addrs":
        return "IAddrs %s" % clist([r_addr(a) for a in o["addrs"]])
    if k == "props":
        return "IProps %s %s" % (n(o["props"][0]), n(o["props"][1]))
    if k == "acct":
        return "IAcct %s" % n(o["acct"])
    if k == "key":
        kk = keyref(o.get("key"))
        return "IKeyOut %s" % copt("(Priv %s)" % kk if kk else None)
    if k == "script":
        return "IScriptOut %s" % copt(n(script_no(o["script"], o.get("skind"))) if o["script"] >= 0 else None)
    raise ValueError("result " + k)


def r_case(c):
    i = c["in"]
    # an operation the harness did not run (kind "skipped": a count of millions that the
    # wallet would have accepted) happened neither in the implementation nor in the model
    rows = ["\n   (%s,\n    %s)" % (r_op(i["seed"], o), r_out(r)) for o, r in zip(i["ops"], c["obs"]) if r["kind"] != "skipped"]
    return "mkCase %s %s %s" % (n(i["seed"]), n(i["pass"]), clist(rows))


class C03(Check):
    ID = "C03"
    RULE = ("the real waddrmgr (Create with a chosen seed, Open, over a bbolt file) driven through 16 scripted situations, the corpus "
            "(corpus/C03: one fixed history per hardened derivation step on 24 seeds with a leading-zero parent key at the master / purpose / "
            "coin-type / account / branch level, plus the witnesses of the repaired defects) and random histories of 10..45 operations over 5 "
            "random seeds + 3 of the leading-zero seeds per run (24 + all in the thorough tier), the four default key scopes plus a custom "
            "scope, accounts 0..4 and imported xpub accounts with and without a schema override: Next{External,Internal}Addresses (incl. "
            "count 0 and counts beyond MaxAddressesPerAccount), Extend*, Manager.Address of issued and not-issued addresses, "
            "DeriveFromKeyPath(Cache) incl. hardened branch/index requests, MarkUsed, Lock/Unlock (right and wrong passphrase), "
            "ChangePassphrase private and public (followed by restart and re-derivation), NewAccount, NewAccountWatchingOnly, "
            "NewScopedKeyManager, ImportPrivateKey (compressed and uncompressed WIF), ImportPublicKey (every address type), ImportScript, "
            "ImportWitnessScript, ImportTaprootScript (secret and public), restart.  ORACLE: for the REQUEST (scope, account, branch, index) "
            "harness/internal/hdoracle derives the key the specification assigns to it (own BIP32; the rule of every hardened step from the "
            "table in spec.go, exactly one key per path - a key made with the other rule is a violation, wrong_hardened_rule) and compares "
            "address, format, public key, reported DerivationInfo/Internal/InternalAccount; every private key the wallet returns is checked "
            "to be that key's private key, to have PubKey() as its public key (computed by the oracle) and to encode to Address() in the "
            "reported address type (P2PKH/NP2WKH/P2WKH/BIP86 P2TR); every 4th history (every corpus history) is followed by a SECOND wallet "
            "created from the same seed with other passphrases and creation time, whose addresses are compared one by one with the oracle's "
            "and the first wallet's.  non-trivial = the history probed a private key of an address that was extended, created while locked "
            "and unlocked later, or reloaded after a restart, issued an imported-account address, was compared with a re-created wallet, "
            "walked a hardened step below a leading-zero parent, derived a hardened branch/index, or imported a public key / uncompressed "
            "WIF / witness or taproot script; distinct by input")
    N_QUICK = 200
    N_THOROUGH = 1500
    SHARD = 40
    ASSUMPTIONS = [
        "keys are symbolic (root + path); the BIP32 law pub(CKDpriv(k,i)) = CKDpub(pub(k),i) for unhardened i holds by construction; "
        "which bytes a path denotes is decided by the harness' independent oracle, not by a theorem",
        "a name denotes the key the SPECIFICATION assigns to the path (Keys.spec_rule = hdoracle.WalletRule: purpose step BIP32, coin step "
        "legacy, account 0 legacy, later accounts BIP32, hardened branch BIP32, hardened index legacy); the model tracks the width at which "
        "hdkeychain holds each parent key and leaves the key tree when a hardened step is made with another rule (worst case: every key may "
        "have a leading zero byte); the per-step theorems hold for every assignment of leading zeros (parameter lz of Keys.ckd)",
        "an imported key number names the WIF (scalar + compressed flag), a script number the script bytes together with the kind of address",
        "invalid BIP32 children (probability 2^-127 per step) are not modelled",
        "every operation commits its database transaction; the manager is created from a seed (never watching-only at the root)",
        "which legitimate error class a REFUSED operation carries is not compared (MgrCorr.refusal_match; a crash only matches a crash); the "
        "classes of PrivKey()/Script() are",
        "Generated.AddrFacts.extend_derives_private_when_unlocked = true is a premise of the private-key theorems (discharged by eq_refl "
        "against the current source; false at the pinned commit, see C03_refuted_when_false)",
    ]
    EXTRA_TRUSTED = ["harness/internal/hdoracle (independent BIP32, the rule table of spec.go, address encoders incl. BIP341 tweak and leaf hash; "
                     "secp256k1 group operations from btcec)",
                     "lib/extract_c03.py: the three source facts are read off the shape of scoped_manager.go / manager.go (original and "
                     "syntactically equivalent shapes; new_scope_stores_last_account only when putLastAccount(ns, &scope, DefaultAccountNum) "
                     "is a top-level statement on the success path whose error is returned); a fact whose shape is not recognised is "
                     "determined by running its witness scenarios on the waddrmgr built from the repository (harness/cmd/extract-c03: "
                     "extend x {locked,unlocked} x {seed,imported} account; first account of a new custom scope; DeriveFromKeyPathCache "
                     "on a cached imported account); evidence field facts_source says which path ran"]
    PARTIAL_CLAUSES = [
        "'hierarchical derivation from the wallet's seed yields ...' in bytes (HMAC-SHA512, secp256k1): exercised through the oracle on "
        "every returned key, not a Coq theorem; that every hardened step uses the specified one of the two rules IS a theorem about the "
        "model (C03_rule_*_step, C03_account_keys, C03_create_scope_keys) and is exercised on seeds where the rules differ",
        "address encodings (base58check, bech32/bech32m, BIP86 tweak, P2WSH, taproot script tree): exercised through independent encoders",
        "'the wallet can sign for it': the returned private key is checked (oracle) to be the key of the public key and of the address "
        "in the reported format; no signature is produced",
    ]

    def gen_args(self, tier, seed):
        nn = self.N_QUICK if tier == "quick" else self.N_THOROUGH
        args = [["c03", "-n", str(nn), "-seed", str(seed), "-tier", tier]]
        # the corpus (seeds on which the two hardened-derivation rules differ, one history per
        # hardened step; the witnesses of the repaired defects) is replayed on every run
        corpus = os.path.join(VERIF, "corpus", "C03")
        if os.path.isdir(corpus):
            p = os.path.join(WORK, "corpus_C03.jsonl")
            os.makedirs(WORK, exist_ok=True)
            with open(p, "w") as out:
                for f in sorted(os.listdir(corpus)):
                    if f.endswith(".jsonl"):
                        for line in open(os.path.join(corpus, f)):
                            if line.strip():
                                out.write(json.dumps({"in": json.loads(line)["in"]}) + "\n")
            args.append(["c03", "-replay", p])
        return args

    def nontrivial(self, c):
        tags = c.get("tags", [])
        return bool(NONTRIVIAL_TAGS & set(tags)) or any(t.startswith(NONTRIVIAL_PREFIXES) for t in tags)

    def sample(self, c):
        return dict(seed=c["in"]["seed"], ops=c["in"]["ops"][:12], n_ops=len(c["in"]["ops"]), tags=c.get("tags"),
                    oracle=c.get("oracle"), last_result=c["obs"][-1] if c["obs"] else None)

    def extra_coverage(self, cases):
        # which path of lib/extract_c03.py produced the regenerated facts of this run
        src, detail, vals = "unknown", "", {}
        try:
            txt = open(os.path.join(COQ, "Generated", "AddrFacts.v")).read()
            m = re.search(r"\(\* facts source: (\w+)(.*?)\*\)", txt, re.S)
            if m:
                src, detail = m.group(1), re.sub(r"\s+", " ", m.group(2)).strip()
            vals = dict(re.findall(r"Definition (\w+) : bool := (true|false)\.", txt))
        except OSError:
            pass
        return dict(facts_source=src, facts_source_detail=detail, facts=vals)

    def site_of(self, case, kind):
        return (case.get("sites") or {}).get(kind, case.get("site", "*"))

    def extend_priv(self):
        txt = open(os.path.join(COQ, "Generated", "AddrFacts.v")).read()
        m = re.search(r"Definition extend_derives_private_when_unlocked : bool := (true|false)\.", txt)
        return m.group(1) if m else "true"

    def render_cases(self, cases):
        return """From Verif Require Import Base.Prelude Addr.Keys Addr.Mgr Addr.MgrCorr Generated.AddrFacts.
Local Open Scope N_scope.
Definition cases : list acase :=
%s.
Definition source := mkFacts extend_derives_private_when_unlocked new_scope_stores_last_account
                              derive_cache_checks_account_key.
Definition bad := Eval vm_compute in mismatches source cases.
Print bad.
Definition where_ := Eval vm_compute in diffs_from source 0 cases.
Print where_.
""" % clist(["\n " + r_case(c) for c in cases])

    def evaluate_model(self, cases):
        import concurrent.futures as cf
        mism, logs, problems = [], "", []
        shards = [(s, cases[s:s + self.SHARD]) for s in range(0, len(cases), self.SHARD)]

        def run(sh):
            start, chunk = sh
            return start, coq_eval(self.ID, self.render_cases(chunk), "cases_%d" % start)
        with cf.ThreadPoolExecutor(max_workers=12) as ex:
            results = list(ex.map(run, shards))
        self.first_diff = {}
        for start, (rc, out, err) in results:
            logs += out[-1500:] + err[-1500:]
            if rc != 0:
                problems.append("correspondence: cases file does not evaluate: " + (err or out)[-1500:])
                continue
            bad = parse_nat_list(parse_printed(out, "bad"))
            if bad is None:
                problems.append("correspondence: could not parse model output: " + out[-500:])
                continue
            mism.extend(start + b for b in bad)
            w = parse_printed(out, "where_")
            nums = [int(x) for x in re.findall(r"\d+", w or "")]
            for j in range(0, len(nums) - 1, 2):
                self.first_diff[start + nums[j]] = nums[j + 1]
        for ci in mism:
            j = self.first_diff.get(ci)
            if j is not None and j < len(cases[ci]["in"]["ops"]):
                cases[ci]["model_differs_at"] = dict(op_index=j, op=cases[ci]["in"]["ops"][j], impl=cases[ci]["obs"][j])
        return mism, logs, problems

    # -- shrinking: delta debugging over the operation list, re-running the real code
    def shrink(self, case, kind):
        ops = list(case["in"]["ops"])
        best = case

        def try_ops(cand):
            inp = dict(case["in"], ops=cand)
            p = os.path.join(WORK, self.ID, "shrink_in.jsonl")
            os.makedirs(os.path.dirname(p), exist_ok=True)
            with open(p, "w") as f:
                f.write(json.dumps({"in": inp}) + "\n")
            try:
                rc, cs, err = run_vh(["c03", "-replay", p], timeout=120)
            except Exception:       # a candidate that does not finish is not a smaller witness
                return None
            if rc == 0 and cs and kind in cs[0].get("oracle", []):
                return cs[0]
            return None
        chunk = max(len(ops) // 2, 1)
        budget = 120
        while chunk >= 1 and budget > 0:
            i, progressed = 0, False
            while i < len(ops) and budget > 0:
                cand = ops[:i] + ops[i + chunk:]
                budget -= 1
                got = try_ops(cand) if cand else None
                if got is not None:
                    ops, best, progressed = cand, got, True
                else:
                    i += chunk
            if not progressed:
                chunk //= 2
        return best


CHECK = C03
