from vlib import *


def _key(k):
    return "(%s, %s, %s)" % (cN(k[0]), cbool(k[1] != 0), cN(k[2]))


def _op(o):
    return "(%s, %s)" % (cN(o[0]), cN(o[1]))


def _tx(t):
    outs = []
    for o in t["outs"]:
        k = "None" if o.get("k") is None else "(Some %s)" % _key(o["k"])
        outs.append("{| o_key := %s; o_val := %s |}" % (k, cZ(o["v"])))
    return "{| t_id := %s; t_ins := %s; t_outs := %s |}" % (
        cN(t["id"]), clist([_op(i) for i in t["ins"] or []]), clist(outs))


class C16(Check):
    ID = "C16"
    RULE = ("recovery: a fresh wallet restored from one of 6 seeds with recoveryWindow W in {1,2,5,20} recovers against simchain chains "
            "built from generated usage patterns over the 4 default scopes x 2 branches: 1-10 paying blocks with 1-4 transactions each "
            "(several payments per block, window-top jumps of W-1, payments to old indices, later and same-block spends of recovered "
            "outputs with change to internal branches, irrelevant transactions), every fourth chain 2001-2300 blocks long with activity "
            "around the end of the first batch (recoveryBatchSize = 2000 blocks after the first scanned one), locked or unlocked; one case "
            "in five pays exactly one index beyond the window (only model = implementation is compared there). ENTRY: 7 in 12 through the "
            "production start-up - Wallet.SynchronizeRPC + chain.ClientConnected, i.e. the real handleChainNotifications -> "
            "birthdaySanityCheck -> syncWithChain(nil) -> locateBirthdayBlock, SetSyncedTo(birthday block), SetBirthdayBlock, recovery from "
            "synced-to + 1, rollback check, rescan - on a wallet with no stored birthday block (half of them first started on a shorter "
            "chain; further interruptions = wallet reopened, syncWithChain with the stored block); block timestamps on the 600 s grid, with "
            "a gap of more than 4h around the birthday, or with a single block inside the 2h tolerance, so that the first block that could "
            "pay is the one right after the birthday block; the history starts at the first payable block, inside the tolerance zone, or in "
            "the birthday block itself (never scanned; not promised). 5 in 12 through the hook VerifRecovery on a wallet at height 0 with "
            "birthday block genesis or an explicit height (payments after it). BACKEND: simchain's own FilterBlocks loop, or (6 in 10 of the "
            "short and 3 in 10 of the long production-entry cases) the REAL loop of chain.BitcoindClient.FilterBlocks / "
            "chain.RPCClient.FilterBlocks (btcd: GCS filter pre-check with buildFilterBlocksWatchList) over loopback JSON-RPC to the simulated "
            "node; the BlockFilterer is the real one in all three. Observed: key counts, presence and Used flag of every paid path and of "
            "the next three, TxDetails of every transaction, balance, unspent set, synced-to height, stored birthday block. birthday: 0-600 "
            "blocks with plateaus, second-level steps, steps around 2h and jumps of hours to weeks; birthday before genesis, after the tip, "
            "on block times +-7199/7200/7201 s, random; one in twelve through a wallet's stored birthday (creation - 48h). non-trivial = a "
            "recovery case that pays at least two different indices of some branch or spends a recovered output, or a birthday search over "
            "at least 4 blocks; distinct by input")
    N_QUICK = 150
    N_THOROUGH = 2500
    SHARD = 60
    ASSUMPTIONS = [
        "an address is identified with its derivation path (distinct paths give distinct addresses); derivation itself is property C03",
        "invalid child indices (hdkeychain.ErrInvalidChild, probability about 2^-127 per index) cannot be produced on the real code: "
        "they are covered by the model and the theorems only",
        "chain well-formedness used by the theorems: transaction ids distinct, no outpoint spent twice; every paid path is a valid child",
        "uint32 wrap-around of child indices and int32 heights are outside the model; timestamps in whole seconds",
        "a block that could pay the wallet = a block after genesis stamped later than the stored birthday + 2h (the wallet stores creation "
        "time - 48h as its birthday, so this covers every block stamped later than creation - 46h); the located birthday block itself is "
        "the genesis block or stamped no later than that, and production never scans it: payments in it are not promised",
        "production entry: recoveryWindow >= 1 (with 0 syncWithChain does not recover), a verified stored birthday block (an unverified one, "
        "set by an import, is re-located by birthdaySanityCheck: not modelled), no reorganisation between the starts (C15's subject), "
        "block timestamps non-decreasing for the 'not late' theorem",
    ]
    PARTIAL_CLAUSES = [
        "locked or unlocked: the model has no lock state (recovery uses public derivation only); exercised by the correspondence run",
        "balance: proved for the model's unspent set (= the ledger's); that CalculateBalance(1) reports its sum is exercised, and is C01's subject",
    ]
    EXTRA_TRUSTED = ["addresses of the paid paths are derived through a second wallet of the same seed (DeriveFromKeyPath)",
                     "simchain (programmable chain.Interface: headers, hashes, best block, rescan, notifications) and walletenv (fast wallet creation)",
                     "FilterBlocks: real = chain.BlockFilterer always; chain.BitcoindClient.FilterBlocks and chain.RPCClient.FilterBlocks "
                     "(+ buildFilterBlocksWatchList, gcs match) with rpcclient in HTTP POST mode when the case names that backend; "
                     "simulated = the JSON-RPC node answering getblockhash/getblock/getcfilter/getblockchaininfo/getnetworkinfo "
                     "(simchain/rpc.go; filters built with btcutil gcs/builder), simchain's own loop otherwise; the neutrino client's loop is "
                     "not run (same shape as btcd's, its filters come from the p2p layer)"]

    def gen_args(self, tier, seed):
        n = self.N_QUICK if tier == "quick" else self.N_THOROUGH
        return [[self.vh_cmd(), "-n", str(n), "-seed", str(seed), "-tier", tier]]

    def nontrivial(self, c):
        i = c["in"]
        if i["kind"] == "birthday":
            return len(i["ts"]) >= 4
        idx = {}
        spends = False
        own = set()
        for b in i["blocks"]:
            for t in b["txs"]:
                for x in t["ins"] or []:
                    if tuple(x) in own:
                        spends = True
                for pos, o in enumerate(t["outs"]):
                    if o.get("k") is not None:
                        idx.setdefault((o["k"][0], o["k"][1]), set()).add(o["k"][2])
                        own.add((t["id"], pos))
        return spends or any(len(v) >= 2 for v in idx.values())

    def sample(self, c):
        i = c["in"]
        if i["kind"] == "birthday":
            return dict(kind="birthday", blocks=len(i["ts"]), birthday_ts=i["birthday_ts"], first_ts=i["ts"][:5],
                        height=c["obs"]["height"], tags=c.get("tags"))
        return dict(kind="recovery", entry=i.get("entry") or "hook", backend=i.get("backend") or "simchain", w=i["w"], len=i["len"],
                    cuts=i["cuts"], bday=i["bday"], birthday_block=c["obs"]["bday_used"], unlocked=i["unlocked"],
                    blocks=i["blocks"][:3], next=c["obs"]["next"], balance=c["obs"]["balance"], tags=c.get("tags"))

    def extra_coverage(self, cases):
        rec = [c for c in cases if c["in"]["kind"] == "recovery"]
        sync = [c for c in rec if c["in"].get("entry") == "sync"]
        return dict(recovery_cases=len(rec), production_entry_cases=len(sync),
                    real_filterblocks_loop=dict(
                        bitcoind=sum(1 for c in rec if c["in"].get("backend") == "bitcoind"),
                        btcd=sum(1 for c in rec if c["in"].get("backend") == "btcd"),
                        simulated=sum(1 for c in rec if not c["in"].get("backend"))),
                    filterblocks_requests=sum(c["obs"].get("filter_calls", 0) for c in rec))

    # -- shrinking: greedy removal of interruptions, blocks, transactions and
    #    empty stretches, re-running the real code on every candidate
    def _rerun(self, inp, kind):
        wd = os.path.join(WORK, self.ID)
        os.makedirs(wd, exist_ok=True)
        path = os.path.join(wd, "shrink_in.jsonl")
        with open(path, "w") as f:
            f.write(json.dumps({"in": inp}) + "\n")
        try:
            rc, cs, err = run_vh([self.vh_cmd(), "-replay", path], timeout=400)
        except Exception:
            return None
        if rc != 0 or not cs or kind not in cs[0].get("oracle", []):
            return None
        return cs[0]

    def _candidates(self, i):
        import copy
        if i["kind"] == "birthday":
            n = len(i["ts"])
            for cut in (n // 2, n - 1):
                if 1 <= cut < n:
                    j = copy.deepcopy(i); j["ts"] = i["ts"][:cut]; yield j
            if n > 2:
                j = copy.deepcopy(i); j["ts"] = [i["ts"][0]] + i["ts"][2:]; yield j
            return
        if len(i["cuts"]) > 1:
            j = copy.deepcopy(i); j["cuts"] = [i["len"]]; yield j
        if i["blocks"]:
            top = max(b["h"] for b in i["blocks"])
            if top < i["len"]:
                # cut the chain after the last active block
                j = copy.deepcopy(i); j["len"] = top
                j["cuts"] = sorted({min(c, top) for c in i["cuts"]} | {top})
                if j.get("ts"):
                    j["ts"] = j["ts"][:top + 1]
                yield j
        if i.get("backend"):
            j = copy.deepcopy(i); j["backend"] = ""; yield j
        if i["unlocked"]:
            j = copy.deepcopy(i); j["unlocked"] = False; yield j
        for b in range(len(i["blocks"])):
            j = copy.deepcopy(i); del j["blocks"][b]; yield j
        for b in range(len(i["blocks"])):
            for t in range(len(i["blocks"][b]["txs"])):
                if len(i["blocks"][b]["txs"]) > 1:
                    j = copy.deepcopy(i); del j["blocks"][b]["txs"][t]; yield j
        if i["bday"] >= 0 and i["blocks"]:
            hs = [b["h"] for b in i["blocks"]]
            if hs != list(range(1, len(hs) + 1)) or i["len"] != len(hs):
                j = copy.deepcopy(i)
                for n, b in enumerate(j["blocks"]):
                    b["h"] = n + 1
                j["len"] = len(hs)
                j["cuts"] = sorted({sum(1 for h in hs if h <= c) for c in i["cuts"]} | {len(hs)})
                j["bday"] = 0 if i["bday"] == 0 else 1 + sum(1 for h in hs if h < i["bday"])
                yield j

    def shrink(self, case, kind):
        budget = 80
        cur = case
        progress = True
        while progress and budget > 0:
            progress = False
            for cand in self._candidates(cur["in"]):
                if budget <= 0:
                    break
                budget -= 1
                r = self._rerun(cand, kind)
                if r is not None:
                    cur = r
                    progress = True
                    break
        return cur

    def render_case(self, c):
        i, o = c["in"], c["obs"]
        if i["kind"] == "branch":
            return "CBrs (%s, %s)" % (cN(i["w"]), clist(["(%s, %s, (%s, %s), (%s, %s, %s))" % (
                cN(x["op"]), cN(x["arg"]), cN(x["r1"]), cN(x["r2"]), cN(x["next"]), cN(x["ninv"]), cN(x["naddr"]))
                for x in o.get("brs") or []]))
        if i["kind"] == "birthday":
            return "CBday (%s, %s, %s)" % (clist([cZ(t) for t in i["ts"]]), cZ(o["search_for"]), cZ(o["height"]))
        blocks = clist(["\n    (%s, %s)" % (cN(b["h"]), clist([_tx(t) for t in b["txs"]])) for b in i["blocks"]])
        probes = clist(["(%s, %s, %s)" % (_key(p[:3]), cbool(p[3]), cbool(p[4])) for p in o["probes"]])
        ids = [t["id"] for b in i["blocks"] for t in b["txs"]]
        rec = clist(["(%s, %s)" % (cN(t), cZ(h)) for t, h in zip(ids, o["recorded"])])
        uns = clist(["(%s, %s)" % (_op(u[:2]) if u[0] >= 0 else "(4294967295%N, 0%N)", cZ(u[2])) for u in o["unspent"]])
        return ("CRec {| rc_w := %s; rc_bs := %d; rc_len := %d; rc_blocks := %s;\n    rc_cuts := %s; rc_sync := %s; rc_ts := %s; rc_bday := %s; "
                "rc_birthday_ts := %s; rc_err := %s; rc_init_zero := %s; rc_bday_used := %s;\n    rc_next := %s; rc_probes := %s;\n"
                "    rc_recorded := %s; rc_balance := %s; rc_unspent := %s; rc_synced := %s |}") % (
            cN(i["w"]), o["batch_size"], i["len"], blocks, clist([cN(x) for x in i["cuts"]]),
            cbool(i.get("entry") == "sync"), clist([cZ(t) for t in (i.get("ts") or [])]), cZ(i["bday"]),
            cZ(i["birthday_ts"]), cbool(bool(o["err"])), cbool(o["init_zero"]), cN(o["bday_used"]),
            clist([cN(x) for x in o["next"]]), probes, rec, cZ(o["balance"]), uns, cN(max(o["synced"], 0)))

    def render_cases(self, cases):
        return """From Verif Require Import Base.Prelude Recovery.Recovery Recovery.RecoveryCorr.
Local Open Scope N_scope.
Definition cases : list ccase :=
%s.
Definition bad := Eval vm_compute in mismatches cases.
Print bad.
""" % clist(["\n " + self.render_case(c) for c in cases])

    def evaluate_model(self, cases):
        import concurrent.futures as cf
        mism, logs, problems = [], "", []
        shards = [(s, cases[s:s + self.SHARD]) for s in range(0, len(cases), self.SHARD)]

        def one(sh):
            start, chunk = sh
            rc, out, err = coq_eval(self.ID, self.render_cases(chunk), "cases_%d" % start)
            return start, rc, out, err
        with cf.ThreadPoolExecutor(max_workers=8) as ex:
            for start, rc, out, err in ex.map(one, shards):
                logs += out[-1000:] + err[-1000:]
                if rc != 0:
                    problems.append("correspondence: cases file does not evaluate: " + err[-1500:])
                    continue
                bad = parse_nat_list(parse_printed(out, "bad"))
                if bad is None:
                    problems.append("correspondence: could not parse model output: " + out[-500:])
                    continue
                mism.extend(start + b for b in bad)
        return sorted(mism), logs, problems


CHECK = C16
