from vlib import *

KIND = {"p2pkh": "P2PKH", "p2tr": "P2TR", "p2wpkh": "P2WPKH", "np2wpkh": "NP2WPKH"}
SCRIPT_LEN = {"p2pkh": 25, "p2sh": 23, "np2wpkh": 23, "p2wpkh": 22, "p2wsh": 34, "p2tr": 34, "": 0}
WITNESS = {"p2wpkh", "p2wsh", "p2tr"}


class C07(Check):
    ID = "C07"
    RULE = ("systematic: requested-output counts {0,1,2,3,251,252,253,254} x 4 change script types x 4 input kinds x "
            "{relay floor, one higher rate} (+ 65534/65535 outputs in the thorough tier); mixed-kind coin sets at 251..253 outputs; "
            "amount boundaries: 1..7 coins of mixed P2PKH/P2TR/P2WPKH/nested-P2WPKH kinds whose total is outputs + required fee + "
            "{-dust,-1,0,+1,dust/2,dust-1,dust,dust+1,10*dust}; single coin of each kind at exactly its own required fee; "
            "random: 0..30 outputs of mixed P2PKH/P2SH/P2WPKH/P2WSH/P2TR scripts, 0..12 coins, rates 1000..10^6; "
            "every authored transaction is signed with real secp256k1 keys by txauthor.AddAllInputScripts, every input verified "
            "with the txscript engine, and measured with mempool.GetTxVirtualSize; plus unit cases of FeeForSerializeSize, "
            "EstimateVirtualSize and IsDustOutput.  non-trivial = authoring case with at least one coin, or a unit case; distinct by input")
    N_QUICK = 600
    N_THOROUGH = 6000
    SHARD = 300
    ASSUMPTIONS = [
        "input source = prefix accumulator over a fixed arrangement (wallet.makeInputSource); coin values and output values are non-negative",
        "fee rate >= 0 for termination, >= the relay floor (1000 sat/kvB) for the fee-rate bound; int64 wrap-around not modelled",
        "inputs are P2PKH/P2WPKH/nested-P2WPKH/P2TR-keyspend with compressed keys; the change script has the declared ScriptSize > 0",
        "admissible signatures: DER length <= 72 (<= 71, i.e. low-S as btcec signs, for P2PKH inputs of a transaction that also has witness inputs), Schnorr <= 65",
    ]
    EXTRA_TRUSTED = ["btcd blockchain.WitnessScaleFactor = 4 and btcutil.MaxSatoshi are model constants (not regenerated: outside the repository)",
                     "lib/extract_c07.py: regex reading of size.go / rules.go / author.go; when the shape is not recognised, facts "
                     "fitted to probes of the built code (harness/cmd/extract-c07) and validated on a fixed grid - the split of a "
                     "witness input's weight into base size and witness weight is then taken from the exported constants "
                     "(only the weight is observable); evidence field facts_source says which path ran"]

    def extra_coverage(self, cases):
        # which path of lib/extract_c07.py produced the regenerated facts of this run
        src, detail = "unknown", ""
        try:
            txt = open(os.path.join(COQ, "Generated", "TxsizesConsts.v")).read()
            m = re.search(r"\(\* facts source: (\w+)(.*?)\*\)", txt, re.S)
            if m:
                src, detail = m.group(1), re.sub(r"\s+", " ", m.group(2)).strip()
        except OSError:
            pass
        return dict(facts_source=src, facts_source_detail=detail)

    def nontrivial(self, c):
        i = c["in"]
        return i["kind"] != "author" or len(i["coins"]) > 0

    def sample(self, c):
        c = json.loads(json.dumps(c))
        if len(c["in"].get("outs", [])) > 6:
            n = len(c["in"]["outs"])
            c["in"]["outs"] = c["in"]["outs"][:3] + ["... %d outputs in total" % n]
        return c

    # -- shrinking: greedy simplification, every candidate re-run on the implementation
    def _run_one(self, inp):
        p = os.path.join(WORK, "C07", "shrink_in.jsonl")
        os.makedirs(os.path.dirname(p), exist_ok=True)
        with open(p, "w") as f:
            f.write(json.dumps({"in": inp}) + "\n")
        rc, cs, err = run_vh([self.vh_cmd(), "-replay", p], timeout=120)
        return cs[0] if rc == 0 and len(cs) == 1 else None

    def shrink(self, case, kind):
        if case["in"].get("kind") != "author":
            return case
        site = case.get("site")
        best = case

        def attempt(inp):
            nonlocal best
            c = self._run_one(inp)
            if c is not None and kind in c.get("oracle", []) and c.get("site") == site:
                best = c
                return True
            return False

        for _ in range(3):
            cur = json.loads(json.dumps(best["in"]))
            progress = False
            # fewer coins (dropping from the end, then from the front)
            for idx in list(range(len(cur["coins"]) - 1, -1, -1)):
                if len(cur["coins"]) <= 1:
                    break
                cand = dict(cur, coins=cur["coins"][:idx] + cur["coins"][idx + 1:])
                if attempt(cand):
                    cur = json.loads(json.dumps(best["in"]))
                    progress = True
            # fewer outputs (halves, then single ones when few are left)
            n = len(cur["outs"])
            chunk = n // 2
            while chunk >= 1 and len(cur["outs"]) > 0:
                i = 0
                while i < len(cur["outs"]):
                    cand = dict(cur, outs=cur["outs"][:i] + cur["outs"][i + chunk:])
                    if attempt(cand):
                        cur = json.loads(json.dumps(best["in"]))
                        progress = True
                    else:
                        i += chunk
                    if len(cur["outs"]) > 16 and chunk == 1:
                        break
                if len(cur["outs"]) > 16 and chunk == 1:
                    break
                chunk //= 2
            # uniform outputs, floor rate
            if any(o != {"t": "p2wpkh", "v": 1000} for o in cur["outs"]):
                before = sum(o["v"] for o in cur["outs"])
                cand = dict(cur, outs=[{"t": "p2wpkh", "v": 1000} for _ in cur["outs"]])
                if sum(o["v"] for o in cand["outs"]) <= before and attempt(cand):
                    cur = json.loads(json.dumps(best["in"]))
                    progress = True
            if cur["rate"] != 1000 and attempt(dict(cur, rate=1000)):
                cur = json.loads(json.dumps(best["in"]))
                progress = True
            if not progress:
                break
        return best

    def render_cases(self, cases):
        def outs(os_):
            # run-length encoded, so that 65535 equal outputs stay a short term
            runs = []
            for o in os_:
                x = "mkOut %s %s" % (cZ(o["v"]), cZ(SCRIPT_LEN[o["t"]]))
                if runs and runs[-1][0] == x:
                    runs[-1][1] += 1
                else:
                    runs.append([x, 1])
            if not any(n > 8 for _, n in runs):
                return clist([x for x, n in runs for _ in range(n)])
            return "(" + " ++ ".join("repeat (%s) (Z.to_nat %d)" % (x, n) if n > 8 else clist([x] * n)
                                     for x, n in runs) + ")"

        rows = []
        for c in cases:
            i, o = c["in"], c["obs"]
            k = i["kind"]
            if k == "author":
                err = 0 if o["err"] == "" else (1 if o["err"] == "insufficient" else 2)
                ob = ("{| o_err := %s; o_rounds := %s; o_in_kinds := %s; o_est := %s; o_total_in := %s; o_fee := %s; "
                      "o_change_idx := %s; o_change_amt := %s; o_nout := %s; o_sigs := %s; o_real_vsize := %s |}") % (
                    cZ(err), cZ(o["rounds"]), clist([KIND[x] for x in o["in_kinds"]]), cZ(o["est_size"]),
                    cZ(o["total_in"]), cZ(o["fee"]), cZ(o["change_idx"]), cZ(o["change_amt"]), cZ(o["nout"]),
                    clist([cZ(s) for s in o["sig_lens"]]), cZ(o["real_vsize"]))
                rows.append("CAuthor %s %s %s %s %s %s" % (
                    outs(i["outs"]), cZ(i["rate"]),
                    clist(["(%s, %s)" % (KIND[x["k"]], cZ(x["v"])) for x in i["coins"]]),
                    cZ(SCRIPT_LEN[i["change"]]), cbool(i["change"] in WITNESS), ob))
            elif k == "fee":
                rows.append("CFee %s %s %s" % (cZ(i["rate"]), cZ(i["size"]), cZ(o["val"])))
            elif k == "est":
                rows.append("CEst (mkCounts %s %s %s %s) %s %s %s" % (
                    cZ(i["counts"][0]), cZ(i["counts"][1]), cZ(i["counts"][2]), cZ(i["counts"][3]),
                    outs(i["outs"]), cZ(SCRIPT_LEN[i["change"]]), cZ(o["val"])))
            elif k == "dust":
                rows.append("CDust %s %s %s %s" % (cZ(i["value"]), cZ(SCRIPT_LEN[i["change"]]),
                                                   cbool(i["change"] in WITNESS), cbool(o["flag"])))
            else:
                raise ValueError("case kind " + k)
        return """From Verif Require Import Base.Prelude Fee.Fee Fee.FeeCorr.
Local Open Scope Z_scope.
Definition cases : list case :=
%s.
Definition bad := Eval vm_compute in mismatches cases.
Print bad.
""" % clist(["\n " + r for r in rows])


CHECK = C07
