from vlib import *

KIND = {"p2pkh": "P2PKH", "p2tr": "P2TR", "p2wpkh": "P2WPKH", "np2wpkh": "NP2WPKH"}
CHKIND = {"p2pkh": "ChP2PKH", "np2wpkh": "ChNP2WPKH", "p2wpkh": "ChP2WPKH", "p2tr": "ChP2TR"}
SCRIPT_LEN = {"p2pkh": 25, "p2sh": 23, "np2wpkh": 23, "p2wpkh": 22, "p2wsh": 34, "p2tr": 34, "": 0}
WITNESS = {"p2wpkh", "p2wsh", "p2tr"}


class C07(Check):
    ID = "C07"
    RULE = ("txauthor level (real NewUnsignedTransaction over the wallet's REAL input sources, reached through the verif hooks: "
            "makeInputSource, and constantInputSource for the 'fixed' cases): requested-output counts {0,1,2,3,251,252,253,254} x 4 change "
            "script types x 4 input kinds x {relay floor, one higher rate} (+ 65534/65535 outputs in the thorough tier); mixed-kind coin "
            "sets at 251..253 outputs; amount boundaries: 1..7 coins of mixed P2PKH/P2TR/P2WPKH/nested-P2WPKH kinds whose total is outputs + "
            "required fee + {-dust,-1,0,+1,dust/2,dust-1,dust,dust+1,10*dust}; single coin of each kind at exactly its own required fee; "
            "ladders (one more coin per round); random: 0..30 outputs of mixed P2PKH/P2SH/P2WPKH/P2WSH/P2TR scripts, 0..12 coins, rates "
            "1000..10^6; P2PKH coins held by an UNCOMPRESSED key.  wallet level (a fresh real wallet per case, coins paid to it in a "
            "confirmed block): CreateSimpleTx / SendOutputs(WithInput) / FundPsbt (automatic selection and caller-supplied inputs) x every "
            "input kind under its own scope, all kinds with no scope x change scopes {none,44,49,84,86}, nested-P2WPKH change through a "
            "watch-only account with the traditional BIP-49 schema, explicit selections larger than needed, imported keys incl. an "
            "UNCOMPRESSED one, 252/253/254/255/~260 inputs, 251/252/253 requested outputs, the random selector, outputs CheckOutput must "
            "refuse, and amount boundaries as above; the change source's declared script size against the script it produces for every "
            "change scope.  Every authored transaction is signed with real secp256k1 keys (by the wallet, or by AddAllInputScripts with the "
            "wallet's keys where the entry point hands out an unsigned transaction), every input verified with the txscript engine, and "
            "measured with mempool.GetTxVirtualSize; the oracle judges the SIGNED transaction against the harness's own ledger of coin "
            "values; plus unit cases of FeeForSerializeSize, EstimateVirtualSize, IsDustOutput and CheckOutput.  non-trivial = authoring "
            "case with at least one coin, or a unit case; distinct by input")
    N_QUICK = 600
    N_THOROUGH = 6000
    SHARD = 300
    ASSUMPTIONS = [
        "input source = makeInputSource over a fixed arrangement, or constantInputSource over an explicit selection; the arrangement itself "
        "(largest first / random, eligibility) is C06's; for the random selector the model is given the prefix the selector took; "
        "coin values and output values are non-negative",
        "fee rate >= 0 for termination, >= the relay floor (1000 sat/kvB) for the fee-rate bound; int64 wrap-around not modelled "
        "(amounts are mathematical integers; the harness checks every output and the output sum against [0, MaxSatoshi])",
        "inputs are P2PKH/P2WPKH/nested-P2WPKH/P2TR-keyspend; the change source declares a positive script size",
        "admissible signatures (exact): ECDSA DER length <= 72 (<= 71, i.e. low-S as btcec signs, for P2PKH inputs of a transaction that "
        "also has witness inputs) + sighash byte, compressed 33-byte public key; Schnorr <= 65; a P2PKH input signed with an "
        "UNCOMPRESSED 65-byte key is admissible only when the regenerated fact p2pkh_covers_uncompressed is true - it is false now, "
        "C07_uncompressed_key_refuted is the witness, the implementation underpays there (known finding fee_below_rate_uncompressed_key)",
        "fee >= rate applied to the real size means fee >= floor(rate * vsize / 1000), the rounding of every fee computation of the wallet",
    ]
    PARTIAL_CLAUSES = [
        "wallet-level cases with a nested-P2WPKH change script are reached only through a watch-only account created with "
        "waddrmgr.NewAccountWatchingOnly (wallet.ImportAccount refuses regtest keys); the harness signs those itself",
        "FundPsbt sorts the packet (BIP 69) after authoring: the model has no sort, outputs and inputs of those cases are compared as multisets",
    ]
    EXTRA_TRUSTED = ["btcd blockchain.WitnessScaleFactor = 4, btcutil.MaxSatoshi and the script lengths txscript.PayToAddrScript produces "
                     "(25/23/22/34) are model constants (not regenerated: outside the repository); the lengths are compared with the "
                     "scripts a real wallet's change source produces in every run (changesrc cases)",
                     "lib/extract_c07.py: regex reading of size.go (const block, every term of baseSize and of the witness-weight block of "
                     "EstimateVirtualSize) / rules.go / author.go / createtx.go (scriptSize switch of addrMgrWithChangeSource); when a shape "
                     "is not recognised, facts fitted to probes of the built code (harness/cmd/extract-c07, incl. a real wallet's change "
                     "source through the verif hook) and validated on a fixed grid - the split of a witness input's weight into base size "
                     "and witness weight is then taken from the exported constants, marker+flag is taken as 2 (only sums are observable); "
                     "evidence field facts_source says which path ran",
                     "/repo/wallet/verif_hooks_c07.go (build tag verif): exports makeInputSource, constantInputSource and a rolled-back "
                     "addrMgrWithChangeSource unchanged"]

    def extra_coverage(self, cases):
        # which path of lib/extract_c07.py produced the regenerated facts of this run
        src, detail = "unknown", ""
        try:
            txt = open(os.path.join(COQ, "Generated", "TxsizesConsts.v")).read()
            m = re.search(r"\(\* facts source: (\w+)(.*?)\*\)", txt, re.S)
            if m:
                src, detail = m.group(1), re.sub(r"\s+", " ", m.group(2)).strip()
        except OSError:
            pass
        return dict(facts_source=src, facts_source_detail=detail)

    def nontrivial(self, c):
        i = c["in"]
        if i["kind"] == "wallet":
            return len(i.get("wcoins") or []) > 0
        return i["kind"] != "author" or len(i["coins"]) > 0

    def sample(self, c):
        c = json.loads(json.dumps(c))
        if len(c["in"].get("outs") or []) > 6:
            n = len(c["in"]["outs"])
            c["in"]["outs"] = c["in"]["outs"][:3] + ["... %d outputs in total" % n]
        if len(c["in"].get("sel") or []) > 8:
            c["in"]["sel"] = c["in"]["sel"][:3] + ["... %d selected in total" % len(c["in"]["sel"])]
        for f in ("sig_lens", "pk_lens", "in_kinds"):
            if len(c["obs"].get(f) or []) > 8:
                c["obs"][f] = c["obs"][f][:3] + ["... %d in total" % len(c["obs"][f])]
        return c

    # -- shrinking: greedy simplification, every candidate re-run on the implementation
    def _run_one(self, inp):
        p = os.path.join(WORK, "C07", "shrink_in.jsonl")
        os.makedirs(os.path.dirname(p), exist_ok=True)
        with open(p, "w") as f:
            f.write(json.dumps({"in": inp}) + "\n")
        rc, cs, err = run_vh([self.vh_cmd(), "-replay", p], timeout=120)
        return cs[0] if rc == 0 and len(cs) == 1 else None

    def shrink(self, case, kind):
        if case["in"].get("kind") != "author":
            return case
        site = case.get("site")
        best = case

        def attempt(inp):
            nonlocal best
            c = self._run_one(inp)
            if c is not None and kind in c.get("oracle", []) and c.get("site") == site:
                best = c
                return True
            return False

        for _ in range(3):
            cur = json.loads(json.dumps(best["in"]))
            progress = False
            # fewer coins (dropping from the end, then from the front)
            for idx in list(range(len(cur["coins"]) - 1, -1, -1)):
                if len(cur["coins"]) <= 1:
                    break
                cand = dict(cur, coins=cur["coins"][:idx] + cur["coins"][idx + 1:])
                if attempt(cand):
                    cur = json.loads(json.dumps(best["in"]))
                    progress = True
            # fewer outputs (halves, then single ones when few are left)
            n = len(cur["outs"])
            chunk = n // 2
            while chunk >= 1 and len(cur["outs"]) > 0:
                i = 0
                while i < len(cur["outs"]):
                    cand = dict(cur, outs=cur["outs"][:i] + cur["outs"][i + chunk:])
                    if attempt(cand):
                        cur = json.loads(json.dumps(best["in"]))
                        progress = True
                    else:
                        i += chunk
                    if len(cur["outs"]) > 16 and chunk == 1:
                        break
                if len(cur["outs"]) > 16 and chunk == 1:
                    break
                chunk //= 2
            # uniform outputs, floor rate
            if any(o != {"t": "p2wpkh", "v": 1000} for o in cur["outs"]):
                before = sum(o["v"] for o in cur["outs"])
                cand = dict(cur, outs=[{"t": "p2wpkh", "v": 1000} for _ in cur["outs"]])
                if sum(o["v"] for o in cand["outs"]) <= before and attempt(cand):
                    cur = json.loads(json.dumps(best["in"]))
                    progress = True
            if cur["rate"] != 1000 and attempt(dict(cur, rate=1000)):
                cur = json.loads(json.dumps(best["in"]))
                progress = True
            if not progress:
                break
        return best

    def evaluate_model(self, cases):
        """as Check.evaluate_model, the shards evaluated concurrently (each is its own coqc process)"""
        from concurrent.futures import ThreadPoolExecutor
        starts = list(range(0, len(cases), self.SHARD))

        def one(start):
            text = self.render_cases(cases[start:start + self.SHARD])
            return start, coq_eval(self.ID, text, "cases_%d" % start)

        mism, logs, problems = [], "", []
        with ThreadPoolExecutor(max_workers=4) as ex:
            results = list(ex.map(one, starts))
        for start, (rc, out, err) in results:
            logs += out[-2000:] + err[-2000:]
            if rc != 0:
                problems.append("correspondence: cases file does not evaluate: " + err[-1500:])
                continue
            bad = parse_nat_list(parse_printed(out, "bad"))
            if bad is None:
                problems.append("correspondence: could not parse model output: " + out[-500:])
                continue
            mism.extend(start + b for b in bad)
        return sorted(mism), logs, problems

    def render_cases(self, cases):
        def runs_of(items):
            runs = []
            for x, n in items:
                if runs and runs[-1][0] == x:
                    runs[-1][1] += n
                else:
                    runs.append([x, n])
            return runs

        def rl(runs):
            # run-length encoded, so that 65535 equal outputs / 300 equal coins stay a short term
            if not runs:
                return "[]"
            if not any(n > 8 for _, n in runs):
                return clist([x for x, n in runs for _ in range(n)])
            return "(" + " ++ ".join("repeat (%s) (Z.to_nat %d)" % (x, n) if n > 8 else clist([x] * n)
                                     for x, n in runs) + ")"

        def outs(os_):
            return rl(runs_of(("mkOut %s %s" % (cZ(o["v"]), cZ(SCRIPT_LEN[o["t"]])), 1) for o in os_))

        def wouts(os_):
            return rl(runs_of(("mkOut %s %s" % (cZ(o["v"]), cZ(o["l"])), o["n"]) for o in os_))

        def wcoins(cs):
            return rl(runs_of(("(%s, %s)" % (KIND[x["k"].split("-")[0]], cZ(x["v"])), x["n"]) for x in cs))

        def sigs(o):
            return clist(["(%s, %s)" % (cZ(s), cZ(p)) for s, p in zip(o["sig_lens"], o["pk_lens"])])

        rows = []
        for c in cases:
            i, o = c["in"], c["obs"]
            k = i["kind"]
            if k == "author":
                err = 0 if o["err"] == "" else (1 if o["err"] == "insufficient" else 2)
                ob = ("{| o_err := %s; o_rounds := %s; o_in_kinds := %s; o_est := %s; o_total_in := %s; o_fee := %s; "
                      "o_has_change := %s; o_change_amt := %s; o_nout := %s; o_sigs := %s; o_real_vsize := %s |}") % (
                    cZ(err), cZ(o["rounds"]), clist([KIND[x] for x in o["in_kinds"]]), cZ(o["est_size"]),
                    cZ(o["total_in"]), cZ(o["fee"]), cbool(o["change_idx"] >= 0), cZ(o["change_amt"]), cZ(o["nout"]),
                    sigs(o), cZ(o["real_vsize"]))
                rows.append("CAuthor %s %s %s %s %s %s %s" % (
                    cbool(i.get("fixed", False)), outs(i["outs"]), cZ(i["rate"]),
                    clist(["(%s, %s)" % (KIND[x["k"].split("-")[0]], cZ(x["v"])) for x in i["coins"]]),
                    cZ(SCRIPT_LEN[i["change"]]), cbool(i["change"] in WITNESS), ob))
            elif k == "wallet":
                explicit = len(i.get("sel") or []) > 0
                api = i["api"]
                err = {"": 0, "insufficient": 1, "refused:negative": 11, "refused:exceeds_max": 12, "refused:dust": 13}.get(o["err"], 2)
                ob = ("{| w_err := %s; w_inputs := %s; w_outs := %s; w_change_idx := %s; w_ordered := %s; w_total_in := %s; "
                      "w_fee := %s; w_sigs := %s; w_real_vsize := %s |}") % (
                    cZ(err), wcoins(o["win"]), wouts(o["wout"]), cZ(o["change_idx"]),
                    # txToOutputs swaps the change output with the output at the drawn index; FundPsbt then
                    # sorts the packet (BIP 69): there only the multiset of outputs is the model's
                    cbool(api in ("create", "send")), cZ(o["total_in"]), cZ(o["fee"]), sigs(o), cZ(o["real_vsize"]))
                rows.append("CWallet %s %s %s %s %s %s %s %s" % (
                    cbool(api in ("send", "fundpsbt")),                 # txrules.CheckOutput guards the entry point
                    cbool(explicit), cbool(not (api == "fundpsbt" and explicit)),
                    outs(i["outs"]), cZ(i["rate"]), CHKIND[o["chkind"]], wcoins(o["arr"]), ob))
            elif k == "changesrc":
                rows.append("CChangeSrc %s %s %s" % (CHKIND[o["chkind"]], cZ(o["val"]), cZ(o["chlen"])))
            elif k == "fee":
                rows.append("CFee %s %s %s" % (cZ(i["rate"]), cZ(i["size"]), cZ(o["val"])))
            elif k == "est":
                rows.append("CEst (mkCounts %s %s %s %s) %s %s %s" % (
                    cZ(i["counts"][0]), cZ(i["counts"][1]), cZ(i["counts"][2]), cZ(i["counts"][3]),
                    outs(i["outs"]), cZ(SCRIPT_LEN[i["change"]]), cZ(o["val"])))
            elif k == "dust":
                rows.append("CDust %s %s %s %s" % (cZ(i["value"]), cZ(SCRIPT_LEN[i["change"]]),
                                                   cbool(i["change"] in WITNESS), cbool(o["flag"])))
            elif k == "checkout":
                rows.append("CCheckOut %s %s %s %s" % (cZ(i["value"]), cZ(SCRIPT_LEN[i["change"]]),
                                                       cbool(i["change"] in WITNESS), cZ(o["val"])))
            else:
                raise ValueError("case kind " + k)
        return """From Verif Require Import Base.Prelude Fee.Fee Fee.FeeCorr.
Local Open Scope Z_scope.
Definition cases : list case :=
%s.
Definition bad := Eval vm_compute in mismatches cases.
Print bad.
""" % clist(["\n " + r for r in rows])


CHECK = C07
