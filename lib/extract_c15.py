"""C15: regenerate coq/Generated/SyncFacts.v from the repository.

Facts:
  * disconnect_records_parent_hash: in wallet/chainntfns.go disconnectBlock, the
    block stamp passed to w.Manager.SetSyncedTo carries the parent's hash that
    was fetched with w.Manager.BlockHash(ns, b.Height - 1);
  * max_reorg_depth: waddrmgr.MaxReorgDepth (and staleHeight(h) = h - MaxReorgDepth);
  * recovery_before_rollback: in wallet/wallet.go syncWithChain the statement
    `if w.recoveryWindow > 0 { w.recovery(...) }` stands before the transaction
    that holds the rollback loop (source path only: no probe; a shape that is
    not recognised raises).

  * bitcoind_reorg_disconnects_own_hash: in chain/bitcoind_client.go reorg, the
    walk-back loop (`for previousBlock != currentHeader.PrevBlock`) sets the
    hash of the next block to disconnect to that block's own hash (the parent
    of the block just disconnected: `*prevBlock` / `currentHeader.BlockHash()`),
    not to ITS parent (`currentHeader.PrevBlock`).  Source path: an anchored
    regular expression over the loop body; any other right-hand side is
    refused and the PROBE decides: harness/cmd/c15bd runs the REAL
    BitcoindConn (RPC polling) + BitcoindClient against a loopback stub node
    through its fixed witness reorganisations (depth 1, 2, 3, 4, back to back);
    true iff every BlockDisconnected names the block it detaches, false iff
    every disconnect after the first of a reorganisation names the block one
    below (what the model's `false` branch emits), anything else fails.

The model Sync/Sync.v takes both as parameters; the theorems of
Properties/C15.v take `disconnect_records_parent_hash = true` (and
`0 < max_reorg_depth`) as premises discharged by eq_refl.

Each fact is determined on one of two paths:

  source  (primary) harness/cmd/extract-c15 reads the source (go/ast).  It
          understands the incremental construction of the stamp
          (`bs := BlockStamp{Height: b.Height-1}` ... `<x>.Hash = *hash`) and
          the equivalent single composite literal built after the fetch
          (`BlockStamp{Height: <b.Height-1>, Hash: *<fetched>, ...}`), with the
          height given directly or through a local defined once; anything else
          is refused, not guessed.

  probe   (fallback, only for a fact whose shape was refused)
          harness/cmd/probe-c15 is built against `repo` (harness module, tag
          verif) and run:
          - disconnect_records_parent_hash: the witness of C15_refuted_at_pinned
            / corpus/C15/s1_*: new wallet, connect 1..n with the wallet's own
            connectBlock, disconnect n with its own disconnectBlock, read back
            SyncedTo().Hash and BlockHash(n-1).  disconnectBlock hands one stamp
            to SetSyncedTo, which stores its Hash field as the synced-to hash and
            as the hash of height n-1; so both read-backs ARE that field, and the
            simulated chain knows the parent's true hash.  Six instances (n = 1
            with the genesis block as parent, 3, 5; with and without a birthday
            block, i.e. with and without the predecessor check of PutSyncedTo).
            true  iff every instance is accepted (synced-to height n-1) and both
                  hashes are the parent's;
            false iff every instance is accepted and both hashes are all-zero
                  (exactly what the model's `false` branch stores);
            anything else (mixed, other hashes, disconnect not accepted, error)
            is inconsistent with both instances of the model: the probe fails.
          - max_reorg_depth: the exported constant, validated against the
            pruning rule the model attaches to it (SetSyncedTo for heights
            1..M+2: exactly the entries 1 and 2 disappear).

The Generated file says which path produced the facts
(`(* facts source: source | probe ... *)`); lib/c15.py copies that into the
evidence.  Only if BOTH paths fail for a fact does main() raise (the message
carries both reasons), so that the check reports a broken obligation instead
of silently keeping an old fact."""
import hashlib, json, os, re, shutil, subprocess

import vlib


class ExtractError(Exception):
    pass


def sanitize(msg):
    return re.sub(r"\s+", " ", msg or "").replace("(*", "( *").replace("*)", "* )")


def source_facts(repo):
    """returns the JSON object of harness/cmd/extract-c15 (per fact: ok/value/why)"""
    with vlib.Lock("go"):
        p = subprocess.run(["go", "run", "./cmd/extract-c15", repo], cwd=vlib.HARNESS, env=vlib.GOENV,
                           stdout=subprocess.PIPE, stderr=subprocess.PIPE, text=True, timeout=280)
    if p.returncode != 0:
        raise ExtractError("extract-c15 failed on %s (rc=%d): %s" % (repo, p.returncode, p.stderr.strip()[-1500:]))
    return json.loads(p.stdout)


def _run_probe(repo):
    """build harness/cmd/probe-c15 against `repo` and run it"""
    with vlib.Lock("go"):
        os.makedirs(os.path.join(vlib.WORK, "bin"), exist_ok=True)
        modflag = []
        if repo == "/repo":
            shutil.copyfile(os.path.join(repo, "go.sum"), os.path.join(vlib.HARNESS, "go.sum"))
        else:
            alt = os.path.join(vlib.WORK, "probe_c15_%s.mod" % hashlib.sha1(repo.encode()).hexdigest()[:8])
            txt = open(os.path.join(vlib.HARNESS, "go.mod")).read().replace("=> /repo", "=> " + repo)
            open(alt, "w").write(txt)
            shutil.copyfile(os.path.join(repo, "go.sum"), alt[:-4] + ".sum")
            modflag = ["-modfile=" + alt]
        exe = os.path.join(vlib.WORK, "bin", "probe-c15")
        p = subprocess.run(["go", "build"] + modflag + ["-tags", "verif", "-o", exe, "./cmd/probe-c15"],
                           cwd=vlib.HARNESS, env=vlib.GOENV, stdout=subprocess.PIPE, stderr=subprocess.PIPE,
                           text=True, timeout=900)
        if p.returncode != 0:
            raise ExtractError("probe: harness/cmd/probe-c15 does not build against %s: %s" % (
                repo, (p.stdout + p.stderr)[-1500:]))
    p = subprocess.run([exe], cwd=vlib.WORK, stdout=subprocess.PIPE, stderr=subprocess.PIPE, text=True, timeout=300)
    if p.returncode != 0:
        raise ExtractError("probe: probe-c15 failed: %s" % p.stderr[-1500:])
    return json.loads(p.stdout)


def probe_hash_fact(resp):
    inst = resp.get("instances") or []
    if len(inst) < 6:
        raise ExtractError("probe: only %d witness instances reported" % len(inst))
    bad = [i for i in inst if i.get("err") or not i.get("accepted")]
    if bad:
        raise ExtractError("probe: the witness scenario did not reach SetSyncedTo in instance n=%d birthday=%s: %s" % (
            bad[0]["n"], bad[0]["birthday"], bad[0].get("err") or "disconnect of the tip not accepted"))
    if all(i["synced_is_parent"] and i["stored_is_parent"] for i in inst):
        return True
    if all(i["synced_is_zero"] and i["stored_is_zero"] for i in inst):
        return False
    raise ExtractError("probe: after connect 1..n, disconnect n the synced-to hash / the hash stored for n-1 is neither "
                       "always the parent's nor always all-zero: %s" % json.dumps(inst)[:600])


def probe_depth_fact(resp):
    if not resp.get("prune_ok"):
        raise ExtractError("probe: MaxReorgDepth = %s but the pruning rule h - MaxReorgDepth is not what PutSyncedTo does: %s" % (
            resp.get("max_reorg_depth"), resp.get("prune_detail")))
    return int(resp["max_reorg_depth"])


def strip_comments(src):
    src = re.sub(r"/\*.*?\*/", " ", src, flags=re.S)
    return "\n".join(re.sub(r"//.*$", "", l) for l in src.split("\n"))


def bitcoind_source_fact(repo):
    """(value, why) from the shape of the walk-back loop of BitcoindClient.reorg"""
    path = os.path.join(repo, "chain", "bitcoind_client.go")
    src = strip_comments(open(path).read())
    m = re.search(r"func \(c \*BitcoindClient\) reorg\(", src)
    if not m:
        raise ExtractError("chain/bitcoind_client.go: func (c *BitcoindClient) reorg not found")
    body = src[m.end():]
    nxt = re.search(r"^func ", body, flags=re.M)
    body = body[:nxt.start()] if nxt else body
    lm = re.search(r"for\s+previousBlock\s*!=\s*currentHeader\.PrevBlock\s*\{", body)
    if not lm:
        raise ExtractError("reorg: walk-back loop `for previousBlock != currentHeader.PrevBlock` not found")
    i, depth = lm.end(), 1
    j = i
    while j < len(body) and depth:
        depth += {"{": 1, "}": -1}.get(body[j], 0)
        j += 1
    loop = body[i:j]
    if not re.search(r"prevBlock\s*:=\s*&currentHeader\.PrevBlock\s*\n\s*currentHeader\s*,\s*err\s*=\s*c\.GetBlockHeader\(prevBlock\)", loop):
        raise ExtractError("reorg: `prevBlock := &currentHeader.PrevBlock; currentHeader, err = c.GetBlockHeader(prevBlock)` not found in the loop")
    asg = re.findall(r"currentBlock\.Hash\s*=\s*([^\n]+)", loop)
    if len(asg) != 1:
        raise ExtractError("reorg: %d assignments to currentBlock.Hash in the walk-back loop" % len(asg))
    rhs = asg[0].strip()
    if rhs in ("*prevBlock", "currentHeader.BlockHash()"):
        return True, "reorg walk-back loop: currentBlock.Hash = %s (the block's own hash)" % rhs
    if rhs == "currentHeader.PrevBlock":
        return False, "reorg walk-back loop: currentBlock.Hash = currentHeader.PrevBlock (the PARENT of the block to disconnect)"
    raise ExtractError("reorg: right-hand side of currentBlock.Hash not recognised: %s" % rhs)


def _build_c15bd(repo):
    with vlib.Lock("go"):
        os.makedirs(os.path.join(vlib.WORK, "bin"), exist_ok=True)
        modflag, tag = [], ""
        if repo == "/repo":
            shutil.copyfile(os.path.join(repo, "go.sum"), os.path.join(vlib.HARNESS, "go.sum"))
        else:
            tag = "_" + hashlib.sha1(repo.encode()).hexdigest()[:8]
            alt = os.path.join(vlib.WORK, "probe_c15bd%s.mod" % tag)
            txt = open(os.path.join(vlib.HARNESS, "go.mod")).read().replace("=> /repo", "=> " + repo)
            open(alt, "w").write(txt)
            shutil.copyfile(os.path.join(repo, "go.sum"), alt[:-4] + ".sum")
            modflag = ["-modfile=" + alt]
        exe = os.path.join(vlib.WORK, "bin", "c15bd" + tag)
        p = subprocess.run(["go", "build"] + modflag + ["-tags", "verif", "-o", exe, "./cmd/c15bd"],
                           cwd=vlib.HARNESS, env=vlib.GOENV, stdout=subprocess.PIPE, stderr=subprocess.PIPE,
                           text=True, timeout=900)
        if p.returncode != 0:
            raise ExtractError("probe: harness/cmd/c15bd does not build against %s: %s" % (repo, (p.stdout + p.stderr)[-1500:]))
    return exe


def disconnect_shape(case):
    """per reorganisation of a c15bd case: (depth, 'own' | 'below' | 'other')"""
    prev = {b["id"]: b["prev"] for b in case["blocks"]}
    out = []
    for st in case["steps"]:
        ds = [n for n in (st["ntfns"] or []) if n["k"] == "disc"]
        if len(ds) < 2:
            continue
        want, kinds = ds[0]["b"], set()
        for n in ds[1:]:
            want = prev.get(want, -1)
            kinds.add("own" if n["b"] == want else "below" if n["b"] == prev.get(want, -1) else "other")
        out.append((len(ds), kinds.pop() if len(kinds) == 1 else "other"))
    return out


def bitcoind_probe_fact(repo):
    exe = _build_c15bd(repo)
    p = subprocess.run([exe, "-n", "0"], cwd=vlib.WORK, stdout=subprocess.PIPE, stderr=subprocess.PIPE, text=True, timeout=300)
    if p.returncode != 0:
        raise ExtractError("probe: c15bd failed: %s" % p.stderr[-1500:])
    shapes = [s for line in p.stdout.splitlines() if line.strip() for s in disconnect_shape(json.loads(line)["bd"])]
    if len(shapes) < 5:
        raise ExtractError("probe: only %d reorganisations deeper than one block were notified in the witness cases" % len(shapes))
    kinds = set(k for _, k in shapes)
    if kinds == {"own"}:
        return True, "probe: in all %d witness reorganisations deeper than one block every BlockDisconnected names the block it detaches" % len(shapes)
    if kinds == {"below"}:
        return False, "probe: in all %d witness reorganisations every BlockDisconnected after the first names the block one below" % len(shapes)
    raise ExtractError("probe: BlockDisconnected hashes of the witness reorganisations fit neither instance of the model: %s" % shapes)


def rescan_source_fact(repo):
    """(value, why) from the shape of the walk back inside BitcoindClient.rescan"""
    path = os.path.join(repo, "chain", "bitcoind_client.go")
    src = strip_comments(open(path).read())
    m = re.search(r"func \(c \*BitcoindClient\) rescan\(", src)
    if not m:
        raise ExtractError("chain/bitcoind_client.go: func (c *BitcoindClient) rescan not found")
    body = src[m.end():]
    nxt = re.search(r"^func ", body, flags=re.M)
    body = body[:nxt.start()] if nxt else body
    lm = re.search(r"for\s+block\.Header\.PrevBlock\.String\(\)\s*!=\s*previousHeader\.Hash\s*\{", body)
    if not lm:
        raise ExtractError("rescan: walk-back loop `for block.Header.PrevBlock.String() != previousHeader.Hash` not found")
    i, depth = lm.end(), 1
    j = i
    while j < len(body) and depth:
        depth += {"{": 1, "}": -1}.get(body[j], 0)
        j += 1
    loop = re.sub(r"\s+", " ", body[i:j])
    fixed_fetch = re.search(r"\bi-- hash, err := c\.GetBlockHash\(int64\(i\)\)", loop) is not None
    old_fetch = re.search(r"hash, err := c\.GetBlockHash\(int64\(i - 1\)\)", loop) is not None and "i--" not in loop
    fixed_pop = re.search(r"if headers\.Back\(\) != nil \{ headers\.Remove\(headers\.Back\(\)\) \} if headers\.Back\(\) != nil \{", loop) is not None
    old_pop = re.search(r"if headers\.Back\(\) != nil \{ headers\.Remove\(headers\.Back\(\)\) if headers\.Back\(\) != nil \{", loop) is not None
    if fixed_fetch and fixed_pop:
        return True, "rescan walk back: `i--` before GetBlockHash(i); the list is popped first and an empty list asks the node at once"
    if old_fetch and old_pop:
        return False, "rescan walk back: GetBlockHash(i - 1) with the loop height unchanged; an emptied list keeps the removed header"
    raise ExtractError("rescan: shape of the walk back not recognised (fetch: fixed=%s old=%s; pop: fixed=%s old=%s)" % (
        fixed_fetch, old_fetch, fixed_pop, old_pop))


def rescan_probe_fact(repo):
    exe = _build_c15bd(repo)
    p = subprocess.run([exe, "-n", "0"], cwd=vlib.WORK, stdout=subprocess.PIPE, stderr=subprocess.PIPE, text=True, timeout=300)
    if p.returncode != 0:
        raise ExtractError("probe: c15bd failed: %s" % p.stderr[-1500:])
    cs = [json.loads(l) for l in p.stdout.splitlines() if l.strip()]
    rs = [c for c in cs if c["in"]["steps"] and c["in"]["steps"][0]["k"] == "rescan" and c["in"]["steps"][0].get("at")]
    if len(rs) < 3:
        raise ExtractError("probe: only %d rescan witnesses with a reorganisation ran" % len(rs))
    # does the walk back run past the common ancestor (a BlockDisconnected for the genesis block)?
    to_genesis = [any(n["k"] == "disc" and n["h"] == 0 for st in c["bd"]["steps"] for n in st["ntfns"] or []) for c in rs]
    clean = [not c["oracle"] for c in rs]
    if all(clean):
        return True, "probe: all %d rescan witnesses with a reorganisation during the rescan end on the node's tip with a valid stream" % len(rs)
    hit = [c for c in rs if c["in"]["name"] in ("w-rescan-reorg-depth1-at-fetched-block", "w-rescan-reorg-depth3-below-fetched-blocks")]
    if hit and all(any(n["k"] == "disc" and n["h"] == 0 for st in c["bd"]["steps"] for n in st["ntfns"] or []) for c in hit):
        return False, "probe: a reorganisation below a block the rescan has fetched makes it disconnect every block down to genesis"
    raise ExtractError("probe: rescan witnesses fit neither instance of the model: clean=%s to_genesis=%s" % (clean, to_genesis))


def rescan_fact(repo):
    try:
        v, why = rescan_source_fact(repo)
        return v, why, "source"
    except (ExtractError, OSError) as e1:
        try:
            v, why = rescan_probe_fact(repo)
            return v, why + " (source shape not recognised: %s)" % sanitize(str(e1))[:300], "probe"
        except (ExtractError, OSError, ValueError, KeyError, subprocess.SubprocessError) as e2:
            raise ExtractError("bitcoind_rescan_steps_down: source shape not recognised (%s) AND probing the built code failed (%s)" % (e1, e2))


def bitcoind_fact(repo):
    """(value, why, path)"""
    try:
        v, why = bitcoind_source_fact(repo)
        return v, why, "source"
    except (ExtractError, OSError) as e1:
        try:
            v, why = bitcoind_probe_fact(repo)
            return v, why + " (source shape not recognised: %s)" % sanitize(str(e1))[:300], "probe"
        except (ExtractError, OSError, ValueError, KeyError, subprocess.SubprocessError) as e2:
            raise ExtractError("bitcoind_reorg_disconnects_own_hash: source shape not recognised (%s) AND probing the built code failed (%s)" % (e1, e2))


def facts(repo):
    """returns dict(hash, depth, why, source_line)"""
    out = _facts(repo)
    out["bd"], out["bd_why"], out["bd_path"] = bitcoind_fact(repo)
    out["rs"], out["rs_why"], out["rs_path"] = rescan_fact(repo)
    return out


def _facts(repo):
    src_err = None
    try:
        s = source_facts(repo)
    except (ExtractError, OSError, ValueError, subprocess.SubprocessError) as e:
        s, src_err = {}, str(e)
    rel = lambda m: (m or "").replace(repo.rstrip("/") + "/", "")      # noqa: E731
    h, d = s.get("records_parent_hash") or {}, s.get("max_reorg_depth") or {}
    ro = s.get("recovery_before_rollback") or {}
    if not ro.get("ok"):
        raise ExtractError("recovery_before_rollback: order of recovery and rollback loop in syncWithChain not recognised: %s" % (
            rel(ro.get("why") or src_err or "no answer")))
    need = []
    if not h.get("ok"):
        need.append(("disconnect_records_parent_hash", rel(h.get("why") or src_err or "no answer")))
    if not d.get("ok"):
        need.append(("max_reorg_depth", rel(d.get("why") or src_err or "no answer")))
    out = dict(info=s, rec_first=bool(ro["value"]), rec_why=ro.get("why", ""))
    if h.get("ok"):
        out["hash"], out["why"] = bool(h["value"]), h.get("why", "")
    if d.get("ok"):
        out["depth"] = int(d["value"])
    if not need:
        out["source_line"] = "source (shape of disconnectBlock and of MaxReorgDepth / staleHeight recognised)"
        return out
    try:
        resp = _run_probe(repo)
        if "hash" not in out:
            out["hash"] = probe_hash_fact(resp)
            out["why"] = ("probe: connect 1..n, disconnect n (n = 1, 3, 5; with / without birthday block): synced-to hash and "
                          "hash stored for n-1 are %s in all %d instances" % (
                              "the parent's" if out["hash"] else "all-zero", len(resp["instances"])))
        if "depth" not in out:
            out["depth"] = probe_depth_fact(resp)
    except (ExtractError, OSError, ValueError, KeyError, subprocess.SubprocessError) as e2:
        raise ExtractError("source shape not recognised (%s) AND probing the built code failed (%s)" % (
            "; ".join("%s: %s" % n for n in need), e2))
    out["source_line"] = "probe (%s; determined by running the code built from the repository, harness/cmd/probe-c15)" % (
        "; ".join("%s - source shape not recognised: %s" % (n, sanitize(w)[:300]) for n, w in need))
    return out


def render(f):
    info = f.get("info") or {}
    return """(* GENERATED by lib/extract_c15.py (harness/cmd/extract-c15, go/ast; fallback harness/cmd/probe-c15)
   from the repository's wallet/chainntfns.go, wallet/wallet.go and waddrmgr/db.go.
   Do not edit; bin/extract rewrites it from the current source. *)
(* facts source: %s *)
From Coq Require Import ZArith Bool.
Local Open Scope Z_scope.

(* disconnectBlock: %s *)
Definition disconnect_records_parent_hash : bool := %s.

(* waddrmgr.MaxReorgDepth; staleHeight(h) = h - MaxReorgDepth *)
Definition max_reorg_depth : Z := %d.

(* %s *)
Definition recovery_before_rollback : bool := %s.

(* chain/bitcoind_client.go [%s]: %s *)
Definition bitcoind_reorg_disconnects_own_hash : bool := %s.

(* chain/bitcoind_client.go [%s]: %s *)
Definition bitcoind_rescan_steps_down : bool := %s.

(* informational (not used by the model):
   known-block test of disconnectBlock : %s
   TxStore.Rollback in disconnectBlock  : %s
   TxStore.Rollback in syncWithChain    : %s *)
""" % (sanitize(f["source_line"]), sanitize(f["why"]), "true" if f["hash"] else "false", f["depth"],
       sanitize(f["rec_why"]), "true" if f["rec_first"] else "false",
       f["bd_path"], sanitize(f["bd_why"]), "true" if f["bd"] else "false",
       f["rs_path"], sanitize(f["rs_why"]), "true" if f["rs"] else "false",
       sanitize(info.get("known_block_test")), sanitize(info.get("rollback_arg")), sanitize(info.get("startup_rollback")))


def main(repo, outdir, write_if_changed):
    write_if_changed(os.path.join(outdir, "SyncFacts.v"), render(facts(repo)))
