"""C19: regenerate coq/Generated/MigrateFacts.v from the repository.

The atomicity theorems of Properties/C19.v ("a failed upgrade leaves the
database unchanged") are proved from five facts about the code, which
Migrate/Migrate.v bundles as `repo_code`:

  mig_error_returned    walletdb/migration/manager.go `upgrade`: a migration's
                        error is returned at once
  setv_error_returned   same function: SetVersion's error is returned
  mgr_error_returned    `Upgrade`: a service's error is returned at once
  one_update            every function that calls migration.Upgrade does so
                        once, inside ONE walletdb.Update closure, no loop
  update_gets_error     that closure returns Upgrade's error

Each fact is determined on one of two paths:

  source  (primary) harness/cmd/extract-c19 reads the source (go/ast; the
          accepted equivalent shapes of "the error of this call is returned"
          are listed at the head of its main.go).  A shape it does not know is
          refused, not guessed.
  probe   (fallback, only for a fact whose shape was refused) `c19 -probe`
          (harness/cmd/c19/probe.go; built against `repo` with -tags verif):
          instrumented services through migration.Upgrade for the three facts
          about manager.go, and wallet.OpenWithRetry on real old-version
          databases with a write failure at EVERY mutating call of the upgrade
          for the two facts about the call site.  The probe runs ONE call site
          (it says which: `sites_exercised`); the source reader always lists
          every call of migration.Upgrade in the repository, and the probe is
          accepted for the call-site facts only if that list contains nothing
          the probe did not run.

Only if both paths fail for a fact does main() raise (the message carries both
reasons): the check then reports a broken obligation instead of keeping an old
fact.  VERIF_C19_FORCE_PROBE=1 (development aid) skips the source path for
the five facts (the list of call sites is still read from the source)."""
import hashlib, json, os, re, shutil, subprocess

import vlib

FACTS = ["mig_error_returned", "setv_error_returned", "mgr_error_returned", "one_update", "update_gets_error"]
SITE_FACTS = ("one_update", "update_gets_error")

COMMENT = {
    "mig_error_returned": "walletdb/migration/manager.go upgrade: the error of version.Migration(ns) is returned at once",
    "setv_error_returned": "walletdb/migration/manager.go upgrade: the error of mgr.SetVersion(ns, latest) is returned",
    "mgr_error_returned": "walletdb/migration/manager.go Upgrade: the error of upgrade(mgr) is returned at once",
    "one_update": "every function calling migration.Upgrade does so once, inside ONE walletdb.Update closure, no loop around it",
    "update_gets_error": "that closure returns the error of migration.Upgrade (so that Update rolls back)",
}


class ExtractError(Exception):
    pass


def sanitize(s):
    # (line numbers are dropped: an unrelated edit above a call site must not rewrite the file)
    s = re.sub(r"(\.go):\d+", r"\1", s or "")
    return re.sub(r"\s+", " ", s.replace("(*", "( *").replace("*)", "* )"))


def source_facts(repo):
    with vlib.Lock("go"):
        p = subprocess.run(["go", "run", "./cmd/extract-c19", repo], cwd=vlib.HARNESS, env=vlib.GOENV,
                           stdout=subprocess.PIPE, stderr=subprocess.PIPE, text=True, timeout=280)
    if p.returncode != 0:
        raise ExtractError("extract-c19 failed on %s (rc=%d): %s" % (repo, p.returncode, p.stderr.strip()[-1500:]))
    return json.loads(p.stdout)


def run_probe(repo):
    """build harness/cmd/c19 against `repo` and run it with -probe"""
    with vlib.Lock("go"):
        os.makedirs(os.path.join(vlib.WORK, "bin"), exist_ok=True)
        modflag = []
        if repo == "/repo":
            shutil.copyfile(os.path.join(repo, "go.sum"), os.path.join(vlib.HARNESS, "go.sum"))
        else:
            alt = os.path.join(vlib.WORK, "probe_c19_%s.mod" % hashlib.sha1(repo.encode()).hexdigest()[:8])
            txt = open(os.path.join(vlib.HARNESS, "go.mod")).read().replace("=> /repo", "=> " + repo)
            open(alt, "w").write(txt)
            shutil.copyfile(os.path.join(repo, "go.sum"), alt[:-4] + ".sum")
            modflag = ["-modfile=" + alt]
        exe = os.path.join(vlib.WORK, "bin", "probe-c19")
        p = subprocess.run(["go", "build"] + modflag + ["-tags", "verif", "-o", exe, "./cmd/c19"], cwd=vlib.HARNESS,
                           env=vlib.GOENV, stdout=subprocess.PIPE, stderr=subprocess.PIPE, text=True, timeout=900)
        if p.returncode != 0:
            raise ExtractError("probe: harness/cmd/c19 does not build against %s: %s" % (repo, (p.stdout + p.stderr)[-1500:]))
    p = subprocess.run([exe, "-probe"], cwd=vlib.WORK, env=vlib.GOENV, stdout=subprocess.PIPE, stderr=subprocess.PIPE,
                       text=True, timeout=300)
    if p.returncode != 0:
        raise ExtractError("probe: c19 -probe failed: %s" % p.stderr.strip()[-1500:])
    return json.loads(p.stdout)


def facts(repo):
    """returns dict(values={fact: bool}, why={fact: str}, sites=[...], source_line=str)"""
    rel = lambda m: (m or "").replace(repo.rstrip("/") + "/", "")      # noqa: E731
    # the list of call sites always comes from the source
    s = source_facts(repo)
    sites = s.get("sites") or []
    force = bool(os.environ.get("VERIF_C19_FORCE_PROBE"))
    values, why, need = {}, {}, []
    for f in FACTS:
        a = s.get(f) or {}
        if a.get("ok") and not force:
            values[f], why[f] = bool(a["value"]), rel(a.get("why", ""))
        else:
            need.append((f, "source reader skipped (VERIF_C19_FORCE_PROBE)" if force else rel(a.get("why") or "no answer")))
    if not need:
        return dict(values=values, why=why, sites=sites,
                    source_line="source (shapes of upgrade / Upgrade and of every call site of migration.Upgrade recognised)")
    try:
        resp = run_probe(repo)
        ran = set(resp.get("sites_exercised") or [])
        for f, _ in need:
            if f in SITE_FACTS:
                here = ["%s:%s" % (x["file"], x["func"]) for x in sites]
                missed = [h for h in here if h not in ran]
                if missed or not here:
                    raise ExtractError("probe: it runs %s, but the repository calls migration.Upgrade in %s" % (
                        sorted(ran), here or "no function at all"))
            a = resp.get(f) or {}
            if not a.get("ok"):
                raise ExtractError(a.get("why") or "probe: no answer for %s" % f)
            values[f], why[f] = bool(a["value"]), a.get("why", "")
    except (ExtractError, OSError, ValueError, KeyError, subprocess.SubprocessError) as e2:
        raise ExtractError("source shape not recognised (%s) AND probing the built code failed (%s)" % (
            "; ".join("%s: %s" % n for n in need), e2))
    return dict(values=values, why=why, sites=sites,
                source_line="probe (%s; determined by %d scenarios run on the code built from the repository, harness/cmd/c19 -probe)" % (
                    "; ".join("%s - source shape not recognised: %s" % (n, sanitize(w)[:300]) for n, w in need),
                    resp.get("scenarios", 0)))


def render(f):
    rows = []
    for name in FACTS:
        rows.append("(* %s\n   %s *)\nDefinition %s : bool := %s." % (
            COMMENT[name], sanitize(f["why"][name])[:600], name, "true" if f["values"][name] else "false"))
    sites = "\n".join("   %s %s" % (x["file"], x["func"]) for x in f["sites"]) or "   (none)"
    return """(* GENERATED by lib/extract_c19.py (harness/cmd/extract-c19, go/ast; fallback harness/cmd/c19 -probe)
   from the repository's walletdb/migration/manager.go and every call of migration.Upgrade.
   Do not edit; bin/extract rewrites it from the current source. *)
(* facts source: %s *)

%s

(* call sites of migration.Upgrade in the repository (informational):
%s *)
""" % (sanitize(f["source_line"]), "\n\n".join(rows), sites)


def main(repo, outdir, write_if_changed):
    write_if_changed(os.path.join(outdir, "MigrateFacts.v"), render(facts(repo)))
