"""C05: regenerate coq/Generated/LockFacts.v from the repository's source.

The facts come from harness/cmd/extract-c05 (go/ast over waddrmgr/*.go):
  cache_checked_for_lock         DeriveFromKeyPathCache tests watch-only and locked (returning an
                                 error) before it consults privKeyCache
  lock_purges_key_cache          Manager.lock() empties every scoped manager's privKeyCache
  lock_wipes_witness_scripts     the type switch of Manager.lock() covers *witnessScriptAddress and
                                 *taprootScriptAddress
  lock_wipes_last_addrs          Manager.lock() wipes accountInfo.lastExternalAddr / lastInternalAddr
  unlock_skips_keyless_accounts  Manager.Unlock skips cached accounts without an encrypted private key
  keyless_addresses_not_queued   keyToManaged queues a public-only address for derive-on-unlock only
                                 when its account has an encrypted private key
  change_rejects_empty_private   ChangePassphrase refuses an empty new private passphrase (as Create
                                 does); with an empty passphrase append(salt[:], passphrase...) aliases
                                 the manager's salt and zero.Bytes() then wipes it
  privkey_checks_lock_first      managedAddress.PrivKey returns the locked error before it calls
                                 unlock(), and unlock() tests privKeyEncrypted before the cached
                                 clear text (false: both tests sit inside `if len(privKeyCT) == 0`)
  unlock_loads_queued_accounts   Manager.Unlock calls loadAccountInfo for the account of every
                                 deriveOnUnlock entry before it decrypts the cached account keys

  lock_zeroes_account_keys       lock() calls acctKeyPriv.Zero() before acctKeyPriv = nil
  address_lock_zeroes_key        managedAddress.lock() calls zero.Bytes(privKeyCT) before privKeyCT = nil
  address_lock_zeroes_script     baseScriptAddress.lock() calls zero.Bytes(scriptClearText) before = nil
  lock_zeroes_cached_keys        the purge of privKeyCache zeroes every key it deletes
  lock_zeroes_manager_keys       lock() zeroes cryptoKeyScript / cryptoKeyPriv / masterKeyPriv / hashedPrivPassphrase
  markused_wipes_evicted, invalidate_wipes_evicted, next_wipes_replaced_last,
  unlock_leaves_no_cleartext_in_dropped, lru_eviction_zeroes
                                 an object that leaves the manager's state while it is unlocked is wiped
                                 first (on the present tree: false - the known findings
                                 evicted_cleartext_survives_lock; the theorems take them as an explicit premise)
  priv_key_cache_size            defaultPrivKeyCacheSize (capacity of the LRU of derived keys)

The model coq/Addr/Lock.v is parameterised by these booleans; the theorems of
coq/Properties/C05.v take `= true` premises discharged by eq_refl, so that file
stops compiling when the source loses one of the behaviours.  The extractor
refuses shapes it does not understand; that becomes an exception here, so the
check reports a broken obligation instead of keeping an old file."""
import json, os, subprocess

import vlib

NAMES = ["cache_checked_for_lock", "lock_purges_key_cache", "lock_wipes_witness_scripts",
         "lock_wipes_last_addrs", "unlock_skips_keyless_accounts", "keyless_addresses_not_queued",
         "change_rejects_empty_private", "privkey_checks_lock_first", "unlock_loads_queued_accounts",
         "lock_zeroes_account_keys", "address_lock_zeroes_key", "address_lock_zeroes_script",
         "lock_zeroes_cached_keys", "lock_zeroes_manager_keys",
         "markused_wipes_evicted", "invalidate_wipes_evicted", "next_wipes_replaced_last",
         "unlock_leaves_no_cleartext_in_dropped", "lru_eviction_zeroes"]


class ExtractError(RuntimeError):
    pass


def extract(repo):
    """primary path: the source-shape reader (harness/cmd/extract-c05, go/ast)"""
    with vlib.Lock("go"):
        p = subprocess.run(["go", "run", "./cmd/extract-c05", repo], cwd=vlib.HARNESS, env=vlib.GOENV,
                           stdout=subprocess.PIPE, stderr=subprocess.PIPE, text=True, timeout=280)
    if p.returncode != 0:
        raise ExtractError("extract-c05 failed on %s (rc=%d): %s" % (repo, p.returncode, p.stderr.strip()[-2000:]))
    return json.loads(p.stdout)


# ------------------------------------------------------------------ fallback path: probing the built code

def _run_scenarios(repo, scenarios):
    """build harness/cmd/c05 (the correspondence harness: the REAL waddrmgr on a bbolt file) against `repo`
    and replay the given operation lists; returns one observed case per scenario"""
    import hashlib, shutil
    with vlib.Lock("go"):
        os.makedirs(os.path.join(vlib.WORK, "bin"), exist_ok=True)
        modflag = []
        if repo == "/repo":
            shutil.copyfile(os.path.join(repo, "go.sum"), os.path.join(vlib.HARNESS, "go.sum"))
        else:
            alt = os.path.join(vlib.WORK, "extract_c05_%s.mod" % hashlib.sha1(repo.encode()).hexdigest()[:8])
            txt = open(os.path.join(vlib.HARNESS, "go.mod")).read().replace("=> /repo", "=> " + repo)
            open(alt, "w").write(txt)
            shutil.copyfile(os.path.join(repo, "go.sum"), alt[:-4] + ".sum")
            modflag = ["-modfile=" + alt]
        exe = os.path.join(vlib.WORK, "bin", "extract-c05-probe")
        p = subprocess.run(["go", "build"] + modflag + ["-tags", "verif", "-o", exe, "./cmd/c05"], cwd=vlib.HARNESS,
                           env=vlib.GOENV, stdout=subprocess.PIPE, stderr=subprocess.PIPE, text=True, timeout=900)
        if p.returncode != 0:
            raise ExtractError("probe: harness/cmd/c05 does not build against %s: %s" % (repo, (p.stdout + p.stderr)[-1500:]))
    path = os.path.join(vlib.WORK, "extract_c05_probe.jsonl")
    with open(path, "w") as f:
        for ops in scenarios:
            f.write(json.dumps({"in": {"pub": 9, "priv": 1, "probe": "none", "probe_seed": 0, "ops": ops}}) + "\n")
    p = subprocess.run([exe, "-replay", path], cwd=vlib.WORK, env=vlib.GOENV, stdout=subprocess.PIPE,
                       stderr=subprocess.PIPE, text=True, timeout=300)
    if p.returncode != 0:
        raise ExtractError("probe: c05 -replay failed: %s" % p.stderr[-1500:])
    cases = [json.loads(l) for l in p.stdout.splitlines() if l.strip()]
    if len(cases) != len(scenarios):
        raise ExtractError("probe: %d scenarios, %d results" % (len(scenarios), len(cases)))
    return cases


def _cache_size(repo):
    """the capacity constant cannot be observed by a short run: read it from the source (both paths use it)"""
    import re
    for fn in sorted(os.listdir(os.path.join(repo, "waddrmgr"))):
        if fn.endswith(".go") and not fn.endswith("_test.go"):
            m = re.search(r"\bdefaultPrivKeyCacheSize\s*=\s*([0-9_]+)", open(os.path.join(repo, "waddrmgr", fn)).read())
            if m:
                return int(m.group(1).replace("_", ""))
    raise ExtractError("probe: constant defaultPrivKeyCacheSize not found in waddrmgr/*.go")


def probe_facts(repo):
    """Facts determined by RUNNING the code built from `repo` (fallback when the source shape is not recognised).

    Every fact is the absence of one defect behaviour, and each has a minimal scenario that shows the defect whenever
    the code has it - the scenarios of the C05_refuted_* theorems (Properties/C05.v) and of the corpus replays
    (corpus/C05).  The scenarios run through the correspondence harness (real waddrmgr, bbolt file, hook
    VerifSecretBuffers + reflection); each is run in two instances (different scope / path / script kind).
    P = 1 is the private passphrase, scopes 0 and 2 are m/84'/0' and m/44'/0'.

      cache_checked_for_lock   [unlock P; props; dcache i; lock; dcache j]  (j never derived, account cached).  With the
          lock test in front of the cache lookup the last call returns ErrLocked whatever the cache holds; without
          it the call goes on to derive from the PUBLIC account key and fails with ErrNotPrivExtKey (class other) -
          or returns the key if j is cached.  true iff class locked.  Further instances: the cached path i itself
          after [invalidate; lock] (a key that survived in the cache must not come back), and [.. convert; dcache j],
          which must give watchonly.
      lock_purges_key_cache    [unlock P; props; dcache i; lock]: the hook reports privKeyCache:<scope> live iff the
          cache still has entries; dcache i succeeded, so the cache had one.  true iff not live after Lock.
          (Whether the purged KEYS are zeroed is lock_zeroes_cached_keys below.)
      lock_zeroes_* / address_lock_zeroes_*   [unlock P; props; next; privkey; import key; import p2sh and witness
          scripts; dcache; lock]: every class of buffer is live before Lock (checked); the harness keeps a
          reference to every backing array / key object (secrets.go) and looks at the BYTES after Lock: a fact is
          true iff no buffer of its class still holds them - setting the field to nil or deleting the cache entry
          is not enough.
      *_wipes_evicted / next_wipes_replaced_last / unlock_leaves_no_cleartext_in_dropped / lru_eviction_zeroes
          the witness histories of the C05_refuted_without_*_wipe theorems: the object leaves the manager's state
          during the named operation while the manager is unlocked; then Lock; true iff the retained reference
          shows no clear text.
      lock_wipes_witness_scripts  [unlock P; import a secret witness script; import a secret taproot script; lock]:
          the import leaves the clear text in the object; true iff both buffers are dead after Lock, false iff both
          are live, anything else is refused (the model has one fact for both kinds).
      lock_wipes_last_addrs    [unlock P; props; lock]: loadAccountInfo while unlocked builds the last external /
          internal address objects from PRIVATE keys (clear text live, objects not in the addrs map); true iff
          their clear text is dead after Lock.
      unlock_skips_keyless_accounts / keyless_addresses_not_queued  [newwatch; next (loads the keyless account, and
          queues its addresses unless keyToManaged refuses); unlock P]: crypto ("failed to decrypt account") = Unlock
          does not skip; panic = it skips but the queued address is dereferenced; ok = both facts hold.  When Unlock
          does not skip, the queue is never reached and the second fact is not observable: it is reported false
          (the proof obligation fails on the first fact anyway).
      change_rejects_empty_private  [unlock P; chpriv P -> ""]: true iff the change is refused (class other).
      privkey_checks_lock_first  [unlock P; derive path; lock]: DeriveFromKeyPath while unlocked returns an object with
          live clear text that the manager does not track, so Lock cannot wipe it; the harness keeps it and calls
          PrivKey()/ExportPrivKey() after Lock.  true iff class locked; false iff the key comes back.
      unlock_loads_queued_accounts  [next (while locked: queued); invalidate; unlock P]: true iff Unlock succeeds,
          false iff it panics (the account reloaded while still locked has no private key).
    Any other outcome makes the probe path fail (no guess)."""
    k = lambda a, b, i: {"t": "c", "acct": a, "br": b, "idx": i}          # noqa: E731
    U = {"k": "unlock", "p": 1}
    sc = []

    def add(ops):
        sc.append(ops)
        return len(sc) - 1
    idx = {}
    idx["cache"] = [add([U, {"k": "props", "sc": s}, {"k": "dcache", "sc": s, "idx": 7}, {"k": "lock"},
                         {"k": "dcache", "sc": s, "idx": 8}]) for s in (0, 2)]
    # the cached key itself, with the account dropped from the account cache before Lock (a Lock that skips
    # scopes without cached accounts leaves the key in the cache)
    idx["cache_hit"] = [add([U, {"k": "props", "sc": s}, {"k": "dcache", "sc": s, "idx": 7}, {"k": "invalidate", "sc": s},
                             {"k": "lock"}, {"k": "dcache", "sc": s, "idx": 7}]) for s in (0, 2)]
    idx["cache_wo"] = [add([U, {"k": "props"}, {"k": "dcache", "idx": 7}, {"k": "convert"}, {"k": "dcache", "idx": 8}])]
    idx["wscripts"] = [add([U, {"k": "impscript", "sc": s, "n": 2, "kind": "witness", "sec": True},
                            {"k": "impscript", "sc": s, "n": 3, "kind": "taproot", "sec": True}, {"k": "lock"}]) for s in (0, 2)]
    idx["last"] = [add([U, {"k": "props", "sc": s}, {"k": "lock"}]) for s in (0, 2)]
    idx["keyless"] = [add([{"k": "newwatch", "sc": s}, {"k": "next", "sc": s, "acct": 1}, U]) for s in (2, 0)]
    idx["empty"] = [add([U, {"k": "chpriv", "p": 1, "q": 0}]), add([{"k": "chpriv", "p": 1, "q": 0}])]
    idx["privkey"] = [add([U, {"k": "derive", "sc": s, "idx": 11}, {"k": "lock"}]) for s in (0, 2)]
    idx["preload"] = [add([{"k": "next", "sc": s}, {"k": "invalidate", "sc": s}, U]) for s in (0, 2)]
    # zeroing, through the references the harness retains (harness/cmd/c05/secrets.go): every buffer class live, then Lock
    idx["zero"] = [add([U, {"k": "props", "sc": s}, {"k": "next", "sc": s}, {"k": "privkey", "sc": s, "a": k(0, 0, 0)},
                        {"k": "imppriv", "sc": s, "n": 1}, {"k": "impscript", "sc": s, "n": 2, "kind": "p2sh", "sec": True},
                        {"k": "impscript", "sc": s, "n": 3, "kind": "witness", "sec": True},
                        {"k": "dcache", "sc": s, "idx": 7}, {"k": "lock"}]) for s in (0, 2)]
    # objects that leave the manager's state while it is unlocked, then Lock
    idx["e_markused"] = [add([U, {"k": "next", "sc": s}, {"k": "next", "sc": s}, {"k": "markused", "sc": s, "a": k(0, 0, 0)},
                              {"k": "lock"}]) for s in (0, 2)]
    idx["e_invalidate"] = [add([U, {"k": "props", "sc": s}, {"k": "invalidate", "sc": s}, {"k": "lock"}]) for s in (0, 2)]
    idx["e_next"] = [add([U, {"k": "props", "sc": s}, {"k": "next", "sc": s}, {"k": "lock"}]) for s in (0, 2)]
    idx["e_unlock"] = [add([{"k": "next", "sc": s}, U, {"k": "lock"}]) for s in (0, 2)]
    cap = _cache_size(repo)
    idx["e_lru"] = [add([U, {"k": "props"}, {"k": "dcache", "idx": 7}, {"k": "dcachefill", "idx": 1000, "n": cap}, {"k": "lock"}])]
    cases = _run_scenarios(repo, sc)

    def calls(i, kind):
        return [e for e in cases[i]["obs"]["trace"] if "o" in e and e["o"]["k"] == kind]

    def last_snap(i):
        return [e["s"] for e in cases[i]["obs"]["trace"] if e.get("s")][-1]

    def agree(name, vals):
        if len(set(vals)) != 1:
            raise ExtractError("probe: the instances of the scenario for %s disagree: %s" % (name, vals))
        return vals[0]

    def need(cond, msg):
        if not cond:
            raise ExtractError("probe: " + msg)
    f, why = {}, {}
    # -- cache_checked_for_lock
    vals = []
    for i in idx["cache"]:
        d = calls(i, "dcache")
        need(len(d) == 2 and d[0]["r"] == "ok" and last_snap(i)["l"], "cache scenario did not run as intended: %s" % [x["r"] for x in d])
        need(d[1]["r"] in ("locked", "other", "ok"), "DeriveFromKeyPathCache while locked gave class %s" % d[1]["r"])
        vals.append(d[1]["r"] == "locked")
    for i in idx["cache_hit"]:
        d = calls(i, "dcache")
        need(len(d) == 2 and d[0]["r"] == "ok" and last_snap(i)["l"], "cache-hit scenario did not run as intended")
        need(d[1]["r"] in ("locked", "other", "ok", "notcached"), "DeriveFromKeyPathCache while locked gave class %s" % d[1]["r"])
        vals.append(d[1]["r"] == "locked")
    for i in idx["cache_wo"]:
        d = calls(i, "dcache")
        need(len(d) == 2 and d[0]["r"] == "ok" and last_snap(i)["w"], "watching-only cache scenario did not run as intended")
        need(d[1]["r"] in ("watchonly", "other", "ok", "locked"), "DeriveFromKeyPathCache while watching-only gave class %s" % d[1]["r"])
        vals.append(d[1]["r"] == "watchonly")
    # the defect shows if it shows in ANY instance
    f["cache_checked_for_lock"] = all(vals)
    why["cache_checked_for_lock"] = "DeriveFromKeyPathCache while locked / watching-only (uncached path, cached path, after conversion): %s" % (
        "locked / watching-only error in every instance" if all(vals) else "no locked error in instances %s" % [j for j, v in enumerate(vals) if not v])
    # -- lock_purges_key_cache
    vals = []
    for i in idx["cache"] + idx["cache_hit"]:
        snaps = [e["s"] for e in cases[i]["obs"]["trace"] if e.get("s")]
        after_lock = [sn for sn, prev in zip(snaps[1:], snaps) if sn["l"] and not prev["l"]]
        need(len(after_lock) == 1, "no snapshot right after Lock")
        b = [x for x in after_lock[0]["b"] if x["t"] == "cache" and x.get("sc", 0) == sc[i][1].get("sc", 0)]
        need(len(b) == 1, "no privKeyCache buffer reported")
        vals.append(not b[0]["live"])
    f["lock_purges_key_cache"] = all(vals)
    why["lock_purges_key_cache"] = "privKeyCache after Lock (account cached / dropped from the account cache): %s" % (
        "empty" if all(vals) else "still holds the derived key in instances %s" % [j for j, v in enumerate(vals) if not v])
    # -- lock_wipes_witness_scripts
    vals = []
    for i in idx["wscripts"]:
        need(all(c["r"] == "ok" for c in calls(i, "impscript")) and last_snap(i)["l"], "script scenario did not run as intended")
        b = [x["live"] for x in last_snap(i)["b"] if x["t"] == "script"]
        need(len(b) == 2, "expected two script buffers, found %d" % len(b))
        need(b[0] == b[1], "exactly one of the witness / taproot clear texts survives Lock: the model has no such case")
        vals.append(not b[0])
    f["lock_wipes_witness_scripts"] = agree("lock_wipes_witness_scripts", vals)
    why["lock_wipes_witness_scripts"] = "secret witness and taproot script clear text after Lock: %s" % ("wiped" if vals[0] else "live")
    # -- lock_wipes_last_addrs
    vals = []
    for i in idx["last"]:
        b = [x["live"] for x in last_snap(i)["b"] if x["t"] == "last"]
        need(len(b) == 2 and last_snap(i)["l"], "last-address scenario did not run as intended")
        need(b[0] == b[1], "exactly one of lastExternalAddr / lastInternalAddr survives Lock: the model has no such case")
        vals.append(not b[0])
    f["lock_wipes_last_addrs"] = agree("lock_wipes_last_addrs", vals)
    why["lock_wipes_last_addrs"] = "accountInfo.last{External,Internal}Addr clear text after Lock: %s" % ("wiped" if vals[0] else "live")
    # -- keyless accounts
    vals = []
    for i in idx["keyless"]:
        need(all(c["r"] == "ok" for c in calls(i, "newwatch") + calls(i, "next")), "keyless-account scenario did not run as intended")
        r = calls(i, "unlock")[-1]["r"]
        need(r in ("ok", "crypto", "panic"), "Unlock with a cached keyless account gave class %s" % r)
        vals.append(r)
    r = agree("unlock_skips_keyless_accounts", vals)
    f["unlock_skips_keyless_accounts"] = r != "crypto"
    f["keyless_addresses_not_queued"] = r == "ok"
    why["unlock_skips_keyless_accounts"] = "Unlock(right passphrase) with a cached watch-only account: class %s" % r
    why["keyless_addresses_not_queued"] = ("same scenario: class %s%s" % (
        r, " (not observable while Unlock rejects keyless accounts; reported false)" if r == "crypto" else ""))
    # -- change_rejects_empty_private
    vals = []
    for i in idx["empty"]:
        r = calls(i, "chpriv")[-1]["r"]
        need(r in ("ok", "other"), "ChangePassphrase to an empty private passphrase gave class %s" % r)
        vals.append(r == "other")
    f["change_rejects_empty_private"] = agree("change_rejects_empty_private", vals)
    why["change_rejects_empty_private"] = "ChangePassphrase(private, new = empty): %s" % ("refused" if vals[0] else "accepted")
    # -- privkey_checks_lock_first
    vals = []
    for i in idx["privkey"]:
        h = [e for e in calls(i, "hprivkey") if e["o"].get("org") == "derive" and e["o"].get("ct")]
        need(calls(i, "derive")[0]["r"] == "ok" and h and last_snap(i)["l"],
             "no kept DeriveFromKeyPath object with live clear text was probed after Lock")
        rs = {e["r"] for e in h}
        need(rs <= {"locked", "ok"} and len(rs) == 1, "PrivKey on a kept object while locked gave classes %s" % sorted(rs))
        vals.append(rs == {"locked"})
    f["privkey_checks_lock_first"] = agree("privkey_checks_lock_first", vals)
    why["privkey_checks_lock_first"] = "PrivKey() after Lock on a kept, untracked address object with live clear text: %s" % (
        "ErrLocked" if vals[0] else "returns the key")
    # -- unlock_loads_queued_accounts
    vals = []
    for i in idx["preload"]:
        need(calls(i, "next")[0]["r"] == "ok", "preload scenario did not run as intended")
        r = calls(i, "unlock")[-1]["r"]
        need(r in ("ok", "panic"), "Unlock after InvalidateAccountCache gave class %s" % r)
        vals.append(r == "ok")
    f["unlock_loads_queued_accounts"] = agree("unlock_loads_queued_accounts", vals)
    why["unlock_loads_queued_accounts"] = "Unlock after InvalidateAccountCache with a queued address: %s" % ("succeeds" if vals[0] else "nil dereference")
    # -- zeroing: what the retained references show after Lock
    def finds(i):
        return cases[i]["obs"].get("secret_findings") or []

    def ran(i, kinds):
        return all(c["r"] == "ok" for kk in kinds for c in calls(i, kk)) and last_snap(i)["l"]
    zero_classes = {
        "lock_zeroes_account_keys": lambda c: c == "accountInfo.acctKeyPriv",
        "address_lock_zeroes_key": lambda c: c == "managedAddress.privKeyCT",
        "address_lock_zeroes_script": lambda c: c.endswith(".scriptClearText"),
        "lock_zeroes_cached_keys": lambda c: c == "cachedKey.key",
        "lock_zeroes_manager_keys": lambda c: c.startswith("Manager."),
    }
    for i in idx["zero"]:
        need(ran(i, ("unlock", "props", "next", "privkey", "imppriv", "impscript", "dcache", "lock")),
             "zeroing scenario did not run as intended: %s" % [(e["o"]["k"], e["r"]) for e in cases[i]["obs"]["trace"] if "o" in e])
        # before Lock every class was live (otherwise nothing is shown)
        pre = [e["s"] for e in cases[i]["obs"]["trace"] if e.get("s") and not e["s"]["l"]][-1]
        live = {b["t"] for b in pre["b"] if b["live"]}
        need({"master", "cpriv", "hashed", "acct", "addr", "script", "cache"} <= live,
             "zeroing scenario: not every buffer class was live before Lock (%s)" % sorted(live))
    for name, pred in zero_classes.items():
        # (only what lock() itself dropped or still tracks: objects that left earlier are the e_* facts)
        bad = [x for i in idx["zero"] for x in finds(i) if pred(x["class"]) and (x["status"] == "tracked" or x.get("left_at") == "lock")]
        f[name] = not bad
        why[name] = "buffers of that class after Lock, through the retained references: %s" % (
            "all zero" if not bad else "still hold their bytes (%s)" % sorted({x["class"] + "/" + x["status"] for x in bad}))
    # -- eviction sites
    for name, key, op, kinds in (("markused_wipes_evicted", "e_markused", "markused", ("unlock", "next", "markused", "lock")),
                                 ("invalidate_wipes_evicted", "e_invalidate", "invalidate", ("unlock", "props", "invalidate", "lock")),
                                 ("next_wipes_replaced_last", "e_next", "next", ("unlock", "props", "next", "lock")),
                                 ("unlock_leaves_no_cleartext_in_dropped", "e_unlock", "unlock", ("next", "unlock", "lock")),
                                 ("lru_eviction_zeroes", "e_lru", "dcachefill", ("unlock", "props", "dcache", "dcachefill", "lock"))):
        vals = []
        for i in idx[key]:
            need(ran(i, kinds), "%s scenario did not run as intended: %s" % (key, [(e["o"]["k"], e["r"]) for e in cases[i]["obs"]["trace"] if "o" in e]))
            vals.append(not [x for x in finds(i) if x["status"] == "evicted" and x.get("left_at") == op])
        f[name] = agree(name, vals)
        why[name] = "an object that left the manager's state during `%s`, after Lock: %s" % (
            op, "holds no clear text" if vals[0] else "still holds its clear text")
    f["priv_key_cache_size"] = cap
    why["priv_key_cache_size"] = "defaultPrivKeyCacheSize (read from waddrmgr/scoped_manager.go)"
    f["why"] = why
    f["nprobes"] = len(sc)
    return f


def facts(repo):
    """(facts, facts_source): the source-shape reader first; the behavioural probe only if it refuses the shape.
    Raises ExtractError only when BOTH paths fail."""
    try:
        if os.environ.get("VERIF_C05_FORCE_PROBE"):         # development aid: exercise the fallback
            raise ExtractError("VERIF_C05_FORCE_PROBE is set")
        return extract(repo), "source"
    except (ExtractError, OSError, ValueError, subprocess.SubprocessError) as e1:
        why = str(e1).replace(repo.rstrip("/") + "/", "").replace(repo, "<repo>")
        try:
            res = probe_facts(repo)
        except (ExtractError, OSError, ValueError, KeyError, IndexError, subprocess.SubprocessError) as e2:
            raise ExtractError("source shape not recognised (%s) AND probing the built code failed (%s)" % (e1, e2))
        return res, ("probe (source shape not recognised: %s; facts determined by running %d witness scenarios on the "
                     "code built from the repository, harness/cmd/c05 -replay)" % (why[-400:], res["nprobes"]))


def _clean(t):
    return t.replace("(*", "( *").replace("*)", "* )").replace('"', "'")


def render(res, source="source"):
    defs = []
    for n in NAMES:
        defs.append("(* %s *)\nDefinition %s : bool := %s.\n" % (_clean(res["why"][n]), n, "true" if res[n] else "false"))
    defs.append("(* %s *)\nDefinition priv_key_cache_size : N := %d%%N.\n" % (
        _clean(res["why"].get("priv_key_cache_size", "defaultPrivKeyCacheSize")), int(res["priv_key_cache_size"])))
    return """(* GENERATED by lib/extract_c05.py (harness/cmd/extract-c05, go/ast) from the
   repository's waddrmgr/*.go.  Do not edit; bin/extract rewrites it.

   Facts about the lock discipline of waddrmgr that the model Addr/Lock.v is
   parameterised by (see the record [facts] there). *)
(* facts source: %s *)
From Coq Require Import NArith.

%s""" % (_clean(source), "\n".join(defs))


def main(repo, outdir, write_if_changed):
    res, source = facts(repo)
    write_if_changed(os.path.join(outdir, "LockFacts.v"), render(res, source))
