HOOKS = dict(
    guard="verif",
    enable="go build -tags verif (the harness module /verif/harness replaces the btcwallet modules with /repo and its nested modules)",
    baseline_off_cmd="for m in . walletdb wtxmgr wallet/txauthor wallet/txrules wallet/txsizes; do (cd /repo/$m && go test -vet=off -count=1 -timeout 25m ./...) || exit 1; done",
    source_commits=["5b644b4", "b6fa4f8", "2d02f0b"],
    add_only=True,
)

NOTES = ("Each check: (A) theorems in coq/Properties/<ID>.v re-compiled with Print Assumptions, (B) Go harness runs the real code "
         "from /repo's working tree and the Coq model is evaluated on the same cases with vm_compute; the property oracle is "
         "evaluated on the implementation's observations. See DESIGN.md.")

NOT_APPLICABLE = {}

CHECKS = {
    "C19": dict(
        text="Theorems C19_pending_exact/success/failure/reversion/error_unchanged hold for every version table, stored version and "
             "failure position (unbounded); the model is tied to walletdb/migration by running migration.Upgrade on a real bbolt "
             "file for a failure at every position plus random tables and comparing outcome, invoked sequence, stored version and data.",
        note="Trusted: Coq kernel+vm_compute, hand-written model Migrate/Migrate.v, harness and driver; atomicity of the enclosing "
             "walletdb.Update is C11's subject (modelled here as restore-on-error). No axioms (Print Assumptions: closed).",
    ),
    "C01": dict(category="exploration",
        text="INTERIM: differential exploration. The store model (coq/Tx/Store.v, bucket for bucket), the ledger spec and the refinement "
             "invariant are in place and the composition theorem C01_from_refinement is closed; the per-event preservation lemmas are "
             "being proved (coq/Tx/PROOFS.md). Until they are all closed the deciding leg is: real wtxmgr vs Coq model vs Coq ledger spec "
             "after every event of generated chain-consistent histories (validated by the Coq predicate).",
        note="Trusted: generator (node simulator) reaches the relevant histories; Coq evaluation by vm_compute; bbolt.",
        technique="differential correspondence against an executable Coq model and Coq ledger specification; refinement proof in progress"),
    "C02": dict(category="exploration",
        text="INTERIM: as C01, on pairs of histories with equal final facts (generated history vs direct construction), plus the corpus "
             "replay of the repaired coinbase-descendant defect; composition theorem C02_from_refinement closed, refinement lemmas in progress.",
        note="Trusted: as C01.",
        technique="differential correspondence against an executable Coq model and Coq ledger specification; refinement proof in progress"),
    "C12": dict(category="exploration",
        text="INTERIM: per-operation lease theorems (other id rejected for lease and release, same id extends, owner release frees, "
             "exact expiry instant, unknown output rejected, leased output absent from the spendable set) are closed for every store state; "
             "the history-level clauses (excluded from balance, confirmed spend removes the lease) wait for the refinement lemmas and are "
             "decided by the differential run with a mock clock on both sides of the expiry instant and across reopen.",
        note="Trusted: as C01; clock injected through the verif hook wtxmgr.VerifSetClock.",
        technique="Coq theorems on the lease operations of the model + differential correspondence with mock clock; refinement proof in progress"),
    "C13": dict(category="exploration",
        text="INTERIM: as C01 with TxDetails/UniqueTxDetails/RangeTransactions for every universe tx after every event vs model and vs "
             "spec_details; composition theorem closed, refinement lemmas in progress.",
        note="Trusted: as C01.",
        technique="differential correspondence against an executable Coq model and Coq ledger specification; refinement proof in progress"),
    "C18": dict(
        text="Model Queue/Queue.v: labelled transition system transcribed from chain/queue.go's worker (select A over chanIn/quit with an inner "
             "non-blocking select chanOut/quit/default->PushBack; select B over chanIn->PushBack / chanOut<-Front;Remove / quit), parametric in both "
             "channel capacities (the code is cin=0, cout=bufferSize). Proved for every capacity and every schedule, unbounded: conservation and order "
             "(rcvd ++ chanOut ++ overflow ++ held ++ chanIn = sent), received is a prefix and exact when drained, drain always possible, producer never "
             "blocked (at most 2 consumer-free worker steps re-enable Send; any burst accepted with zero consumer steps), after Stop the quit step is enabled "
             "at every control point and worker-only runs are bounded, and soundness of the correspondence checker. Correspondence: the real "
             "chain.ConcurrentQueue with bufferSize in {0,1,2,5,20}, scripted and concurrent producer/consumer plans, send timeouts, goroutine-count probe after Stop.",
        note="PARTIAL: liveness under Go's scheduler is not proved ('Stop terminates' = quit always enabled + bounded worker-only runs; 'never blocked' = bounded "
             "consumer-free worker steps re-enable send); both are exercised by timeouts/goroutine probes. Go memory model taken as atomic interleaving. "
             "Only ConcurrentQueue (bitcoind backend) is exercised; btcd.go/neutrino.go use private inline queue loops of the cin=0,cout=0 shape. No axioms."),
    "C17": dict(
        text="18 theorems (Print Assumptions: closed) about the wrapper logic of snacl.go, for every secretbox/scrypt/sha256 satisfying the named ideal "
             "laws. Ciphertexts: decrypt after encrypt = id incl. the empty plaintext; any other key, any modification of any single byte of nonce||box "
             "(hence every bit flip) and every strict truncation give an error (ErrMalformed below 24 bytes, else ErrDecryptFailed), never data; distinct "
             "nonces give distinct ciphertexts. Passphrases: DeriveKey accepts a passphrase iff it has the creating passphrase's HMAC key block; the "
             "exact-passphrase clause is proved outside the recorded finding (passphrases of at most 64 bytes not ending in NUL) and refuted inside it by "
             "a witness theorem. Stored parameters: the 88-byte codec round-trips for all in-range parameters, rejects every other length; after "
             "Marshal/Unmarshal the same passphrase re-derives the same key; any single-byte change of the 88 bytes makes DeriveKey reject the correct "
             "passphrase. Tie to the code: real snacl and waddrmgr.Manager.Encrypt/Decrypt run for every bit flip and every truncation length of "
             "ciphertexts, wrong keys, near-miss passphrases, every bit flip of the 88 marshalled bytes; model evaluated with vm_compute at the same positions.",
        note="PARTIAL: the strength of secretbox/scrypt/sha256 enters only as hypotheses (exact: open-after-seal, kdf depends on the passphrase through "
             "the HMAC key block; idealisations: seal binds key/nonce/message, no near or prefix ciphertext opens, kdf/hash injective) - all satisfied "
             "together by a toy instance (C17_laws_satisfiable); exercised, not proved. Nonce freshness is a hypothesis. Known finding "
             "hmac_equivalent_passphrase_accepted (inherent to PBKDF2-HMAC, no compatible fix). Observation: a stored r=0 or p=0 makes DeriveKey panic. No axioms."),
}
