HOOKS = dict(
    guard="verif",
    enable="go build -tags verif (the harness module /verif/harness replaces the btcwallet modules with /repo and its nested modules)",
    baseline_off_cmd="for m in . walletdb wtxmgr wallet/txauthor wallet/txrules wallet/txsizes; do (cd /repo/$m && go test -vet=off -count=1 -timeout 25m ./...) || exit 1; done",
    source_commits=[],
    add_only=True,
)

NOTES = ("Each check: (A) theorems in coq/Properties/<ID>.v re-compiled with Print Assumptions, (B) Go harness runs the real code "
         "from /repo's working tree and the Coq model is evaluated on the same cases with vm_compute; the property oracle is "
         "evaluated on the implementation's observations. See DESIGN.md.")

NOT_APPLICABLE = {}

CHECKS = {
    "C19": dict(
        text="Theorems C19_pending_exact/success/failure/reversion/error_unchanged hold for every version table, stored version and "
             "failure position (unbounded); the model is tied to walletdb/migration by running migration.Upgrade on a real bbolt "
             "file for a failure at every position plus random tables and comparing outcome, invoked sequence, stored version and data.",
        note="Trusted: Coq kernel+vm_compute, hand-written model Migrate/Migrate.v, harness and driver; atomicity of the enclosing "
             "walletdb.Update is C11's subject (modelled here as restore-on-error). No axioms (Print Assumptions: closed).",
    ),
}
