HOOKS = dict(
    guard="verif",
    enable="go build -tags verif (the harness module /verif/harness replaces the btcwallet modules with /repo and its nested modules)",
    baseline_off_cmd='for m in $(cat /w/out/gomods.txt); do MF=$(cd /repo/$m && . /w/out/goenv.sh && gomodflag); (cd /repo/$m && go test $MF -json -vet=off -count=1 -timeout 25m ./...); done',
    source_commits=["5b644b4", "b6fa4f8", "2d02f0b", "3b8c29c", "ed2464a", "5320acb", "a9d6c5c"],
    add_only=True,
)

NOTES = ("Each check: (A) theorems in coq/Properties/<ID>.v re-compiled with Print Assumptions, (B) Go harness runs the real code "
         "from /repo's working tree and the Coq model is evaluated on the same cases with vm_compute; the property oracle is "
         "evaluated on the implementation's observations. Facts regenerated from source (coq/Generated/*.v) are read from the source shape and, when a shape is "
         "not recognised, determined by behavioural probes of the built code (facts_source in the evidence). See DESIGN.md section 9.")

NOT_APPLICABLE = {}

CHECKS = {
    "C19": dict(
        text="11 theorems. Pending list exact and ascending (model only). The success, failure and refusal clauses and the all-or-nothing clauses "
             "for one and for several services are proved from five facts regenerated from walletdb/migration/manager.go and from EVERY call site of "
             "migration.Upgrade (migration / SetVersion / manager errors returned, one enclosing walletdb.Update, the Update closure returns the "
             "error; source reader with behavioural probe fallback) plus C11's commit-iff-nil; C19_premises_needed exhibits the violating history "
             "for each fact being false. The model performs the upgrade as writes on a working copy that nothing undoes (failing migrations write "
             "first), so 'failure leaves the database unchanged' depends on those facts. Tied to the code by instrumented services (1-3 per call, "
             "failing migrations / SetVersion at every position) and by the REAL wtxmgr/waddrmgr managers on address-manager v5/v6/v7, txmgr v1 "
             "and newer-than-known databases through wallet.Open, migration.Upgrade and the components' own Open, with a write failure injected at "
             "every write; versions read back via CurrentVersion, the raw key and Open.",
        note="Trusted: Coq kernel+vm_compute, the hand-written model Migrate/Migrate.v, the shape reader/probe (harness/cmd/extract-c19, c19 -probe), "
             "stack-based attribution of real migrations (a migration that writes nothing is not seen). Address-manager layouts below version 5 are "
             "not built. Atomicity of walletdb.Update itself is C11. No axioms (Print Assumptions: closed).",
    ),
    "C18": dict(
        text="Two models. (1) Queue/Queue.v: labelled transition system transcribed from chain/queue.go's worker (ConcurrentQueue, bitcoind backend), "
             "parametric in both channel capacities. (2) Queue/SliceQueue.v: the inline slice-queue loop shared by RPCClient.handler (btcd.go) and "
             "NeutrinoClient.notificationHandler (neutrino.go) with its four locals as independent state variables, best-block bookkeeping, a panic "
             "flag, parametric in a seven-fact shape read from the source by harness/cmd/extract-c18 (Generated/QueueSites.v; both sites proved "
             "equal to the canonical shape by computation; each fact shown necessary by a violating run). For both, proved for every schedule, "
             "unbounded: conservation and order (received ++ pending = sent), received is a prefix and exact when drained, each receive delivers the "
             "oldest pending item, control state (never panics; armed iff non-empty), best block follows delivery, producer never blocked, any "
             "burst accepted without consumer, drain possible, stop enables quit and worker-only runs are bounded, terminated worker is final, "
             "checker soundness (21 theorems). Correspondence: the real chain.ConcurrentQueue (bufferSize in {0,1,2,5,20}); the REAL btcd handler "
             "loop (real NewRPCClient+Start against an in-process loopback websocket stand-in) and the REAL neutrino loop (stub chain service), "
             "hand-overs through the real callbacks or through rpcclient's dispatcher; scripted and concurrent producer/consumer plans, quit in "
             "mid-burst, child process per case so a handler panic is attributed; wallet.NotificationServer judged for order/loss/duplication.",
        note="PARTIAL: liveness under Go's scheduler is not proved ('Stop terminates' = quit always enabled + bounded worker-only runs); the "
             "closed-enqueue branch is modelled but never executed; the callbacks' own select {enqueue / quit} is exercised but not modelled; no "
             "behavioural fallback for the slice-queue shape facts (an unrecognised shape is a broken obligation); NotificationServer is outside "
             "model and theorems (it is a rendezvous, not a queue: a slow RPC client stalls connectBlock by design - observation, not judged). "
             "Go memory model taken as atomic interleaving. No axioms."),
    "C17": dict(
        text="22 theorems (Print Assumptions: closed) about the wrapper logic of snacl.go and of the address manager's passphrase checks, for every "
             'secretbox/scrypt/sha256 satisfying the named laws, stated at three facts REGENERATED from snacl/snacl.go into Generated/SnaclFacts.v (go/ast '
             'reader harness/cmd/extract-c17; behavioural probe fallback comparing derived keys with scrypt.Key of the exact passphrase bytes, flipping '
             'every bit of the stored digest, decrypting tampered ciphertexts): the passphrase bytes reach the KDF unchanged, the WHOLE digest is '
             'compared, Decrypt fails when secretbox.Open fails; C17_fact_pw_unchanged_needed / C17_fact_full_digest_needed / C17_fact_open_checked_needed '
             'show each is necessary (they are the models of the mutated code). Ciphertexts: decrypt after encrypt = id incl. the empty plaintext; any '
             'other key, any modification of any single byte of nonce||box (hence every bit flip) and every strict truncation FAIL with an error (which '
             'one is neither part of the property nor compared), never data; distinct nonces give distinct ciphertexts. Passphrases: DeriveKey accepts a '
             "passphrase iff it has the creating passphrase's HMAC key block; the exact-passphrase clause is proved outside the recorded finding "
             '(passphrases of at most 64 bytes not ending in NUL) and refuted inside it by a witness theorem; C17_manager_passphrase: waddrmgr Open, '
             "Unlock on a locked manager and the old-passphrase check of ChangePassphrase accept exactly the passphrases with the right one's HMAC block, "
             'Unlock on an already unlocked manager accepts exactly the private passphrase. Stored parameters: the 88-byte codec round-trips for all '
             'in-range parameters, rejects every other length; after Marshal/Unmarshal the same passphrase re-derives the same key; any single-byte change '
             'of the 88 bytes makes DeriveKey reject the correct passphrase. Tie to the code: real snacl and waddrmgr.Manager.Encrypt/Decrypt for every '
             'bit flip and every truncation length of ciphertexts, wrong keys, every bit flip of the 88 marshalled bytes; a NEAR-MISS passphrase family of '
             '75 kinds over 30 fixed bases (empty, 1 byte, 63/64/65 bytes, non-ASCII, embedded NUL/CR/LF/space/tab) plus random ones - one flipped bit, '
             'case changes, each of NUL, space, tab, CR, LF, CRLF appended / prepended / stripped / removed, NFC<->NFD and stripped accents, truncations '
             'at 8/16/32/64/72 bytes, NUL padding, doubling, SHA-256 of the passphrase, dropped and swapped bytes - at snacl level and through the five '
             'waddrmgr passphrase operations; an accepted passphrase other than the creating one is the known HMAC finding ONLY if its HMAC key block '
             "(computed by the harness) equals the creating one's, everything else is wrong_passphrase_accepted; model evaluated with vm_compute at the "
             'same positions.',
        note='PARTIAL: the strength of secretbox/scrypt/sha256 enters only as hypotheses (exact: open-after-seal, the kdf depends on the passphrase '
             'through the HMAC key block; idealisations: seal binds key/nonce/message, no near or prefix ciphertext opens, kdf/hash injective - false for '
             'the real primitives by counting, satisfied together by a toy instance, C17_laws_satisfiable); they are exercised, not proved; the header of '
             'Properties/C17.v says per theorem what it rests on (exact laws, idealised laws, wrapper logic, which regenerated fact, correspondence only; '
             'C17_manager_wrapper restates a definition). Nonce freshness is a hypothesis. Unicode variants use a built-in Latin-1 table. Known finding '
             'hmac_equivalent_passphrase_accepted (inherent to PBKDF2-HMAC, no compatible fix). The correspondence folds the error classes of rejected '
             'ciphertexts into one and does not compare key bytes left after a FAILED DeriveKey. Observation: a stored r=0 or p=0 makes DeriveKey panic. '
             'No axioms.'),
    "C01": dict(
        text='9 theorems. C01_balance_and_spendable_equal_ledger: for every universe, every chain-consistent history, every prefix, every minconf >= 0 and '
             "every sync height >= the highest confirmed block, the model's Balance equals spec_balance (the property's sum over credited, "
             'unspent-by-any-known-tx, unleased, sufficiently confirmed, mature outputs) and UnspentOutputs is a permutation of spec_utxos (amount, block, '
             'coinbase flag). Proved by the refinement invariant Inv (Tx/Inv.v) preserved by every event - Seen, Confirm (incl. double-spend removal), '
             'Disconnect (rollback incl. the amt=0 branch and coinbase descendants), Abandon, Redeliver, lease events - about 7000 lines of Coq, unbounded '
             'in history length and graph shape. C01_watch_set_equals_ledger: OutputsToWatch is exactly the credited outputs of known transactions that no '
             'confirmed transaction spends. WALLET LAYER (Tx/Wallet.v: connectBlock / disconnectBlock / addRelevantTx / FilteredBlockConnected as '
             'compositions of store events + synced-to): C01_wallet_store_is_store_of_image, C01_wallet_layer (for every notification history whose '
             'store-level image is chain-consistent, at every prefix where the synced height covers every confirmed transaction, CalculateBalance(minconf) '
             "equals the ledger balance at the synced height and ListUnspent / UnspentOutputs are permutations of the ledger's spendable outputs filtered "
             'by confirmations and maturity), C01_wallet_layer_block_announced_first (the covering hypothesis holds by itself when a block is announced no '
             'later than its transactions). C01_model_total_on_consistent_histories (the fuelled recursion never runs out) and '
             'C01_validating_node_histories_are_consistent - every event sequence an abstract validating node with its wallet-notification channel '
             '(Tx/Node.v: mempool with replacement, blocks with coinbase/announced/never-announced members, reorgs of any depth, '
             'missed/late/repeated/stale notifications, wallet-initiated abandon and re-delivery) can emit satisfies chain_consistent, so the hypothesis '
             'is not an artefact of the generator. Tie to the code: node-simulator histories on the real wtxmgr over bbolt - incl. RECONNECTS of detached '
             'blocks and coinbases (same id/hash/height/transactions, another in-block order, stale unmined deliveries in between, after a deeper reorg, '
             'partial, rescan overlap), reorg depth up to 10, amounts up to 2^54, minconf from {0,1,2,6,99,100,101,102,103,150,10^6} - compared after '
             'every event with the model AND with the ledger spec for every (minconf, sync) pair, spendable set, watch set, unmined set, lease list; one '
             'history in four is delivered to a REAL wallet.Wallet through the notification handlers (every height connected, rollbacks as tip-down '
             'disconnects, stale/future/repeated disconnects mixed in, transactions before, after or atomically with their block) and CalculateBalance, '
             'ListUnspent (5 ranges) and Wallet.UnspentOutputs are compared with model and ledger.',
        note='Model coq/Tx/Store.v transcribes wtxmgr bucket for bucket (10 buckets, '
             'InsertTx/AddCredit/Rollback/removeConflict/Balance/fetchCredits/leases/TxDetails/RangeTransactions/OutputsToWatch); hypotheses: wf_universe '
             '(ids, positive amounts, duplicate-free inputs, inputs name existing outputs, acyclic by rank) and chain_consistent (decidable, Tx/Hist.v: '
             'what a validating node can emit - re-deliveries and unconfirmed conflicts allowed; a repeated Abandon is not an event a node emits). KNOWN '
             'FINDING (4 kinds zero_value_output:*, one defect): a ZERO-value wallet output whose mined spender is rolled back is not restored to the '
             "unspent index (rollback reads a zero amount as 'credit already removed'): OutputsToWatch, UnspentOutputs and ListUnspent lose an output that "
             'is credited, unspent and unleased; the balance is unaffected; zero-value outputs are outside wf_universe, hence outside the theorems '
             '(PARTIAL), and are judged by the ledger oracle on one history in twelve; replay '
             'corpus/C01/zero_value_credit_lost_after_spender_rolled_back.json. PARTIAL: the wallet-ledger comparison applies only where the synced height '
             'covers the confirmed transactions. A Redeliver that is refused and rolled back is accepted like an idempotent re-application. Trusted: Coq '
             'kernel+vm_compute, the hand-written model (tied by the differential run after EVERY event), generator, bbolt. Integer wrap-around outside '
             'the model (amounts of a universe sum below 2^63; heights < 2^20 generated). Late discovery of credits not generated. No axioms (Print '
             'Assumptions closed).'),
    "C02": dict(
        text="6 theorems. C02_disconnect_semantics and C02_confirm_semantics state the LEDGER steps in the property's words (non-coinbase transactions of "
             'detached blocks become unconfirmed again, coinbase transactions and everything depending on them disappear; confirming removes exactly the '
             'conflicting unconfirmed transactions and their unconfirmed descendants, the rest stays) via the declarative reachability depends_on - these '
             'two are about Tx/Ledger.v only; C02_store_follows_ledger_steps is the refinement that ties the store to them; '
             'C02_same_facts_same_observables: any two chain-consistent histories with equal final facts (confirmed, unconfirmed AND raw leases with the '
             'clock: same_facts) report equal balances, spendable sets and TxDetails - unbounded; C02_wallet_disconnect_is_rollback (disconnectBlock does '
             "nothing, or exactly Rollback(h) plus 'synced to the parent') and C02_wallet_layer_path_independence (two notification histories with "
             'chain-consistent images and the same facts report the same balances, spendable outputs and details through the wallet). Tie to the code: '
             'pairs (A, B) on the real store where B reaches the same final facts another way - 1/7 the sorted direct construction, 3/7 shuffled (other '
             'in-block order, unmined version first, repeated deliveries, detours through other-fork blocks, top blocks disconnected and reconnected), 3/7 '
             'perturbed (A with facts-preserving insertions) - each validated by a lease-aware twin and again in Coq; one third of the pairs carry leases; '
             "A driven through a real wallet's notification handlers (wallet.disconnectBlock) against B on the bare store; all eleven minconf values; the "
             'alarm decision keeps what the property names: balances, spendable outputs and TxDetails (incl. block time); plus the corpus replay of the '
             'repaired coinbase-descendant defect (fix 8f53bc5).',
        note='Model coq/Tx/Store.v transcribes wtxmgr bucket for bucket; hypotheses: wf_universe and chain_consistent (decidable, Tx/Hist.v). EXCLUDED '
             'from path independence, stated in the header of Properties/C02.v: TxRecord.Received and the label - Received is a caller-supplied input of '
             'the history (the time the caller first saw the transaction), not a function of the surviving facts. Watch, unmined and locked lists are '
             'compared with the model but do not decide C02. Trusted: Coq kernel+vm_compute, the hand-written model (tied by the differential run after '
             'EVERY event), generator, bbolt. Integer wrap-around outside the model (amounts of a universe sum below 2^63). No axioms (Print Assumptions '
             'closed).'),
    "C12": dict(
        text='15 theorems. Seven PER-OPERATION facts about the transcribed functions, valid in every store state and tied to wtxmgr by the correspondence '
             'only (stated so in the file header): a leased output is absent from the spendable set and from the balance, another id cannot lease '
             "(ErrAlreadyLocked, state unchanged) or release (ErrUnlockNotAllowed, unchanged), the same id extends, the owner's release frees, available "
             'again exactly when now >= stored expiry (iff), unknown output rejected. HISTORY-LEVEL, for every prefix of every chain-consistent history '
             'with any interleaving of lease/release/clock/sweep/receipt/spend/confirmation/reorg/restart events: C12_leases_follow_ledger (the lease '
             "bucket, 'known output', balance and spendable set are the ledger's), C12_excluded_from_balance, C12_confirmed_spend_removes_lease, and four "
             'corollaries at reachable states - C12_hist_other_id_cannot_lease / C12_hist_other_id_cannot_release (if the ledger holds the output leased '
             'to A and the expiry is not reached, a request by B != A leaves store and ledger unchanged and fails), '
             'C12_hist_leasable_by_anyone_iff_expired, C12_hist_available_iff_expired (back in the spendable set exactly from the expiry on); '
             'C12_restart_step_is_identity_partial. Tie to the code: histories with a mock clock (hook VerifSetClock) advanced to just before/at/after the '
             'second-truncated expiry; FULL-WIDTH 32-byte lease ids (independent, sharing a 1..31-byte prefix or suffix, differing in one byte or one '
             'bit), compared on all 32 bytes; half of the lease/release events target an outpoint an earlier lease asked for; unknown/spent outpoints; '
             'DeleteExpiredLockedOutputs; a third of the cases on a REAL wallet through Wallet.LeaseOutput / ReleaseOutput / ListLeasedOutputs (which must '
             "equal the store's list restricted to transactions the wallet knows, with values); RESTART events (store: close and reopen the file; wallet: "
             'stop, close, reopen, start) after which every observable is compared with the unchanged model and ledger and with the list before the '
             'restart.',
        note='Model coq/Tx/Store.v transcribes wtxmgr bucket for bucket; hypotheses: wf_universe and chain_consistent (decidable, Tx/Hist.v). PARTIAL: '
             "'leases survive restart' - the model and ledger steps of a restart are the identity (the lease bucket is database state); that the real "
             'store keeps no lease state in memory is exercised by the restart events, not proved. The expiry returned by LockOutput may be the instant '
             'asked for or the stored second-truncated one (both denote the same lease; no theorem depends on the exact value); theorems and comparison '
             'use the stored/listed expiry. Observation: a lease does not survive a CONFIRMED spend of the output (the store clears it on purpose; the '
             "ledger models it): if that spend is later reorganised out and forgotten the output is spendable before the lease's nominal expiry. Trusted: "
             'Coq kernel+vm_compute, the hand-written model (tied by the differential run after EVERY event), generator, bbolt. No axioms (Print '
             'Assumptions closed).'),
    "C13": dict(
        text='Eight theorems, each for every prefix of every chain-consistent history. C13_details_equal_ledger: for every transaction id, TxDetails '
             'reports it iff the ledger knows it, under its current block or as unconfirmed, with exactly the credited outputs (amount, change flag, spent '
             "flag = some known confirmed or unconfirmed transaction spends it) and one debit with the credit's amount per input spending a wallet credit; "
             "the unconfirmed hash list is the ledger's unconfirmed set. C13_block_qualified_lookup: UniqueTxDetails(t, Some b) returns the ledger's "
             'details exactly when the ledger has t confirmed in exactly block b (height AND hash) - nothing for a stale block after a reorg, a block the '
             'transaction never was in, or the right height under a foreign hash; with None exactly when t is unconfirmed. '
             'C13_range_iteration_equals_ledger and C13_range_groups_with_details_and_early_exit: groups per confirmed height in range, ascending or '
             'descending, each known transaction exactly once with full details, removed ones never, a callback answering stop on its k-th call sees '
             'exactly the first k groups without error; order inside a group is not fixed. C13_previous_scripts: exactly one script per input that spends '
             'a wallet credit, in input order, never a data error. C13_get_transactions and C13_get_transactions_lists_each_known_transaction_once: '
             'Wallet.GetTransactions equals the range iteration over the resolved identifiers (height or hash, defaults 0 and -1, backend error returned, '
             'closed cancel channel stops after one group) and GetTransactions(nil, nil) lists a permutation of the known transactions, each confirmed one '
             'under its current block, each unconfirmed one in the unmined list. Tie to the code: after every event, TxDetails / UniqueTxDetails for every '
             'universe transaction under its current block, every past block, a foreign block and the same height under a fresh hash; full-detail ranges '
             '(compared as multisets per group) with stop-after-k callbacks in both directions; PreviousPkScripts under the nil, confirming and stale '
             'block; GetTransactions on a real wallet over the store with height and hash identifiers through every backend branch - versus model '
             '(Tx/Query.v) and versus the ledger specification.',
        note='Model coq/Tx/Store.v + Tx/Query.v transcribe wtxmgr bucket for bucket (10 buckets, '
             'InsertTx/AddCredit/Rollback/removeConflict/Balance/fetchCredits/leases/TxDetails/RangeTransactions/PreviousPkScripts) and the '
             'GetTransactions layer of wallet/wallet.go (identifier resolution, range callback, makeTxSummary output walk); hypotheses: wf_universe (ids, '
             'positive amounts, duplicate-free inputs, inputs name existing outputs, acyclic by rank) and chain_consistent (decidable, Tx/Hist.v: what a '
             'validating node can emit - re-deliveries and unconfirmed conflicts allowed). One defect found and repaired (fix: c49e2ea GetTransactions '
             'end-hash with a bitcoind backend landed in the start of the range); replay runs first from corpus/C13. PARTIAL: the account, internal, label '
             'and timestamp fields of TransactionSummary are outside the model; full iteration needs confirmed heights < 2^31 for the -1 convention. '
             'Trusted: Coq kernel+vm_compute, the hand-written model (tied by the differential run after EVERY event), generator, bbolt. Integer '
             'wrap-around outside the model (amounts < 2^53, heights < 2^20 generated). Late discovery of credits not generated. No axioms (Print '
             'Assumptions closed; coqchk: none).'),
    "C14": dict(
        text="Theorem C14_dependency_sort (unbounded, Kahn invariant): for every finite set of transactions with distinct ids whose in-set spend relation is "
             "acyclic (rank function; C14_acyclic_iff_no_cycle proves this equivalent to 'no cycle') and every pair of map iteration orders (any permutation "
             "for makeGraph, any permutation for graphRoots), the model of wtxmgr/kahnsort.go terminates within its fuel, returns a permutation of the set and "
             "places every transaction after every member it spends from (parallel edges with multiplicity as in the code, the ineffective duplicate-edge test "
             "and the len(roots)==len(txs) shortcut included). C14_admissible_is_the_property / C14_model_outputs_admissible tie the executable acceptance test "
             "to the theorem. Tie to the code: all 760 DAGs on <=4 nodes with 0/1/2 parallel edges plus random DAGs of up to 40 real wire.MsgTx run through "
             "wtxmgr.DependencySort 20x each and through Store.UnminedTxs on a real store; every returned order checked in Coq and by a direct Go oracle.",
        note="All clauses proved for the model. Go map order is not observable, so the tie compares property-relevant behaviour only (each implementation "
             "output must be an admissible Kahn run); exact FIFO reproduction is a diagnostic, never a failure (a LIFO work list does not alarm). "
             "Assumed: map key = hash of its transaction. 'Every unconfirmed transaction' for Store.UnminedTxs is judged against the harness's OWN ledger "
             "(inserted unmined, minus confirmed, abandoned and conflict-removed with their spend chains; some parents are real mined coinbase or ordinary "
             "transactions with credits), never against UnminedTxHashes of the same store (tag only), so a record lost by both calls is seen; the ledger is "
             "harness code (trusted). No axioms (Print Assumptions closed x5; coqchk: none)."),
    "C07": dict(
        text='Model Fee/Fee.v transcribes txrules.FeeForSerializeSize (truncation, zero-fee-becomes-rate rule, MaxSatoshi clamp), GetDustThreshold/IsDust, '
             'txrules.CheckOutput, txsizes.EstimateVirtualSize, the loop of txauthor.NewUnsignedTransaction over BOTH wallet input sources '
             '(makeInputSource prefix accumulation, constantInputSource explicit selection: the `currentTotal +=` accumulation is modelled, so '
             'conservation is not definitional), the wallet change source (declared change script size per change scope vs real script length), '
             'RandomizeChangePosition (swap with the observed draw) and the serialized virtual size of the signed transaction as a function of the actual '
             'signature and public-key lengths. 14 theorems, unbounded over coins, outputs, rate, change kind, draw and either source: txauthor level '
             'C07_terminates, C07_outputs_kept, C07_value_conserved, C07_fee_covers_real_size, C07_fee_for_is_rate_times_size, C07_fee_upper_bound, '
             'C07_change_never_dust, C07_insufficient_funds; wallet level C07_wallet_outputs_once (outputs = permutation of the requested ones plus the '
             'change at ChangeIndex), C07_wallet_value_conserved (sum of coin values = sum of outputs + fee, with the accumulator invariant), '
             'C07_wallet_fee_covers_real_size (fee >= floor(rate*real signed vsize/1000) capped at MaxSatoshi), C07_wallet_fee_upper_bound, '
             'C07_wallet_change_and_amounts, C07_wallet_insufficient_funds. Regenerated facts (Generated/TxsizesConsts.v; source reader of every term of '
             'baseSize, the witness-weight block and the scriptSize switch of addrMgrWithChangeSource, with probe fallback) enter as INEQUALITIES '
             '(sizes_cover, consts_sane, change_sizes_cover; relay_floor_exact for the upper bound only), so a more conservative constant keeps the '
             'proofs. Tie to the code: real NewUnsignedTransaction + signing with real secp256k1 keys through the real input sources (hook), and a fresh '
             'REAL wallet per case through CreateSimpleTx, SendOutputs(WithInput) and FundPsbt (every input kind incl. imported and imported-uncompressed '
             'keys, change scopes none/44/49/84/86, explicit and automatic selection, 252-260 inputs, 251-253 outputs, refused outputs, amount '
             "boundaries); every oracle kind is judged on the SIGNED transaction against the harness's own ledger of coin values, size by "
             'mempool.GetTxVirtualSize, every input verified by the script engine.',
        note='Two defects found and repaired (fix: 0bde911 output-count varint, fix: 0390ece initial fee guess); replays run first from corpus/C07. KNOWN '
             'FINDING (not repaired): a P2PKH input signed with an UNCOMPRESSED imported key is 32 bytes larger than the size constant assumes, fee below '
             'rate x real size by up to rate*32/1000 per such input (kind fee_below_rate_uncompressed_key, separate from fee_below_rate so it cannot mask '
             'a larger shortfall; regenerated fact p2pkh_covers_uncompressed is false, witness theorem C07_uncompressed_key_refuted, two-sided so a repair '
             'keeps the file compiling). Signature hypothesis (admissible), exact: ECDSA DER <= 72 bytes + sighash byte with a 33-byte key (<= 71 for a '
             'P2PKH input of a transaction that also has witness inputs: C07_high_s_mixed_not_covered), Schnorr <= 65. PARTIAL: nested-P2WPKH change is '
             'reached only through NewAccountWatchingOnly; FundPsbt cases are compared as multisets (no BIP69 sort in the model); for the random selector '
             'the model is given the prefix the selector took; int64 wrap not modelled; rate >= relay floor for the rate bounds. Trusted: hook file '
             'wallet/verif_hooks_c07.go (unchanged wrappers). No axioms (Print Assumptions closed x14; coqchk: none).'),
    "C09": dict(
        text='Interleaving model Addr/Conc.v of address issuance: N threads (any N, any site mix, n >= 0 addresses per request, commit or rollback; a '
             'thread may take the mutex exclusively, only as a READ lock, or not at all; an EXTENDER thread models recovery: it writes the in-memory '
             'index, last address and cache inside its transaction) with steps Lock, Begin, Read(in-memory index), Write, Commit/Abort, Callback, Unlock '
             'over the address mutex, the bbolt writer lock, the cached and the on-disk next index, the cached last address and the address cache. 13 '
             'theorems: C09_all_schedules - for ALL schedules, requests and recoveries made through sites that hold the mutex exclusively over the whole '
             'transaction incl. its commit handlers never receive duplicate indices, the consumed indices are exactly [n0, n0+k), and once all returned '
             'memory = disk = n0+k with no lock held; C09_handed_out_distinct; C09_last_address_and_cache (the cached last address is the one just below '
             'the committed next index, the cache holds nothing the database lacks); C09_cache_covers_handed_out; C09_safe_if_mutex_held, '
             'C09_each_request_obtains, C09_no_deadlock; witnesses C09_unsafe_without_mutex, C09_unsafe_one_site_without_mutex, C09_unsafe_with_read_lock, '
             'C09_unsafe_recovery_without_mutex. C09_sites_hold_mutex and C09_model_applies are decided by vm_compute on Generated/AddrSites.v, '
             'regenerated on every run by a go/ast+go/types extractor over the WHOLE repository (25 packages): primitives = exported ScopedKeyManager '
             'methods from which an assignment to the next-index fields is reachable, sites = every walletdb transaction runner call in any package whose '
             'closure can reach a primitive, mutex = the sync.Mutex/RWMutex field locked around them (RLock counts as not held; a site in a package that '
             'cannot see the field is not held); only ScopedKeyManager and its index fields are looked up by name, so renaming the mutex or a function, '
             'factoring Update into a helper called under the lock or a locking wrapper stay quiet; shapes not understood are decided by a behavioural '
             'probe. Seven sites on this tree, all held: NewAddress, NewChangeAddress, CurrentAddress, FundPsbt, ImportAccountDryRun, txToOutputs, '
             'recovery. Dynamic leg: real wallet.Wallet on bbolt behind a walletdb proxy that parks a request between its real commit and its OnCommit '
             'handlers, or with bdb/bbolt running the handlers itself (evidence says which); all ordered pairs of the request kinds incl. dry-run import '
             "and recovery (fake chain reporting a found index) with B started inside A's window, random gated scripts, stress runs, follow-up requests "
             'and a restart; un-mutexed issuers as negative controls and as stand-ins for source sites the harness cannot call by name; observed schedule '
             'replayed on the model; compared: handed-out index multiset, in-memory and on-disk next index, last address per branch, cache containment; '
             'oracle: duplicate_address, index_gap, memory_disk_disagree, last_address_disagree, cached_address_unknown_to_database, '
             'restart_reissues_address, recovered_address_reissued; thorough tier re-runs the scenarios in a race-detector build (data_race).',
        note='One defect found and repaired (fix: 3232cc6, wallet.recovery extended the in-memory indexes without the address mutex: a parked NewAddress '
             'commit handler overwrote them, indexes recovery had found in use were re-issued and the stored counter regressed); replay runs first from '
             'corpus/C09. PARTIAL: Go scheduler and memory model are not modelled (atomic lock-level steps; the race-detector run is thorough tier only); '
             'the call graph over-approximates (closures folded into their creator, references counted as calls, interface calls resolved by name); the '
             'CreateSimpleTx hand-off to the creator goroutine is a channel, not a call; external callers of ScopedKeyManager outside the repository are '
             'not covered; the recovery witness is proved for one start index; safety assumes a recovery batch commits (a rolled-back batch is the C08/C10 '
             'eager-memory finding); one counter (scope/account/branch) per theorem instance. Trusted: Coq kernel+vm_compute, Conc.v, extract-c09, '
             'proxydb, bbolt writer exclusivity. No axioms.'),
    "C05": dict(
        text="Executable model Addr/Lock.v of waddrmgr's lock discipline (Lock, Unlock incl. wrong passphrase and derive-on-unlock, ChangePassphrase, "
             'ConvertToWatchingOnly, address/script/account objects and their clear-text buffers, the LRU key cache with its source capacity) '
             'parameterised by 20 facts regenerated from the source (Generated/LockFacts.v; source reader with a 28-scenario behavioural probe fallback '
             "that reads RETAINED references to the buffers). The state records in `gone` every buffer that left the manager's object graph (MarkUsed, "
             'InvalidateAccountCache, a replaced last address, the derive-on-unlock objects Unlock fills and forgets, LRU eviction, what lock() itself '
             'drops). 20 theorems, for every history: locked or wrong passphrase => every private access (PrivKey, Script of a secret script, signing, new '
             'accounts, private imports, crypt) is refused; watch-only likewise; a failed Unlock leaves the manager locked and wiped; C05_lock_clears '
             '(lock wipes everything it reaches and what it drops itself is dead); C05_dropped_never_forgotten; C05_locked_holds_no_cleartext_anywhere '
             'under the premise evict_ok; C05_refuted_without_zeroing and C05_refuted_without_eviction_wipe exhibit the failing history when a zeroing or '
             'eviction-wipe fact is false. Tie to the code: real waddrmgr; before and after every operation the harness walks EVERY field under *Manager '
             'by reflection (no list of field names; private ExtendedKeys, btcec private keys, snacl CryptoKeys are secret wherever they hang, every other '
             'byte field is scanned for the bytes of secrets seen while unlocked and of keys the harness derives itself from the seed), keeps references '
             'to the backing memory, and whenever the manager is locked or watching-only reads all retained references: oracle kinds '
             'cleartext_survives_lock@<Type.field>, secret_copy_survives_lock@<Type.field>, evicted_cleartext_survives_lock@<buffer>:<operation>.',
        note='Five lock defects found and repaired earlier (fix: 9cfa76a, 9338e0c, bbb3dca, ebd132b, 206f834, 0aab04c); replays run first from corpus/C05. '
             "KNOWN FINDINGS (7, one family, kind evicted_cleartext_survives_lock): objects that leave the manager's state while it is unlocked (MarkUsed, "
             'InvalidateAccountCache, replaced last address in nextAddresses/extendAddresses, the derive-on-unlock queue, LRU eviction) are not wiped, so '
             'their clear text survives Lock; replays corpus/C05/e1..e5; a repair is proposed (corpus/C05/e_fix_proposed.diff: a wipe helper at four '
             'sites; no hook exists for the LRU site) but not applied (three files, changes object life cycles). Consequently evict_ok is false on this '
             'tree and C05_locked_holds_no_cleartext_anywhere is vacuous here (PARTIAL, stated in the file header); the memory clause is proved for '
             "everything still reachable and for lock's own drops. Objects never stored in the manager (a caller's copy, e.g. the result of "
             "DeriveFromKeyPath) are outside the property. The correspondence treats 'locked' and 'watch-only' refusals as interchangeable where the "
             "property allows either and does not compare unlocked memory. Go's garbage collector may keep freed copies: outside the model. No axioms."),
    "C11": dict(
        text='Seventeen theorems. The model KV/KV.v (a bucket = one name space ordered by byte-lexicographic name, names bound to a value or a nested '
             'bucket, plus a sequence counter; committed tree, writer flag, open read transactions) is PARAMETERISED by the control-flow skeleton of '
             'db.Update / db.View / db.Batch - per way the closure ends (nil / error / panic): what becomes of the transaction (commit / rollback / leak) '
             'and what the caller gets - regenerated into Generated/TxFlow.v (symbolic execution of walletdb/bdb/db.go by harness/cmd/extract-c11, '
             'confirmed by a 12-scenario behavioural probe; Batch by the probe alone). C11_code_skeleton_safe is the obligation on this tree: commit only '
             'on nil, rollback on every error and panic path, View always closes its read transaction, errors and panics reach the caller. From it, for '
             'every database state, body, outcome and sequence: a failed Update/Batch changes nothing (any number of Batch re-runs), the database is '
             'usable after any history (no open read tx, Close returns), a commit makes all changes visible together, a nil return means the closure '
             'returned nil, Batch applies exactly once, concurrent callers are serialisable (any admitted quiescent schedule = the serial run in begin '
             'order), read-your-writes, read-only transactions cannot modify, cursor order and delete-then-reseek, namespace independence, incomparable '
             'buckets commute; C11_rollback_premise_needed shows each fact is needed. Tie to the code: random sequences on a real bbolt file through '
             'walletdb+bdb (Update/View/Batch closures returning nil/error/panicking, manual transactions, reader overlapping a writer, 2-6 concurrent '
             'goroutines with a serialisability oracle, close+reopen); every result, cursor walk, the open-read-transaction count (hook '
             'bdb.VerifOpenReadTxs) and a dump of the whole tree after each step are compared with the model, plus a model-independent oracle.',
        note="PARTIAL: reopen is the identity on the committed tree in the model (durability / crash atomicity of the file are bbolt's: trusted; only "
             "clean close+reopen is exercised); concurrency is proved for the model's lock (bbolt's lock and Batch grouping are exercised only); "
             'tx.Commit/Rollback are assumed to succeed; corner error classes of bbolt itself (DeleteNested of an unbound/empty name, NextSequence on a '
             'read tx, cursor after running off the end) are counted as drift, not compared. Outside the compared patterns: cursor use after Cursor.Delete '
             'without re-positioning, Last/Prev over a multi-page bucket that had deletions in the same transaction (bbolt 1.3.11 behaviour, DESIGN 9.3). '
             "Observation (not judged: the property is silent on error values): db.Batch returns bbolt's errors unconverted. No axioms (coqchk: none)."),
    "C15": dict(
        text='Model Sync/Sync.v of connectBlock / disconnectBlock / addRelevantTx / PutSyncedTo (window map with pruning at MaxReorgDepth) / syncWithChain '
             '(first synchronisation of a wallet whose birthday block is unknown: re-fetch the stamp at the located height, SetSyncedTo and '
             'SetBirthdayBlock in one transaction; the rollback loop; the birthday-reset branch when the rollback crosses the birthday block; one '
             'waitForSync attempt as `startup first backend hdr loc`) / catchUpHashes, and of recovery inside start-up (recovery windows 3-20 generated). 33 theorems: for every valid evolution (reorg of any depth whose '
             'lowest replaced block is inside the stored window, wallet transactions anywhere in the new blocks, notified before or after BlockConnected) '
             'and every stream obtained from its notifications by inserting stale, repeated or future disconnects, redundant transaction notifications and '
             'rescan notifications for already-reached heights, no handler fails and afterwards synced-to = backend tip, every height in [lo, tip] stores '
             "the best chain's hash, and no transaction record names a block off the best chain (lo = max(start of following, highest tip - MaxReorgDepth "
             '+ 1)); the same after every single notification and over any number of evolutions; start-up: C15_first_start (no birthday block, located '
             'height anywhere in [0, tip]: the attempt succeeds, synced-to = birthday = the located block, the wallet is consistent with the backend chain '
             'cut at that height) and C15_first_sync_follows (after the rescan: consistent from max(located height, tip - MaxReorgDepth + 1), '
             'chain_synced); C15_startup_rollback (terminates at the last common block, synced-to becomes that block, the store is rolled back from '
             'exactly that height + 1, incl. a rollback across the birthday block, whose reset cannot fail) and C15_startup_birthday_stays_on_chain; three '
             "stated _partial theorems for what the code does NOT give: backend tip below the wallet's synced-to height (nothing happens until an attempt "
             'finds the backend at least as high), fork point below the stored window (every attempt fails unchanged; the property promises nothing '
             'outside the window), and a REPEATED first synchronisation; C15_refuted_at_pinned for the pre-fix disconnect handler. Premise regenerated '
             "from source by a go/ast extractor (probe fallback): disconnect_records_parent_hash = true, MaxReorgDepth. The clause 'no transaction "
             "confirmed off the best chain' is also proved on the model of the REAL store (Sync/SyncStore.v: the handlers' store history is a run of the "
             'abstract validating node of Tx/Node.v, hence chain-consistent; C15_store_confirmed_only_on_best_chain, C15_wallet_balance_is_ledger_balance '
             'via C13/C01). Tie to the code: real wallet over the simulated backend; about half the cases drive every notification through the REAL '
             'handleChainNotifications goroutine (unbuffered channel + barrier value), incl. FilteredBlockConnected, RelevantTx, RescanProgress and '
             'RescanFinished; reorg depth up to 25, wallet transactions in replaced blocks, stale/repeated disconnects; start-up always through the real '
             'SynchronizeRPC -> ClientConnected -> birthdaySanityCheck -> waitForSync -> syncWithChain path with first synchronisations, rollbacks across '
             'the birthday block, a lower backend, a fork below the window; SyncedTo/BlockHash/RangeTransactions observed after every notification. '
             'THE PRODUCER OF THE STREAM WITH THE BITCOIND BACKEND (round 5): Sync/BitcoindReorg.v models chain/bitcoind_client.go ntfnHandler + reorg (collect the new branch, '
             'walk both branches back to the common ancestor, disconnect, fast-forward) over a block tree; C15_bitcoind_reorg_emits_the_evolution: for every tree that knows both '
             'branches, any depth and any branch lengths, the procedure emits EXACTLY emit c e (one BlockDisconnected per detached block, tip first, each with its own hash, '
             'height and time, then one BlockConnected per new block upward) and ends on the new tip; C15_wallet_follows_bitcoind_reorg composes it with C15_follows_evolution '
             '(wallet consistent with the new best chain afterwards); C15_bitcoind_poller_handover (the poller hands over one block per height: the first runs the reorg procedure, the rest are successors - together the stream of the whole evolution); C15_bitcoind_reorg_refuted_at_pinned keeps the pre-fix witness; premise regenerated from source '
             '(bitcoind_reorg_disconnects_own_hash; source shape, else probe). Tie: harness/cmd/c15bd runs the REAL BitcoindConn (RPC polling) + BitcoindClient (ntfnHandler, reorg, '
             'ConcurrentQueue) against a loopback stub node whose chain is extended and reorganised (depth 1-5, same-height reorgs the poller cannot see, back-to-back reorgs), '
             'hands every emitted notification to a real wallet, judges the stream and the wallet (synced-to, stored hashes, confirmed records) against the node and compares the '
             'stream with the model. THE RESCAN (Sync/BitcoindRescan.v: the block loop of BitcoindClient.rescan with its header list and walk back; the node\'s chain as a zipper at the loop height): '
             'C15_bitcoind_rescan_follows_reorg - when the best chain is reorganised below blocks the rescan has already notified (common ancestor still in its header list), for every depth and '
             'every length of the new branch the repaired loop emits exactly emit c e; C15_bitcoind_rescan_refuted_at_pinned; premise bitcoind_rescan_steps_down regenerated (source shape, else '
             'probe). Tie: the real client\'s Rescan against the stub node, which switches branches when the client asks for its k-th block (above, at, below the fetched blocks, below the start '
             'block); the stream is applied to a real wallet and compared with the model in two phases (before / after the switch).',
        note='Defect S18 (fix: 3affc57, found in round 5 by driving the real BitcoindClient.rescan against a node that reorganises during the rescan: the walk back kept the loop height, notified a block at the wrong height and then disconnected every block down to genesis; the wallet was rolled back to height 0) found and repaired, replays corpus/C15/bd_rescan_*.json. A reorganisation reaching below the block the rescan started from is covered by C15_bitcoind_rescan_follows_reorg_from_any_start (the header list may stop anywhere; the loop then asks the node). Defect S17 (fix: a8a2d8c, found in round 5 by modelling the bitcoind client: BitcoindClient.reorg named every block after the first of a reorganisation deeper than one by the hash of the block BELOW it; the wallet ignored those disconnects and kept transactions confirmed in detached blocks) found and repaired, replay corpus/C15/bd_*.json. Defects S1 (fix: 8ce830b, disconnect handler stored the zero hash) and S16 (fix: 9a2bd3a, with a recovery window the address recovery ran BEFORE the start-up rollback loop and moved synced-to onto the new tip, so an offline reorganisation that also made the chain higher was never rolled back: stale hashes, transactions confirmed in vanished blocks) found and repaired; replays run first from corpus/C15. The order of the two start-up stages is a fact regenerated from syncWithChain (recovery_before_rollback); C15_startup_recovery_after_rollback is the theorem for this tree, C15_startup_recovery_before_rollback_partial states what the other order gives. What decides: synced-to height and hash, ChainSynced, hashes '
             "in [lo, synced height], confirmed and unconfirmed records, whether a start-up attempt fails; a handler's error flag, the synced-to "
             "timestamp, hashes outside [lo, tip] and the birthday block are counted as drift only. Defect outside the property's quantifier (needs a "
             'backend failure), predicted by the model (C15_first_sync_repeated_partial) and reproduced (fixed input 1506): when NotifyBlocks or the '
             'rescan request errors after the first transaction of a first synchronisation committed, waitForSync retries with the same nil birthday stamp '
             "and SetSyncedTo(birthday) then fails PutSyncedTo's predecessor check forever (birthday height > 1) until the backend reconnects or the "
             'wallet restarts. Not modelled: a stored but unverified birthday block relocated by birthdaySanityCheck; a rescan notification running ahead '
             "of its blocks' connect notifications; wallet transactions that conflict with each other (C01/C02's subject: the store is the projection "
             '(txid, confirming block)/unconfirmed here). int32 wrap outside the model. No axioms.'),
    "C10": dict(
        text='Theorem leg (Properties/C10.v, 17 theorems + 31 per-operation facts): programs of a free-monad language over a bucket store (Read, one Write '
             'per mutating call, Fail, Bind, and `Call site p dflt` - a call whose error the caller treats according to the DISPOSITION of that call site: '
             'Propagated, DroppedReturn, DroppedContinue, DeferredDrop, LoggedReturn, LoggedContinue, Unknown). The dispositions are read from '
             'Generated/ErrFlow.v (266 error-carrying call sites of wtxmgr and waddrmgr classified by a go/ast+go/types extractor; only an error that '
             'reaches the caller counts as propagated - logged-and-returned-nil, `ok := f() == nil`, shadowed err, deferred calls and unrecognised shapes '
             'do not). Every operation of the transaction store and of the address manager is transcribed one definition per Go function with one `Call '
             '"<pkg>:<func>><callee>"` per call site; Fault/FaultSites.v proves which sites each operation uses; the 31 facts C10_sites_<Op> (all its '
             'sites are Propagated in the table of THIS tree) are decided by computation - a dropped error breaks exactly the obligations of the '
             'operations using that site, and the model then predicts the failing inputs (`Ok` after a strict prefix of the writes), which the check '
             'replays on the implementation. Under that premise, for every program, store and fault position k: the run reports an error, or k >= writes '
             'and result, store and call count equal the fault-free run; every k < writes yields the injected error at call k; discarding the working copy '
             'restores the store; a retry equals the clean run (dropped_site_refutes shows the premise is needed). Memory clause: a model of in-memory '
             'deltas with three step shapes regenerated from the source per operation (AfterOwnWrites, AtCommit, BeforeOwnWrites); '
             'C10_memory_after_disk_operations for every operation and C10_failure_in_first_call_leaks_nothing (a fault inside a single-call transaction '
             'leaves memory as before) for every operation except SetBirthday (excluded by its regenerated shape). Dynamic leg: for states of generated '
             'histories of the real store and the real manager (one in four with the manager locked) every mutating operation - incl. PutTxLabel, '
             'ConvertToWatchingOnly, ImportPublicKey, witness/taproot script imports, watch-only accounts, waddrmgr.Create (94 writes) and wtxmgr.Create '
             '(12) on a fresh file - is probed on its own copy of the bbolt file and for EVERY k in 1..n the k-th mutating walletdb call fails: error '
             'reported, bucket tree after rollback equal to before, every query answers as before, retry equals the clean run. Correspondence: the '
             "committed state decoded from the bbolt file into the model's abstract rows, the rows the clean run changes, the per-k error pattern and the "
             'categories of differing memory queries (observed subset of predicted); a differing write COUNT alone is accepted when all sites propagate '
             "and the implementation's own sweep over all its positions is clean.",
        note='One swallowed write error found and repaired (fix: 25cbf4f, replay runs first from corpus/C10). KNOWN FINDINGS: 28 (kind, site) pairs, one '
             'family - in-memory state of the address manager updated before commit survives a rollback after a failing LATER write of the same database '
             'transaction (RenameAccount, SetSyncedTo, Extend*, the address cache in Import*, ChangePassphrase, NewScopedKeyManager, '
             'ConvertToWatchingOnly, watch-only account creation) or, for SetBirthday, a failing OWN write; several surface as retry_differs. Sites end in '
             ":own-write or :later-write, so the same eager update moved in front of an operation's own writes is a new VIOLATION, not a known finding. "
             "Same root cause as C08's K (moving the updates to OnCommit would change what later reads inside the same transaction see). One failing write "
             'per database transaction; commit failures are C08/C11. Ciphertexts are compared by presence only. Trusted: the hand transcription (tie = '
             'abstract state dump + per-k pattern), go/ast extractors (dispositions, memory shapes), faultdb, bbolt. No axioms (coqchk: none).'),
    "C06": dict(
        text='16 theorems (Print Assumptions closed; coqchk: none) over the model Select/Eligible.v of findEligibleOutputs + txToOutputs: a key scope is '
             'the pair (purpose, coin type), an owner records account, scope and whether the private key is held; candidates = credits of the requested '
             'account AND scope that are unspent by any known confirmed or unconfirmed transaction, not locked, not leased, confirmed at least minconf '
             'times and mature if coinbase. Proved for every chain-consistent history, request and selection: every automatically selected input is '
             'eligible; an explicit selection is used as given and an ineligible, spent, leased, foreign, duplicate or unknown explicit input is refused '
             '(facts rej_dup and req_elig regenerated from the selection loop into Generated/SelectFacts.v; source reader following same-package helpers '
             'with a 78-scenario behavioural probe fallback; refutation witnesses for either fact false); no output is used twice in one transaction; '
             'PUBLICATION is a real event linked to a creation (publish_accepted t = [Seen t], publish_rejected t = [Seen t; Abandon t]): after an '
             'accepted publication and any later events by this wallet, the chain or other wallets that do not displace t (confirmed conflict, detached '
             'coinbase ancestor, abandon - each with descendants), no later creation selects any input of t, also across a restart '
             '(C06_published_inputs_never_reused, C06_recorded_inputs_never_reused, C06_wallet_side_events_displace_nothing); a rejected publication '
             'restores the candidate set (permutation); the sign/skip decision (signed unless dry run or watch-only; the imported account is signed iff '
             "the wallet holds the key of every input - fix 7cd4d93). Tie to the code: a real wallet.Wallet on bbolt publishing to the harness's own "
             'VALIDATING node (answers SendRawTransaction from the harness ledger and the script engine); accounts 0..2 in the four default scopes, a '
             "custom scope (84,1) sharing BIP84's purpose, two watch-only accounts, six imported keys (P2PKH compressed and uncompressed, P2WPKH, nested, "
             'P2TR; one public-only); 179 systematic scenarios (every ineligible state x {explicit next to a good output, SendOutputsWithInput, automatic '
             'selection that could only succeed by using it} x every API, the good side of every boundary) + random histories incl. reorgs, third-party '
             "double spends, restarts, leases with a test clock, 2-3 concurrent SendOutputs; oracle = the harness's own ledger and "
             'txscript.NewEngine(StandardVerifyFlags) on every input of every result; REFUSED = error AND nothing created, recorded or sent (never the '
             'error text).',
        note='Defects found and repaired: S8 duplicate explicit inputs (fix: ad29dfd, 5d1211d) and requests for the imported account never being signed '
             'although the wallet held every key (fix: 7cd4d93); replays run first from corpus/C06. PARTIAL: signature validity is not a Coq theorem '
             '(cryptographic): exercised with the real script engine on every input of every signed result for every input kind; concurrency is not '
             'modelled: racing SendOutputs calls are run and each created transaction is judged against the ledger before the race. Limitations: FundPsbt '
             'with caller-supplied inputs asserts only ownership and single use (S13); `own` (script -> scope, account, key held) is a parameter of the '
             "model (C03's subject; the oracle uses an independent BIP32 derivation); the custom scope's coins are credited through the exported TxStore. "
             'Observations outside the letter of the property, counted in the evidence, not raised: two concurrent SendOutputs select the same coin (the '
             "serialised section ends before the spend is recorded; 60/60 trials) - 'successive sends'; SendOutputs hands the unsigned result of a "
             'watch-only ACCOUNT to the backend instead of returning ErrTxUnsigned; FinalizePsbt attaches a witness to a P2PKH input and reports success. '
             'Trusted: extractor/probe, hooks, harness/cmd/c06/backend.go (the validating node). No axioms.'),
    "C20": dict(
        text='Model Tx/Publish.v of reliablyPublishTransaction / publishTransaction / resendUnminedTxs over the closed store refinement. An answer of the '
             'backend is: no error | an error that Is one of the 45 exported sentinels of package chain (the list AND the branch the code takes for each '
             'are regenerated into Generated/PublishFacts.v: C20_every_sentinel_listed - a new or differently treated sentinel breaks the obligation - and '
             'C20_every_answer_by_class: no sentinel gets a treatment of its own) | an error that Is none. 17 theorems, unbounded, for every store state '
             'satisfying Inv (closed over all chain-consistent histories: C20_after_every_history, C20_over_histories): every rejection-class answer takes '
             "the remove-and-error branch and the code's branch equals the text's for every answer and subscription outcome "
             '(C20_every_rejection_removes_and_errors, C20_code_meets_text); a rejected or subscription-failed FRESH transaction => error result and Inv '
             'for the SAME facts, hence every balance (all minconf/sync/time), the spendable set and the unconfirmed set equal the pre-attempt ones '
             '(C20_rejected_leaves_no_trace); accepted / already-in-mempool => facts = spec_seen, unconfirmed exactly once (C20_mempool_tx_recorded_once); '
             "on already-known / confirmed answers only 'kept AND error returned' is excluded (C20_known_or_confirmed_consistent: the text does not demand "
             'removal there); a refused re-broadcast of a recorded transaction => spec_abandon, it and every transitive unconfirmed spender gone '
             '(C20_rejected_rebroadcast_forgets_descendants, C20_removal_forgets_descendants); error mapping: every key of the four regenerated MapRPCErr '
             'tables (bitcoind, bitcoind >= 28, btcd, btcd < 0.24.2) maps to a sentinel of its class, and for every backend and every message containing '
             "none of the nine 'I already have it' texts every sentinel MapRPCErr can return is a rejection, whatever the Go map iteration order "
             "(C20_mapping_tables_respect_classes, C20_rejection_text_stays_rejection); resend, for both map orders of DependencySort (C14's theorem): the "
             'offered list is a permutation of the unconfirmed set, each once, parents first; fuel never runs out. Tie to the code: real wallet + '
             'simulated backend; every one of the 45 sentinels through PublishTransaction, SendOutputs and a resend position, plain and wrapped (%w); 47 '
             'ground-truth raw node replies per backend flavour through the REAL chain.BitcoindClient / chain.RPCClient (btcd 0.24.2 and 0.24.0, HTTP to a '
             'loopback stub node) / NeutrinoClient SendRawTransaction + MapRPCErr; the mapping of every table key (567 rows); a confirmed parent with an '
             'unconfirmed child refused in six forms; random histories (chained unconfirmed sends, leases, republish of unconfirmed/confirmed/forgotten '
             'transactions, restarts with VerifResendUnminedTxs and with SynchronizeRPC + ClientConnected + RescanFinished); balances, UnspentOutputs and '
             "the unmined set compared after every event with model and spec; the oracle judges by what the backend MEANT plus the call's result; the "
             'order of SendRawTransaction calls checked with Kahn.admissible.',
        note='Defect S9 found and repaired (fix: 7855d2f); replays run first from corpus/C20. Fresh = unknown transaction with no unconfirmed spender of '
             "its outputs that a node would relay (event_ok (Seen t)). PARTIAL: the converse mapping direction ('an in-mempool reply IS mapped to "
             "ErrTxAlreadyInMempool') is exercised, not proved; timing of the asynchronous `go resendUnminedTxs()` is exercised, not modelled; failures of "
             'walletdb.Update / requireChainClient are outside the model; the source part of the facts about package chain has no behavioural fallback (an '
             'unreadable table is a broken obligation). Hand-written: accepting_texts (nine) and sentinel_classes (45, checked equal to the regenerated '
             "list). Observations, not raised: the transaction LABEL written before the broadcast survives a rejection (the text spells 'forgotten' out as "
             'coins, change, balance, spendable set: a label of an unrecorded transaction is reachable through none); publishing an already CONFIRMED '
             'wallet transaction that the backend answers as known/confirmed/rejected removes its unconfirmed children. Trusted: go/ast extractors '
             '(wallet.go branches, chain tables), the stub node, simchain, id projection. No axioms.'),
    "C16": dict(
        text='Model Recovery/Recovery.v of BranchRecoveryState (ExtendHorizon counting invalid children, ReportFound, pruning) / recoverScopedAddresses '
             '(explicit BatchIndex and batch[BatchIndex+1:]) / Resurrect / extendAddresses / addRelevantTx over an abstract chain, of locateBirthdayBlock '
             '(left/right/mid arithmetic, the 2 h delta in both directions) and of the PRODUCTION entry (wstate, first_start, startup, startups: locate '
             'the birthday block, store it, set synced-to to it, recover from synced-to + 1, resume on later starts). 18 theorems: for every invalid-child '
             'predicate, scope set, W, batch size, birthday height and list of interruption points with resurrect in between: if each scanned block pays, '
             'per branch, only valid indices whose valid-rank is below rank(1 + highest index paid in EARLIER blocks) + W (txids distinct, no outpoint '
             'spent twice) then after recovery of a fresh wallet every paid path is known and marked used, the recorded transactions are exactly (in chain '
             "order, once) those paying a wallet path or spending an earlier unspent wallet output, the unspent set is the chain's ledger, each branch's "
             "next index is above every paid index, synced-to is the tip; C16_same_block_beyond_window_is_missed shows 'earlier blocks' is exactly the "
             'hypothesis the code needs. Production entry: C16_first_sync_recovery_complete and C16_first_sync_balance_is_ledger_balance (a restored '
             'wallet first started on a chain of length c0 where the search returns block b, then started again at later heights: the same conclusions '
             'over blocks_after b), C16_recovery_run_is_fold_of_flushes, C16_run_scans_each_later_block_once_in_order (for any batch size the batches of '
             'one run concatenated are exactly heights synced+1..best), C16_all_runs_scan_exactly_the_blocks_after, C16_first_scanned_block_not_late (with '
             'non-decreasing timestamps b+1 is no later than any block stamped later than birthday + 2 h, also when the search ran on a truncated chain). '
             'Birthday search: for every timestamp list and birthday the loop terminates on genesis or a block stamped at most birthday + 2h. Tie to the '
             'code: 7 in 12 recovery cases enter the way production does - Wallet.SynchronizeRPC + ClientConnected through the real '
             'handleChainNotifications -> birthdaySanityCheck -> syncWithChain(nil) -> locateBirthdayBlock / SetSyncedTo / SetBirthdayBlock / recovery / '
             'rescan, interruptions reopen the wallet - the rest through the VerifRecovery hook; the REAL BitcoindClient.FilterBlocks and '
             'RPCClient.FilterBlocks loops (never started clients over a loopback JSON-RPC node serving the simulated chain, GCS filters built with '
             "btcutil) or the simulated backend's copy (evidence says which per case); usage patterns satisfying / violating the look-ahead by one index, "
             'W in {1,2,5,20}, all four default scopes, later spends, chains crossing birthday + recoveryBatchSize +- 3, three timestamp shapes incl. the '
             'first paying block right after the birthday block, locked and unlocked; a FilterBlocks call counter turns a livelock into a replayable '
             'failure. BranchRecoveryState with INVALID child indexes is also driven for real (round 5): the derive loop of expandScopeHorizons is replayed on the real wallet.BranchRecoveryState with a chosen set of failing indexes (invalid children at and around NextUnfound, windows 1-20), every call compared with the model (returned horizon/delta, NextUnfound, NumInvalidInHorizon, address count) and the look-ahead judged directly (at least W valid addresses from NextUnfound on).',
        note="'Ends with the correct balance' is proved end to end (C16_recovered_balance_is_ledger_balance): the chain is translated into a Tx universe "
             'and the recorded transactions into the Confirm history applied by addRelevantTx; under the completeness hypotheses plus chain_txs_wf that '
             "history is chain-consistent for a well-formed universe, so by C01 the store's Balance(1, tip) equals the ledger balance. BOUNDARY: "
             'production never scans the located birthday block itself (it is genesis or stamped no later than the stored birthday + 2 h, i.e. not a block '
             'that could pay the wallet); payments in it are not promised; the oracle demands every payment from the first block stamped later than '
             'birthday + 2 h. Production-entry assumptions: W >= 1, a verified stored birthday block on later starts, no reorganisation between starts, '
             "monotone timestamps. The correspondence is projected to what the theorems need: the implementation's next index >= the model's, every path "
             'the model knows is known to the manager, Used flags exact, the birthday block ADMISSIBLE (on the chain; genesis or stamped <= birthday + 2 '
             'h) rather than identical; recorded transactions, balance, unspent set and synced-to exact. Exercised only: locked vs unlocked (the model has '
             "no lock state), the neutrino FilterBlocks loop is not run (same shape as btcd's). Invalid children are model-only. Trusted: path-to-address "
             'identification, the simulated chain and its JSON-RPC node, walletenv. No axioms.'),
    "C04": dict(
        text='Model Addr/Taint.v: every value waddrmgr stores is a list of symbolic terms (Enc keyid t | Hash | Kdf | Clear atom | Cat | Const), atoms '
             'classed Secret, Passphrase, Sensitive or Public; 17 operations each yield their bucket writes and deletes transcribed from manager.go / '
             'scoped_manager.go / db.go. WHICH key seals WHAT is not hand-written: every sealed field is sealT T site ctx, and the table T (20 write sites '
             '-> sealing key, plaintext class) is regenerated from the source (Generated/TaintSites.v; harness/cmd/extract-c04, go/ast: every argument '
             'that reaches a sealed slot of a db.go put function is traced back to its X.Encrypt(arg), key = identity of X, class = origin of arg; '
             'behavioural probe fallback). 15 theorems, all for EVERY table passing the decidable check table_ok (secret content only under a '
             'private-chain key in both readings of the script key, passphrases/seed never sealed, nothing private in a field that survives conversion); '
             'C04_current_table_ok and C04_all_source_sites_safe discharge that check for the regenerated table and for every stored Encrypt result of the '
             'package by computation - the obligations a wrong-key edit breaks. For every history and EVERY commit boundary: a passphrase occurs only '
             'below a one-way function, a secret only below a sealing under cryptoPriv/cryptoScript/masterPriv, a sensitive atom only below a sealing or a '
             'hash, the seed and derived address private keys are never written; a reader holding the file and only the PUBLIC passphrase (plus the '
             'all-zero script key in the strict reading) learns no secret atom and no passphrase (C04_public_passphrase_reader_learns_no_secret); lock and '
             'unlock write nothing; after conversion to watching-only and any continuation (reopen included) no LIVE row holds private material in any '
             'form (on this tree for every history: regenerated fact wo_strips_taproot = true since fix 71c2e41; for a tree without that case, outside K = '
             'histories importing a secret taproot script, witness C04_watch_only_residue_at_K); every address row survives conversion with its public '
             'fields; Unlock answers ErrWatchingOnly for any passphrase and every modelled private call is refused. Tie to the code: real waddrmgr and '
             'real wallet (create, imports, passphrase changes, received transactions, SendOutputs, failed sends, conversion) over bbolt; after EVERY '
             'call, committed or refused (wallet level: every commit of any goroutine), the whole file - all namespaces, free pages included - is scanned '
             'for every secret produced so far (raw, hex, base58, WIF, xprv/tprv string, 78-byte serialization, base64 in any alignment), every passphrase '
             'incl. old ones, and until a transaction is recorded every sensitive item; every sealed blob of every changed row in every bucket (known '
             'layouts + anything that opens in an unexplained stretch of a value) is OPENED with keys the harness derives itself from the passphrases '
             '(public chain mpub->cpub and the all-zero key; private chain mpriv->cpriv/cscript, remembered after conversion) and its PLAINTEXT classified '
             'by content: no secret may open under a public-chain key, no live row of a watching-only database may hold a blob a remembered private-chain '
             "key opens to a secret; the facts (slot, key that opens it, plaintext class), the watching-only flag, 'lock/unlock/open change no row' and "
             'the answers of the reopened watching-only accessors are compared with the model - nothing else (no row counts, lengths or metadata rows; '
             'unknown rows are judged by the scan).',
        note='One defect found and repaired (fix: 71c2e41, ConvertToWatchingOnly kept secret taproot scripts; replay runs first from corpus/C04). One '
             'KNOWN finding, raised and matched on every run: secret scripts are sealed under the all-zero key (Unlock never loads cryptoKeyScript, S5) '
             'and are readable from the file with no passphrase - no compatible repair; the theorems are proved in both readings of the script key. '
             'PARTIAL: the raw/serialized-text clause is decided for the listed encodings (sealed values are opened whatever the row); crash points = '
             "commit boundaries (bbolt's atomic commit trusted); strength of secretbox/scrypt/sha256 is symbolic (C17); page cache, swap, process memory "
             'out of scope; the transaction store and other namespaces have no symbolic model (byte scan + decrypt-and-classify of the wallet-level runs '
             'only); freed pages: after conversion the image still holds the CIPHERTEXTS of the deleted private rows (mpriv parameters, cpriv, cscript, '
             'mhdpriv, ctpriv, account and imported private keys) and the old private passphrase still opens them until bbolt reuses the pages - outside '
             "the property's letter ('raw or serialized text form'; 'no passphrase unlocks it and no call returns private material'), measured in the "
             'evidence, not raised; NewScopedKeyManager on a watching-only manager creates an empty scope (not compared). Observation, not raised: '
             'waddrmgr NewAccountWatchingOnly accepts an extended PRIVATE key and stores it under the public crypto key (caller precondition; '
             "wallet/import.go rejects it). Trusted additionally: the go/ast sealing-site reader and the harness's trial decryption (snacl of the "
             'repository). No axioms.'),
    "C08": dict(
        text='Model Addr/MemDisk.v: database rows (account rows with name, next indices, address type and master-key fingerprint; name/id indices, last '
             'account, address and used sets, synced-to, the block-hash window, start block, birthday, birthday block) and memory (acctInfo cache with '
             'last addresses, the address cache as a map from address to the (type, fingerprint) its object recorded when built, sync state, birthday, '
             'lock state, the derive-on-unlock queue); database transactions that commit, are aborted by the caller, are aborted as dry run or whose '
             'commit fails; OnCommit closures run only on a successful commit. PARAMETERISED by three booleans read from the source into '
             'Generated/AddrCache.v (nextAddresses caches its read-back; extend updates memory before commit; rename updates memory before commit): every '
             'theorem is proved for all 8 values, so repairing an eager update turns a known finding into silence instead of an alarm. Operations: '
             'NewAccount, RenameAccount, Next/ExtendAddresses (default and imported watch-only accounts: public derivation), MarkUsed, SetSyncedTo, '
             'SetBirthday, SetBirthdayBlock, Import* with or without private key, Lock, Unlock (loads queued accounts), InvalidateAccountCache, all reads. '
             '10 theorems, unbounded: C08_outside_K - after every transaction boundary of every history outside the decidable pattern K the running '
             'manager answers every query exactly as a manager freshly opened on the database and brought to the same lock state; '
             'C08_derivation_info_is_the_rows - outside K the address type and master-key fingerprint reported for any known address are those of its '
             "account's row; C08_rollback_does_not_advance_indices; C08_next_issue_equals_restart and C08_index_queries_outside_K_idx (K_idx a subset of "
             'K); C08_import_dry_run_outside_K (what wallet.ImportAccountDryRun does - a rolled-back import followed by its cache eviction - is outside '
             'K); C08_dry_run_issuance; C08_refuted_at_K - 13 witnesses, the parameter-dependent ones exactly when the source is eager; '
             'C08_model_assumptions_hold_in_source (next commits memory in its closure, rename covers both row kinds, extend records the fingerprint). Tie '
             'to the code: real waddrmgr on bbolt behind a wrapper that can abort or fail commits, two scopes through one manager (projected per scope), '
             'lock/unlock/invalidate in the alphabet, plus the real wallet (NewAddress, NewChangeAddress, CreateSimpleTx incl. dry run, ImportAccount, '
             'ImportAccountDryRun, issuance from imported accounts); after EVERY transaction the file is copied, opened with a fresh waddrmgr.Open brought '
             'to the same lock state, and both managers answer the full query set incl. DerivationInfo (scope, path, fingerprint) and PubKey bytes of '
             "every address and last address. Any harness-side 'the model no longer follows the code' condition, or a start-up probe disagreeing with "
             'Generated/AddrCache.v, FAILS the check.',
        note='PARTIAL: the equivalence is proved outside K and refuted inside. K = an aborted transaction holding rename, set-synced-to, set-birthday, '
             'extend, import, new-account followed by a read of it, or a cached reload of an evicted account; or a committed transaction holding extend '
             'after next-addresses on the same branch, or SetSyncedTo(nil). 19 (kind, site) pairs of K are recorded KNOWN findings (eager in-memory '
             "updates, same root cause as C10's), each identified by the operations with their outcomes and the transaction's fate "
             '(`<Op>=<outcome>,…/rolled-back|committed`; consequences as `after:<root site>`), so a different divergence at the same operation is a new '
             'VIOLATION. Two defects repaired: S4 phantom address after a rolled-back issuance (fix: a362ebf) and S14 extendAddresses dropping the '
             'master-key fingerprint from the derivation path (fix: 7aeeade); replays run first from corpus/C08. Consequence inside K (observation): if an '
             'address waiting for its key belongs to an account whose row was rolled back and whose cache entry was evicted, Unlock fails with '
             'ErrAccountNotFound and the manager stays locked until restart. SetSyncedTo / SetBirthday / Import eagerness is not two-sided (repairing '
             'those would alarm as a model mismatch). Two scopes are exercised by per-scope projection only (no theorem about the product). '
             'ConvertToWatchingOnly is in the alphabet (committed conversions are covered by C08_outside_K; a rolled-back conversion is in K: the running manager is watching-only for good, a restart is an ordinary manager - known finding). ChangePassphrase and NewScopedKeyManager are outside the alphabet (the first changes nothing the queries report, the second adds a component the one-scope model has no state for); fault-free database in the model. Trusted: '
             'address<->path table derived with hdkeychain, bbolt. No axioms.'),
    "C03": dict(
        text='Executable model Addr/Mgr.v of waddrmgr key derivation and private-key availability (disk rows, account and address caches, deriveOnUnlock, '
             'privKeyCache; symbolic HD keys in Addr/Keys.v with pub(ckd_priv k i) = ckd_pub(pub k) i by construction), parameterised by facts regenerated '
             "from the source. Keys.v models BOTH hardened-derivation rules (standard BIP32 and btcsuite's legacy DeriveNonStandard, which differ when the "
             'parent private key has a leading zero byte - parameter lz), the WIDTH at which hdkeychain holds each parent key (full after '
             'NewMaster/NewKeyFromString, stripped after a derivation) and the SPECIFICATION table spec_rule written from the property text and '
             "hdkeychain's issue-172 documentation (m -> purpose' BIP32; purpose' -> coin' legacy; coin' -> account 0' legacy; later accounts BIP32 "
             'because they come from the coin-type key read back from the file; hardened branch BIP32; hardened index legacy): a key made with the other '
             'rule leaves the key tree (off_spec). 24 closed theorems over every history from Create(seed) (invariant preserved by all operations): '
             'per-step rule theorems for every lz (C03_rule_purpose/coin/account0/later_account/branch/index_step), C03_other_rule_other_key, '
             "C03_on_spec_iff_rule, C03_create_scope_keys; account rows hold m/purpose'/coin'/account' or the imported xpub; NextAddresses returns exactly "
             "indices next..next+n-1 as CKDpub(CKDpub(account key, branch), index) in the scope's or the account's overriding format with the true path "
             "(incl. the account row's master-key fingerprint, also for extended addresses since fix 7aeeade), account and internal flag; stored next "
             'indices move only by Next (+n) and Extend (to last+1); Manager.Address and DeriveFromKeyPath return children of the account key at the '
             "reported path; C03_recreated_wallet_same_addresses (two wallets from the same seed hold the same account keys and, where the scope's schema "
             'agrees, the same address for every branch and index); a returned private key is never wrong; whenever unlocked, PrivKey() of any held '
             'address of an account with a private key returns the key of its public key (fresh, cached, derived while locked, extended, loaded after '
             'restart); imported private keys (scalar + compressed flag), imported PUBLIC keys, imported scripts incl. witness and taproot scripts (secret '
             'ones refused while locked, public ones readable) come back unchanged, also later and after restart; C03_refuted_when_false for the pre-fix '
             'extendAddresses. Tie to the code: real waddrmgr on bbolt, several seeds incl. 24 found by an offline search whose master / purpose / coin / '
             'account / branch key has a leading zero byte (corpus/C03/legacy_rule.jsonl, replayed on every run), the four default scopes + a custom '
             'scope, accounts 0..3 + imported xpub accounts with and without schema override, random histories incl. restarts, public and private '
             'passphrase changes, n = 0 and the address-count bound, hardened branch/index requests; every returned address / public key / private key is '
             'judged by an INDEPENDENT BIP32 implementation holding exactly ONE key per path (HMAC-SHA512 + btcec point arithmetic, the specified rule per '
             'step; a key made with the other rule is the violation wrong_hardened_rule) with independent address encoders (base58check, bech32/bech32m, '
             "BIP86 tweak, P2WSH, single-leaf taproot); 'can sign': from the 32 returned bytes the oracle checks the key is the specified child for the "
             'REQUEST path, k*G = PubKey() and that public key encodes to Address() in the reported type; a second, independent wallet re-created from the '
             'same seed (other passphrases, creation time, file) is compared address by address.',
        note='Four defects found and repaired (fix: 37693ad extendAddresses, fc8a2e4 DeriveFromKeyPathCache, b387b8f last account of a new scope, 7aeeade '
             'fingerprint of extended addresses); replays run first from corpus/C03. PARTIAL: derivation in bytes (HMAC-SHA512, secp256k1) and address '
             'encodings are exercised through the independent oracle on every returned key, not proved; that every hardened step uses the specified one of '
             "the two rules IS a theorem about the model and is exercised on seeds where the rules differ; 'can sign' checks the returned private key, no "
             'signature is produced; invalid BIP32 children, a watching-only root manager and ConvertToWatchingOnly are not modelled; which legitimate '
             'error class a REFUSED operation carries is not compared (a crash only matches a crash), the classes of PrivKey()/Script() are. Equivalent '
             'rewrite, rightly quiet: Derive instead of DeriveNonStandard at the PURPOSE step (the master key is always held at full width). Observations, '
             'not raised: NextExternal/InternalAddresses(ns, acct, 0) panics in its commit hook (no address was requested); DeriveFromKeyPath copies the '
             "caller's DerivationPath.Account into the reported path unchecked (only visible for an untruthful request). Trusted: hdoracle with btcec "
             'group operations, extractor/probe. No axioms.'),
}
