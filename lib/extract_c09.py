"""C09: regenerate coq/Generated/AddrSites.v from the repository's source.

Facts (harness/cmd/extract-c09: go/ast + go/types over EVERY package of the
repository, found by walking the tree):
  * `sites`: every call, in any package, that runs a database write transaction
    (walletdb.Update/Batch, DB.Update/Batch, or a repository helper that passes
    its transaction function on to one of them) whose transaction function can
    reach - through the call graph - an exported method of
    waddrmgr.ScopedKeyManager that advances an account's in-memory next index:
    class "issue" (the method returns managed addresses: Next*Addresses) or
    "extend" (it does not: Extend*Addresses, recovery);
    `held`   = a mutex that is a struct field (found by TYPE sync.Mutex /
               sync.RWMutex; the one locked around most sites) is locked
               EXCLUSIVELY before the transaction begins and released only after
               the runner returned (commit and commit handlers included) - at
               the site, in the runner helper the transaction function passes
               through, or in every caller of the site's function;
    `shared` = it is only READ-locked (RLock) around the transaction;
  * `next_index_update_deferred`: every issuing primitive assigns the next-index
    fields only inside closures registered with OnCommit (the shape the model
    Addr/Conc.v transcribes for requests; recovery's eager update is the
    model's "extender").

Nothing is keyed on a function or field name except waddrmgr.ScopedKeyManager
and the uint32 "next...index" fields of its account record.

Two paths produce the per-site flag:

  PRIMARY  - the source shape (see the extractor's header).  Positive evidence
             of a wrong protocol (lock or unlock inside the transaction closure,
             read lock, no function on any path to the transaction takes the
             mutex, site in a package that cannot see the unexported field)
             gives `false`.
  FALLBACK - only for a site whose locking shape is not recognised (lock taken
             through an alias, a lock helper, per-key mutexes, ...): PROBING the
             code built from the repository with harness/cmd/c09, see
             probe_sites.  Which request kinds of the harness go through which
             site is asked of the running code (harness -calibrate: the stack
             at Begin), not written down here.

The Generated file says which path produced the table (`facts source: ...`)
and each entry carries `held_from`.  main() raises only if, for some site, both
paths fail (the message carries both reasons); shapes that make the site LIST
itself unreliable (a transaction function that is an opaque value, hand-written
Begin/Commit) cannot be probed and always raise.

The extraction result is cached by a digest of every non-test .go file of the
repository and of the extractor (bin/extract runs for every check)."""
import hashlib, json, os, shutil, subprocess

import vlib


def cstr(s):
    return '"%s"' % s.replace('"', '""')


def clist(xs):
    return "[" + "; ".join(xs) + "]"


def _repo_digest(repo, extra_dirs=()):
    h = hashlib.sha1()
    for root in [repo] + list(extra_dirs):
        for d, dirs, files in os.walk(root):
            dirs[:] = sorted(x for x in dirs if not x.startswith(".") and x not in ("testdata", "vendor"))
            for f in sorted(files):
                if f.endswith(".go") and not f.endswith("_test.go") or f == "go.mod":
                    p = os.path.join(d, f)
                    h.update(os.path.relpath(p, root).encode())
                    try:
                        h.update(open(p, "rb").read())
                    except OSError:
                        pass
    return h.hexdigest()


def extract(repo):
    key = _repo_digest(repo, [os.path.join(vlib.HARNESS, "cmd", "extract-c09")])
    cache_p = os.path.join(vlib.WORK, "c09_extract_cache.json")
    try:
        c = json.load(open(cache_p))
        if c.get("key") == key:
            return c["res"]
    except (OSError, ValueError, KeyError):
        pass
    with vlib.Lock("go"):
        p = subprocess.run(["go", "run", "./cmd/extract-c09", repo], cwd=vlib.HARNESS, env=vlib.GOENV,
                           stdout=subprocess.PIPE, stderr=subprocess.PIPE, text=True, timeout=280)
    if p.returncode != 0:
        raise RuntimeError("extract-c09 failed on %s (rc=%d): %s" % (repo, p.returncode, p.stderr.strip()[-2000:]))
    res = json.loads(p.stdout)
    os.makedirs(vlib.WORK, exist_ok=True)
    with open(cache_p, "w") as f:
        json.dump(dict(key=key, res=res), f)
    return res


def render(res, source_line):
    rows = []
    for s in res["sites"]:
        rows.append("  {| site_name := %s; site_pkg := %s; site_file := %s; site_class := %s; site_via := %s;\n"
                    "     site_runner := %s; held := %s; shared := %s; held_from := %s;\n     held_why := %s |}" % (
                        cstr(s["name"]), cstr(s["pkg"]), cstr(s["file"]), cstr(s["class"]), clist([cstr(v) for v in s["via"]]),
                        cstr(s["runner"]), "true" if s["held"] else "false", "true" if s.get("shared") else "false",
                        cstr(s["from"]), cstr(s["why"])))
    return """(* GENERATED by lib/extract_c09.py (harness/cmd/extract-c09, go/ast + go/types) from
   EVERY package of the repository.  Do not edit; bin/extract rewrites it.

   One entry per database write transaction (a call of walletdb.Update/Batch,
   DB.Update/Batch or of a repository helper wrapping one) whose transaction
   function can reach an exported waddrmgr.ScopedKeyManager method that advances
   an account's in-memory next index: site_class "issue" (the method returns
   addresses) or "extend" (recovery).  site_name is the function containing the
   call, as the Go runtime names it, relative to the module.
   held   = the address mutex (%s) is locked exclusively before the transaction
            begins and released after the runner returned (commit handlers included);
   shared = it is only read-locked around the transaction (does not exclude
            another reader);
   held_from = "source" (shape read from the source) or "probe" (shape not
   recognised: flag determined by running the gated two-request scenario on the
   built code). *)
(* facts source: %s *)
From Coq Require Import String List Bool.
Import ListNotations.
Local Open Scope string_scope.

Record site := {
  site_name : string;
  site_pkg : string;
  site_file : string;
  site_class : string;
  site_via : list string;
  site_runner : string;
  held : bool;
  shared : bool;
  held_from : string;
  held_why : string
}.

Definition sites : list site :=
[
%s
].

(* the mutex: struct field of a sync mutex type locked around most of the sites *)
Definition address_mutex : string := %s.
Definition address_mutex_type : string := %s.

(* packages read (directories relative to the module; "" = the module root) *)
Definition packages_scanned : list string := %s.

(* exported ScopedKeyManager methods from which an assignment to %s is reachable:
   those returning managed addresses ... *)
Definition issuing_primitives : list string := %s.
(* ... and the others (recovery) *)
Definition extending_primitives : list string := %s.

(* %s *)
Definition next_index_update_deferred : bool := %s.

(* informational: ScopedKeyManager methods creating accounts, and the transactions
   reaching them (an account's number comes from the database inside the creating
   transaction and its counters start at 0 there: no stale-memory window) *)
Definition account_primitives : list string := %s.
Definition account_sites : list string := %s.

(* informational: exported functions outside waddrmgr that issue or extend on a
   transaction or bucket supplied by their caller *)
Definition open_helpers : list string := %s.

Definition is_issue (s : site) : bool := String.eqb (site_class s) "issue".
Definition is_extend (s : site) : bool := String.eqb (site_class s) "extend".

Fixpoint site_lookup (name : string) (l : list site) : option site :=
  match l with
  | [] => None
  | s :: l' => if String.eqb (site_name s) name then Some s else site_lookup name l'
  end.
""" % (sanitize(res.get("mutex") or "none identified"), sanitize(source_line), ";\n".join(rows),
       cstr(res.get("mutex") or ""), cstr(res.get("mutex_type") or ""),
       clist([cstr(x) for x in res["packages"]]),
       sanitize("/".join(res.get("counter_fields") or [])),
       clist([cstr(x) for x in res["issue_primitives"]]),
       clist([cstr(x) for x in (res.get("extend_primitives") or [])]),
       sanitize(res["deferred_why"]),
       "true" if res["deferred"] else "false",
       clist([cstr(x) for x in (res.get("account_primitives") or [])]),
       clist([cstr(x) for x in (res.get("account_sites") or [])]),
       clist([cstr(x) for x in (res.get("open_helpers") or [])]))


class ExtractError(Exception):
    pass


PROBE_REPS = 3


def _tree_digest(repo):
    return _repo_digest(repo, [os.path.join(vlib.HARNESS, "cmd", "c09"), os.path.join(vlib.HARNESS, "internal", "proxydb")]) + str(PROBE_REPS)


def _build_probe(repo):
    """build harness/cmd/c09 against `repo` -> executable path"""
    with vlib.Lock("go"):
        os.makedirs(os.path.join(vlib.WORK, "bin"), exist_ok=True)
        modflag = []
        if repo == "/repo":
            shutil.copyfile(os.path.join(repo, "go.sum"), os.path.join(vlib.HARNESS, "go.sum"))
        else:
            alt = os.path.join(vlib.WORK, "extract_c09_%s.mod" % hashlib.sha1(repo.encode()).hexdigest()[:8])
            txt = open(os.path.join(vlib.HARNESS, "go.mod")).read().replace("=> /repo", "=> " + repo)
            open(alt, "w").write(txt)
            shutil.copyfile(os.path.join(repo, "go.sum"), alt[:-4] + ".sum")
            modflag = ["-modfile=" + alt]
        exe = os.path.join(vlib.WORK, "bin", "c09-probe")
        p = subprocess.run(["go", "build"] + modflag + ["-tags", "verif", "-o", exe, "./cmd/c09"], cwd=vlib.HARNESS,
                           env=vlib.GOENV, stdout=subprocess.PIPE, stderr=subprocess.PIPE, text=True, timeout=900)
        if p.returncode != 0:
            raise ExtractError("probe: harness/cmd/c09 does not build against %s: %s" % (repo, (p.stdout + p.stderr)[-1200:]))
    return exe


def calibrate(exe):
    p = subprocess.run([exe, "-calibrate"], cwd=vlib.WORK, env=vlib.GOENV, stdout=subprocess.PIPE,
                       stderr=subprocess.PIPE, text=True, timeout=300)
    if p.returncode != 0:
        raise ExtractError("probe: calibration run failed: %s" % p.stderr[-800:])
    return json.loads(p.stdout.splitlines()[0])["calibration"]


def _run_probe(exe, scenarios):
    inp = os.path.join(vlib.WORK, "c09_probe_in.jsonl")
    with open(inp, "w") as f:
        for sc in scenarios:
            f.write(json.dumps({"in": sc}) + "\n")
    p = subprocess.run([exe, "-replay", inp], cwd=vlib.WORK, env=vlib.GOENV, stdout=subprocess.PIPE,
                       stderr=subprocess.PIPE, text=True, timeout=600)
    cases = [json.loads(l) for l in p.stdout.splitlines() if l.strip()]
    if p.returncode != 0 and len(cases) < len(scenarios):
        # the wallet wedged (or the harness failed): the scenarios run so far still count,
        # the one that wedged is reported as such
        if not cases or "stuck" not in cases[-1].get("tags", []):
            raise ExtractError("probe: harness/cmd/c09 failed: %s" % p.stderr[-800:])
    return cases


def _instance(a, b, rep):
    used = "CurrentAddress" in (a, b)
    pre = [dict(api=["NewAddress", "NewChangeAddress"][k % 2], scope="84", gate=False) for k in range(rep)]
    return dict(kind="window", pre=pre, mark_used=used, warm=(rep % 2 == 0),
                calls=[dict(api=a, scope="84", gate=True, ahead=2, n=2), dict(api=b, scope="84", gate=False, ahead=1, n=2)],
                script=[dict(op="start", call=0), dict(op="start", call=1),
                        dict(op="release", call=0), dict(op="release", call=1)])


def _verdict(case):
    """-> ("blocked" | "inside", detail); raises if the scenario did not do what it is meant to"""
    o, ev = case["obs"], [(e["ev"], e["call"]) for e in case["obs"]["events"]]
    a, b = o["calls"][0], o["calls"][1]
    name = "%s parked, then %s" % (a["api"], b["api"])
    if "stuck" in case.get("tags", []):
        raise ExtractError("probe: %s: the wallet wedged (%s)" % (name, "; ".join(o["notes"])[:300]))
    if o["notes"] or a["err"] or b["err"]:
        raise ExtractError("probe: %s: %s" % (name, "; ".join(o["notes"] + [a["err"], b["err"]])[:300]))
    pos = {e: k for k, e in reversed(list(enumerate(ev)))}
    need = [("commit", 0), ("start", 1), ("release", 0)]
    derived = a["n"] != 0 or a["api"].startswith("Recover")
    if any(e not in pos for e in need) or not (pos[need[0]] < pos[need[1]] < pos[need[2]]) or not derived:
        raise ExtractError("probe: %s: the first request did not derive and park between its commit and its handlers: %s"
                           % (name, ev))
    inside = [e for e in (("begin", 1), ("commit", 1), ("rollback", 1), ("return", 1)) if e in pos and pos[e] < pos[("release", 0)]]
    if inside:
        return "inside", "%s: %s of the second request happened before the first request's commit handlers were released%s" % (
            name, "/".join(e[0] for e in inside), ("; oracle " + ",".join(case["oracle"])) if case["oracle"] else "")
    if case["oracle"]:
        raise ExtractError("probe: %s: second request waited, yet the oracle reports %s" % (name, case["oracle"]))
    return "blocked", name


def probe_sites(repo, names, unknown, trusted):
    """Flags of the sites in `unknown`, determined by running the code.

    The scenario is the witness of C09_unsafe_without_mutex / C09_unsafe_one_site_without_mutex,
    placed with the commit-handler gate of the walletdb proxy: request A is parked after its real
    commit (bbolt's writer lock is free again) and before its OnCommit handlers (the in-memory next
    index is still stale); then a request B on the same counter is started and the harness waits
    until no goroutine can move.

    Why this determines `held` for A's site S: `held` means that S's critical section - the mutex
    taken before Begin, released after the handlers - excludes every other issuing request.  While A
    is parked the only thing that can keep B from BEGINNING its transaction is that mutex (the writer
    lock is free).  So if B - a request known to take the mutex before its Begin (its site is S itself
    or has `held = true` from the source) - begins or completes inside the window, S does not hold the
    mutex there (never took it, took it inside the transaction, released it before the handlers, took
    it only for reading, or uses a different mutex for these arguments): `held = false`, and B has
    read the stale index (the duplicate shows in the same run).  If in every instance B neither begins
    nor returns until A's handlers were released, and the indices obtained are distinct and gap-free
    with memory = disk, S's lock covers the window: `held = true`.  With B of site S itself the
    scenario also shows that S takes the mutex BEFORE Begin (B would otherwise begin).  One instance
    is too narrow (a lock per argument would pass S against itself), so S is run against itself and,
    in both orders, against every drivable variant of every trusted site drawing from the same
    counter, including the spends whose inputs belong to the imported account (they land on
    account 0), each PROBE_REPS times with different start indices and cached/uncached account.
    Pairs that the wallet's transaction-creator goroutine serialises by itself (two
    CreateSimpleTx-style requests) say nothing about the mutex and are left out.  A site whose
    transaction never commits (the dry-run import) cannot be parked; it is probed in B's role only
    (it must not begin inside a trusted request's window), which is all that matters for it.

    Which request kind goes through which site is not written down here: the harness reports, for
    every request kind it can make, the repository functions on the stack when its write transaction
    begins (-calibrate); the first one that is a site of the table is the site.

    Limits (why this is the fallback, not the primary path): it is evidence from executions on
    scope 84 / account 0 / the imported account, not a syntactic guarantee for all arguments; sites
    the harness cannot drive (new functions) cannot be probed."""
    cache_p = os.path.join(vlib.WORK, "c09_probe_cache.json")
    key = _tree_digest(repo) + ",".join(sorted(names))
    table = None
    try:
        c = json.load(open(cache_p))
        if c.get("key") == key:
            table = c["table"]
    except (OSError, ValueError):
        pass
    if table is None:
        exe = _build_probe(repo)
        cal = calibrate(exe)
        site_of = {}
        for api, ent in cal.items():
            if ent.get("err"):
                continue
            for f in ent["stack"]:
                if f in names:
                    site_of[api] = f
                    break
        for s in unknown:
            if s not in site_of.values():
                raise ExtractError("probe: site %s cannot be driven by harness/cmd/c09 (requests it can make go through: %s)" % (
                    s, ", ".join(sorted(set(site_of.values())))))
        pairs = []
        for a, ea in cal.items():
            for b, eb in cal.items():
                if a not in site_of or b not in site_of or a.endswith("Dry") or b.endswith("Dry"):
                    continue
                if not ea["commits"]:
                    continue                       # cannot be parked
                if eb["branch"] and ea["branch"] != eb["branch"]:
                    continue
                if ea["via_creator"] and eb["via_creator"]:
                    continue
                pairs.append((site_of[a], a, site_of[b], b))
        scen = [_instance(a, b, r) for (_, a, _, b) in pairs for r in range(PROBE_REPS)]
        cases = _run_probe(exe, scen)
        table = []
        for k, (sa, a, sb, b) in enumerate(pairs):
            for r in range(PROBE_REPS):
                i = k * PROBE_REPS + r
                if i >= len(cases):
                    table.append([sa, a, sb, b, "error", "not run: the harness stopped earlier"])
                    continue
                try:
                    v, d = _verdict(cases[i])
                except ExtractError as e:
                    v, d = "error", str(e)
                table.append([sa, a, sb, b, v, d])
        with open(cache_p, "w") as f:
            json.dump(dict(key=key, table=table), f)
    flags, trusted = {}, set(trusted)
    # sites served by the transaction-creator goroutine need a trusted partner: decide them last
    solo = lambda S: any(r[0] == S and r[2] == S for r in table)      # noqa: E731
    order = [s for s in unknown if solo(s)] + [s for s in unknown if not solo(s)]
    for S in order:
        rows = [r for r in table if (r[0] == S and (r[2] == S or r[2] in trusted)) or (r[2] == S and r[0] in trusted)]
        if not rows:
            raise ExtractError("probe: no partner request with a known flag to run %s against" % S)
        bad = [r for r in rows if r[4] == "inside"]
        err = [r for r in rows if r[4] == "error"]
        if bad:
            flags[S] = (False, "probe: " + bad[0][5] + " (%d of %d instances)" % (len(bad), len(rows)))
        elif err:
            raise ExtractError("probe of %s inconclusive: %s" % (S, err[0][5]))
        else:
            flags[S] = (True, "probe: in %d instances (against %s) the second request neither began nor returned until the "
                              "parked request's commit handlers were released; indices distinct and gap-free" % (
                                  len(rows), ", ".join(sorted({r[2] if r[0] == S else r[0] for r in rows}))))
            trusted.add(S)
    return flags


def sanitize(t):
    return t.replace("*)", "* )").replace("(*", "( *").replace('"', "'")


def main(repo, outdir, write_if_changed):
    res = extract(repo)
    res = json.loads(json.dumps(res))          # private copy: the cached object is not modified
    strip = lambda t: sanitize(t.replace(repo.rstrip("/") + "/", ""))     # noqa: E731  the scratch path is not a fact
    names = [s["name"] for s in res["sites"]]
    unknown = [s["name"] for s in res["sites"] if s["held"] is None]
    for s in res["sites"]:
        s["why"] = strip(s["why"])
        s["from"] = "source"
    source_line = "source (locking shape of every site recognised)"
    if unknown or os.environ.get("VERIF_C09_FORCE_PROBE"):
        forced = [x for x in os.environ.get("VERIF_C09_FORCE_PROBE", "").split(",") if x]     # development aid
        for s in res["sites"]:
            if (s["name"] in forced or s["name"].split(".")[-1] in forced) and s["name"] not in unknown:
                unknown.append(s["name"])
                s["why"] = "forced by VERIF_C09_FORCE_PROBE (source said %s: %s)" % (s["held"], s["why"])
                s["held"] = None
        why = {s["name"]: s["why"] for s in res["sites"]}
        trusted = [s["name"] for s in res["sites"] if s["held"] is True]
        try:
            flags = probe_sites(repo, names, unknown, trusted)
        except (ExtractError, OSError, ValueError, KeyError, IndexError, subprocess.SubprocessError) as e2:
            raise ExtractError("locking shape of site(s) %s not recognised (%s) AND probing the built code failed (%s)" % (
                ", ".join(unknown), "; ".join(why[u] for u in unknown)[:600], strip(str(e2))[:800]))
        for s in res["sites"]:
            if s["name"] in flags:
                s["held"], pw = flags[s["name"]]
                s["why"] = strip(pw) + " [source shape not recognised: " + s["why"][:200] + "]"
                s["from"] = "probe"
        source_line = "probe (for %s; the other sites from source)" % ", ".join(unknown)
    write_if_changed(os.path.join(outdir, "AddrSites.v"), render(res, source_line))
