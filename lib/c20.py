"""C20 - a rejected broadcast leaves no trace; unconfirmed sends are re-offered.

Leg A: Properties/C20.v (model Tx/Publish.v instantiated with the facts that
lib/extract_c20.py regenerates from wallet/wallet.go into
Generated/PublishFacts.v).
Leg B: harness/cmd/c20 drives the real wallet against internal/simchain; the
observations are compared in Coq (Tx/PublishCorr.v) with the model and with
the specification; the harness states the property directly (oracle kinds)."""
import concurrent.futures as cf

from vlib import *
from txcommon import n, z, op, r_tx

CODES = {
    13: "model:balance", 14: "model:utxos", 16: "model:unmined_set", 30: "model:result",
    113: "balance_differs_from_ledger", 114: "spendable_set_differs_from_ledger",
    116: "unconfirmed_set_differs_from_ledger", 130: "result_differs_from_specification",
    131: "resend_order_not_parents_first_permutation",
    40: "model:mapping_class", 140: "rejection_mapped_to_accepting_class", 141: "mempool_answer_mapped_to_other_class",
    900: "generator:sync_below_confirmed_height", 901: "generator:inconsistent_event", 902: "model:out_of_fuel",
    905: "generator:universe_not_wf",
}

ANS = {"accept": "AAccept", "in_mempool": "AInMempool", "known": "AKnown", "confirmed": "AConfirmed", "reject": "AReject"}
BACKEND = {"bitcoind": "BBitcoind", "btcd": "BBtcd", "btcdold": "BBtcdOld", "neutrino": "BNeutrino"}


def cstr(x):
    if not all(32 <= ord(c) < 127 for c in x):
        raise ValueError("non-ASCII text %r" % x)
    return '"' + x.replace('"', '""') + '"'


def r_answer(a):
    """the answer as the model sees it: a class name, or s:<sentinel>"""
    if a.startswith("s:"):
        return "(ASentinel %s)" % cstr(a[2:])
    return ANS[a]


def r_truth(t, a):
    """what the backend meant; when the script does not say, the mapped answer itself"""
    return ANS[t] if t else r_answer(a)


# this property's Coq files with their dependencies inside the development
OWN = [
    ("Generated/PublishFacts.v", []),
    ("Tx/Publish.v", ["Tx/Hist.v", "Tx/Kahn.v"]),
    ("Tx/PublishProofs.v", ["Tx/Publish.v", "Tx/InvRemove.v", "Tx/InvSeen.v", "Tx/InvObs.v", "Tx/Refine.v", "Tx/KahnProofs.v"]),
    ("Tx/PublishResend.v", ["Tx/PublishProofs.v"]),
    ("Tx/PublishCode.v", ["Generated/PublishFacts.v", "Tx/Publish.v"]),
    ("Tx/PublishCorr.v", ["Tx/PublishCode.v", "Tx/StoreCorr.v"]),
    # last: does not compile while a regenerated fact is off (coqchk of the thorough tier needs the .vo)
    ("Properties/C20.v", ["Tx/PublishCode.v", "Tx/PublishResend.v", "Tx/RefineAll.v"]),
]


def r_wevent(e):
    k = e["k"]
    if k == "confirm":
        return "WStore (Confirm %s %s %s 0%%Z)" % (n(e["t"]), z(e["h"]), n(e["b"]))
    if k == "seen":
        return "WStore (Seen %s)" % n(e["t"])
    if k == "lease":
        return "WStore (Lease %s %s %s)" % (n(e["lid"]), op(e["op"]), z(e["dur"]))
    if k == "publish":
        return "WPublish %s %s %s %s" % (n(e["t"]), r_answer(e["ans"]), r_truth(e.get("truth", ""), e["ans"]),
                                         cbool(e.get("nok", False)))
    if k == "resend":
        answers = e.get("answers") or []
        truths = e.get("truths") or [""] * len(answers)
        return "WResend %s %s %s" % (clist([n(t) for t in e.get("offered") or []]),
                                    clist([r_answer(a) for a in answers]),
                                    clist([r_truth(t, a) for t, a in zip(truths, answers)]))
    if k == "nop":
        return "WNop"
    raise ValueError(k)


def r_wobs(e):
    o = e["obs"]
    utx = clist(["{| u_op := %s; u_amt := %s; u_height := %s; u_hash := %s; u_coinbase := %s |}" % (
        op(u["op"]), z(u["amt"]), z(u["h"]), n(u["b"]), cbool(u["cb"])) for u in o["utxos"] or []])
    return "{| wo_res := %s; wo_sync := %s; wo_bal := %s; wo_utxos := %s; wo_unmined := %s |}" % (
        n(e["res"]), z(o["sync"]), clist([z(b) for b in o["bal"]]), utx, clist([n(t) for t in o["unmined"] or []]))


def r_mcase(c):
    rows = []
    for r in c["obs"].get("mapping") or []:
        rows.append("\n   {| mr_backend := %s; mr_text := %s; mr_mapped := %s; mr_truth := %s |}" % (
            BACKEND[r["backend"]], cstr(r["text"]), cstr(r["mapped"]), copt(ANS[r["truth"]] if r.get("truth") else None)))
    return clist(rows)


def r_wcase(c):
    o = c["obs"]
    evs = clist(["\n   (%s, %s)" % (r_wevent(e), r_wobs(e)) for e in o["events"]])
    return "{| wc_universe := %s;\n  wc_minconfs := %s;\n  wc_events := %s |}" % (
        clist(["\n   " + r_tx(t) for t in (o["universe"] or [])]), clist([z(x) for x in o["minconfs"]]), evs)


class C20(Check):
    ID = "C20"
    RULE = ("answers: EVERY exported error sentinel of package chain (list regenerated from chain/*.go: RPCErr constants + "
            "errors.New variables) answers a PublishTransaction and a SendOutputs of a chained transaction, once as the value itself "
            "and once wrapped with %w, and one position of a re-broadcast; an error that is no sentinel; every ground-truth raw reply "
            "(JSON-RPC code + text as bitcoind / btcd >= 0.24.2 / older btcd / neutrino give them, transport failures) goes through the "
            "REAL chain.BitcoindClient / chain.RPCClient / chain.NeutrinoClient SendRawTransaction + MapRPCErr (rpcclient over a "
            "loopback stub node) into a broadcast and a re-broadcast; per backend flavour the mapping of every key of the four "
            "regenerated tables; PublishTransaction of a CONFIRMED wallet tx whose change an unconfirmed tx spends, refused in six forms. "
            "systematic: every answer class (accepted, already-in-mempool, already-known, already-confirmed, rejected, "
            "NotifyReceived failure) at each of 5 broadcast positions of a script with a chained unconfirmed send, leased "
            "inputs, a re-published known transaction (PublishTransaction and SendOutputs); every non-accept answer at every "
            "position of the re-broadcast of a 3-chain + independent tx, directly (VerifResendUnminedTxs), after Reopen, and "
            "after Reopen + SynchronizeRPC/ClientConnected (the wallet re-broadcasts by itself after RescanFinished); "
            "SendOutputs with a failing subscription while creating / in the hand-over. random: 6-14 (every 10th: 20-40) "
            "ops over fund/recv/mine/confirm/publish/send/republish(unconfirmed, confirmed, forgotten)/lease/resend/restart with "
            "random classes in random forms (class sentinel, any rejection sentinel, wrapped, raw reply of a random backend flavour) "
            "and per-tx resend answers, real wallet over bbolt + simchain. Before/after each attempt: "
            "CalculateBalance(0,1,6), TxStore.UnspentOutputs, UnminedTxHashes; order of SendRawTransaction calls. "
            "non-trivial = at least one broadcast attempt or re-broadcast; distinct by script")
    N_QUICK = 80
    N_THOROUGH = 2000
    SHARD = 12
    ASSUMPTIONS = [
        "the store refinement Inv (Tx/Inv.v) holds in the state of the attempt; over histories this is refinement_statement "
        "(composition of the per-event lemmas), taken as an explicit premise of C20_over_histories",
        "the transaction of an initial broadcast is fresh (unknown, no unconfirmed spender of its outputs) and relayable "
        "(event_ok (Seen t)); re-broadcasts of known transactions are covered by C20_failed_rebroadcast_forgets_descendants",
        "DependencySort's order: theorem C14 (Tx/KahnProofs.v dependency_sort_correct) for every pair of map iteration orders",
        "the shape of the Go code (which branch removes / returns an error, record-subscribe-broadcast order, resend loop) is "
        "regenerated from wallet/wallet.go by harness/cmd/extract-c20 (go/ast) on every run and decided by eq_refl",
        "the answers of a backend are: no error, an error that Is one exported sentinel of package chain (list and, per sentinel, "
        "the branch of publishTransaction regenerated from the source; C20_every_sentinel_listed / C20_every_answer_by_class by "
        "vm_compute over that finite table), or an error that Is none; errors.Is is taken to see through %w (exercised: every "
        "sentinel is sent plain and wrapped)",
        "which node texts mean 'I have it already' (Publish.v accepting_texts, 9 texts) and which class each sentinel belongs to "
        "(sentinel_classes) are hand-written from the nodes' wording / the doc comments of chain/errors.go",
    ]
    PARTIAL_CLAUSES = [
        "timing of the asynchronous re-broadcast after RescanFinished (go w.resendUnminedTxs()) is exercised, not modelled",
        "failures of the enclosing walletdb.Update (C10/C11) and of requireChainClient are outside this model",
        "error mapping: proved is 'a reply containing none of the nine I-have-it texts is never mapped to an I-have-it sentinel' "
        "(every backend, every Go map order); the converse (an in-mempool reply IS mapped to ErrTxAlreadyInMempool) is only "
        "exercised (ground-truth replies through the real MapRPCErr, oracle kinds mempool_answer_mapped_to_other_class / "
        "mempool_tx_not_recorded)",
        "the label written by PublishTransaction before the broadcast survives a rejection: observed and counted "
        "(observation:label_left_after_forgotten_tx), not a violation - the property text spells 'forgotten' out as coins, change, "
        "balance and spendable set, and a label of an unrecorded transaction is reachable through none of them",
    ]
    EXTRA_TRUSTED = ["harness/cmd/extract-c20 (go/ast reading of reliablyPublishTransaction, publishTransaction, "
                     "resendUnminedTxs, RemoveUnminedTx, UnminedTxs)",
                     "harness/cmd/extract-c20 chain.go (go/ast reading of the sentinels and MapRPCErr tables of package chain)",
                     "internal/simchain (scripted chain.Interface) and the projection of wallet transactions to model ids",
                     "harness/cmd/c20 wire.go (loopback JSON-RPC stub node; btcd's rpcclient) and answers.go (ground truth of node replies)"]

    def run(self, tier, seed, replay=None):
        # Until the integrator lists this property's files in _CoqProject the
        # full build does not know them: compile them right after it.
        import vlib
        orig = vlib.ensure_coq

        def build_then_own():
            r = orig()
            self.ensure_own_files()
            return r
        vlib.ensure_coq = build_then_own
        try:
            return super().run(tier, seed, replay)
        finally:
            vlib.ensure_coq = orig

    def ensure_own_files(self):
        """Until the integrator lists this property's files in _CoqProject the
        full build does not know them: compile the stale ones by hand (in
        dependency order, under the build lock).  A file that does not compile
        is left to the normal reporting (Properties/C20.v then fails)."""
        listed = open(os.path.join(COQ, "_CoqProject")).read()
        if all(f in listed for f, _ in OWN):
            return
        with Lock("coq"):
            def mtime(p):
                return os.path.getmtime(p) if os.path.exists(p) else None
            for f, deps in OWN:
                src = os.path.join(COQ, f)
                vo = mtime(src + "o")
                stale = vo is None or vo < os.path.getmtime(src)
                for d in deps:
                    dvo = mtime(os.path.join(COQ, d) + "o")
                    if dvo is None or (vo is not None and vo < dvo):
                        stale = True
                if stale:
                    rc, out, err = sh(["timeout", "900", "coqc", "-R", ".", "Verif", f], cwd=COQ, timeout=1000)
                    if rc != 0:
                        if not f.startswith("Properties/"):
                            log("C20: %s does not compile: %s" % (f, (out + err)[-800:]))
                        return

    def gen_args(self, tier, seed):
        nn = self.N_QUICK if tier == "quick" else self.N_THOROUGH
        args = []
        # minimised earlier failures run first
        cdir = os.path.join(VERIF, "corpus", self.ID)
        if os.path.isdir(cdir):
            for f in sorted(os.listdir(cdir)):
                if f.endswith(".jsonl"):
                    args.append([self.vh_cmd(), "-replay", os.path.join(cdir, f)])
        args.append([self.vh_cmd(), "-n", str(nn), "-seed", str(seed), "-tier", tier])
        return args

    def nontrivial(self, c):
        return bool(c["obs"].get("mapping")) or any(e["k"] in ("publish", "resend") for e in c["obs"]["events"])

    def case_input(self, case):
        return case["in"]

    def sample(self, c):
        if c["obs"].get("mapping"):
            return dict(script=c["in"], tags=c.get("tags"), rows=len(c["obs"]["mapping"]), first_rows=c["obs"]["mapping"][:4])
        evs = c["obs"]["events"]
        return dict(script=c["in"], tags=c.get("tags"),
                    events=[dict((k, v) for k, v in e.items() if k in ("k", "t", "ans", "truth", "sent", "nok", "offered", "answers", "truths", "res", "src"))
                            for e in evs if e["k"] in ("publish", "resend")][:8],
                    final_observation=evs[-1]["obs"] if evs else None)

    def render_cases(self, cases):
        return """From stdpp Require Import gmap list numbers strings.
From Coq Require Import ZArith NArith Strings.String.
From Verif Require Import Tx.Store Tx.Ledger Tx.Hist Tx.Publish Tx.PublishCorr.
Local Open Scope string_scope.
Definition cases : list wcase :=
%s.
Definition mcases : list (list mrow) :=
%s.
Definition bad := Eval vm_compute in (wfailures cases ++ mfailures mcases)%%list.
Print bad.
""" % (clist(["\n " + r_wcase(c) for c in cases]), clist(["\n " + r_mcase(c) for c in cases]))

    def evaluate_model(self, cases):
        mism, logs, problems = [], "", []
        shards = [(s, cases[s:s + self.SHARD]) for s in range(0, len(cases), self.SHARD)]

        def run(shd):
            start, chunk = shd
            return start, coq_eval(self.ID, self.render_cases(chunk), "cases_%d" % start)
        with cf.ThreadPoolExecutor(max_workers=14) as ex:
            results = list(ex.map(run, shards))
        self.fail_detail = {}
        for start, (rc, out, err) in results:
            if rc != 0:
                problems.append("correspondence: cases file does not evaluate: " + (err or out)[-1500:])
                continue
            printed = parse_printed(out, "bad")
            if printed is None:
                problems.append("correspondence: could not parse model output: " + out[-500:])
                continue
            nums = [int(x) for x in re.findall(r"\d+", printed)]
            for j in range(0, len(nums) - 2, 3):
                ci, ev, code = start + nums[j], nums[j + 1], nums[j + 2]
                self.fail_detail.setdefault(ci, []).append((ev, code))
        for ci, fl in sorted(self.fail_detail.items()):
            c = cases[ci]
            spec = sorted({CODES.get(code, str(code)) for ev, code in fl if 100 <= code < 900})
            other = [(ev, code) for ev, code in fl if not (100 <= code < 900)]
            if spec and other and self.known_truth_event(c, min(ev for ev, _ in fl)):
                # The first disagreement is at an attempt the backend answered "already known / confirmed".
                # There the text demands nothing beyond "an error returned means forgotten" (which the harness
                # states directly); the specification merely follows what the model says the code does, so a
                # disagreement here is a model/implementation mismatch, not a violation of the text.
                spec = []
            # a disagreement with the specification is a property violation
            # seen through the Coq oracle; it is reported next to the kinds the
            # harness found (the harness's kinds name the clause and the site)
            c["coq_oracle"] = spec
            rows = c["obs"].get("mapping") or []
            c["first_failures"] = [dict(event=ev, what=CODES.get(code, str(code)),
                                        src=(c["obs"]["events"][ev]["src"] if ev < len(c["obs"]["events"]) else
                                             (rows[ev] if ev < len(rows) else "?")))
                                   for ev, code in fl[:8]]
            if spec and not c["oracle"]:
                c["oracle"] = list(spec)
                if c.get("site", "*") == "*":
                    ev = [e for e, code in fl if 100 <= code < 900][0]
                    c["site"] = c["obs"]["events"][ev]["src"] if ev < len(c["obs"]["events"]) else (
                        "chain/errors.go:" + c["in"].get("map", "") if rows else "*")
            if other:
                mism.append(ci)
                g = [code for ev, code in other if code >= 900 and code != 902]
                if g:
                    problems.append("generator produced an inadmissible case (index %d): %s" % (
                        ci, [CODES.get(x) for x in g]))
        problems.extend(self.answers_complete(cases))
        return mism, logs, problems

    @staticmethod
    def known_truth_event(c, ev):
        evs = c["obs"]["events"]
        if ev >= len(evs):
            return False
        e = evs[ev]
        if e["k"] == "publish":
            return e.get("truth") in ("known", "confirmed") and e.get("nok", False)
        if e["k"] == "resend":
            return any(t in ("known", "confirmed") for t in e.get("truths") or [])
        return False

    def sentinel_names(self):
        try:
            return [x["name"] for x in json.load(open(os.path.join(WORK, "c20_sentinels.json")))["sentinels"]]
        except (OSError, ValueError, KeyError):
            return None

    def answers_complete(self, cases):
        """A generated run (not a replay) must have sent EVERY sentinel of the
        regenerated list, plain and wrapped, and the mapping of every backend
        flavour; otherwise an answer class was not exercised."""
        if not any("systematic" in (c.get("tags") or []) for c in cases):
            return []
        names = self.sentinel_names()
        if names is None:
            return ["the sentinel list regenerated from package chain is missing (work/c20_sentinels.json)"]
        tags = set(t for c in cases for t in (c.get("tags") or []))
        missing = [f + ":" + x for x in names for f in ("sentinel", "wrapped") if "sent:%s:%s" % (f, x) not in tags]
        missing += ["mapping:" + b for b in BACKEND if "mapping:" + b not in tags]
        if missing:
            return ["answer classes not exercised by the harness: %s" % ", ".join(missing[:12])]
        return []

    def extra_coverage(self, cases):
        kinds = {}
        for c in cases:
            for k in c.get("oracle", []):
                key = "%s@%s" % (k, c.get("site", "*"))
                kinds[key] = kinds.get(key, 0) + 1
        attempts = sum(1 for c in cases for e in c["obs"]["events"] if e["k"] == "publish")
        resends = sum(1 for c in cases for e in c["obs"]["events"] if e["k"] == "resend")
        offered = sum(len(e.get("offered") or []) for c in cases for e in c["obs"]["events"] if e["k"] == "resend")
        src, detail = "unknown", ""
        try:
            txt = open(os.path.join(COQ, "Generated", "PublishFacts.v")).read()
            m = re.search(r"\(\* facts source: (\w+)(.*?)\*\)", txt, re.S)
            if m:
                src, detail = m.group(1), re.sub(r"\s+", " ", m.group(2)).strip()
        except OSError:
            pass
        tags = set(t for c in cases for t in (c.get("tags") or []))
        names = self.sentinel_names() or []
        maprows = sum(len(c["obs"].get("mapping") or []) for c in cases)
        raw = sum(1 for c in cases for e in c["obs"]["events"] if e["k"] == "publish" and (e.get("sent") or "").startswith("r:"))
        raw += sum(1 for c in cases for e in c["obs"]["events"] if e["k"] == "resend" for a in (e.get("sents") or [])
                   if a.startswith("r:"))
        return dict(broadcast_attempts=attempts, rebroadcasts=resends, rebroadcast_offers=offered,
                    oracle_kinds_at_sites=kinds, facts_source=src, facts_source_detail=detail,
                    sentinels_regenerated=len(names),
                    sentinels_sent_plain=sum(1 for x in names if "sent:sentinel:" + x in tags),
                    sentinels_sent_wrapped=sum(1 for x in names if "sent:wrapped:" + x in tags),
                    raw_replies_through_real_mapping=raw, mapping_rows=maprows,
                    real_chain_clients="loopback" if "wire:loopback" in tags else ("direct" if "wire:direct" in tags else "none"),
                    observations=sorted(t for t in tags if t.startswith("observation:")))

    def shrink(self, case, kind):
        """Delta debugging over the script: drop ops while the harness still
        reports the same kind (each candidate re-runs the real wallet)."""
        if "ops" not in case["in"]:
            return case              # a mapping case: the failing rows are named in its detail
        ops = list(case["in"]["ops"])
        seed = case["in"]["seed"]
        budget = [40]

        def still_fails(cand):
            if budget[0] <= 0:
                return None
            budget[0] -= 1
            p = os.path.join(WORK, self.ID, "shrink_in.jsonl")
            os.makedirs(os.path.dirname(p), exist_ok=True)
            with open(p, "w") as f:
                f.write(json.dumps({"in": {"seed": seed, "ops": cand}}) + "\n")
            rc, cs, err = run_vh([self.vh_cmd(), "-replay", p], timeout=120)
            if rc != 0 or not cs:
                return None
            return cs[0] if kind in cs[0].get("oracle", []) else None
        best = case
        i = 0
        while i < len(ops) and budget[0] > 0:
            cand = ops[:i] + ops[i + 1:]
            r = still_fails(cand)
            if r is not None:
                ops, best = cand, r
            else:
                i += 1
        return best


CHECK = C20
