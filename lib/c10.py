from vlib import *
import collections, copy


def _z(n):
    return "(%d)" % n if n < 0 else "%d" % n


def _nat(n):
    return "%d%%nat" % n


def _pair(a, b):
    return "(%s, %s)" % (a, b)


class C10(Check):
    ID = "C10"
    LEVEL = "proof"
    RULE = ("state = a generated history replayed on a fresh bbolt file (transaction store: node-simulator histories with "
            "reorgs, conflicts, coinbases, abandons, leases; address manager: histories of NewAccount/Rename/Next/Extend/"
            "MarkUsed/Import*/SetSyncedTo/SetBirthdayBlock/SetBirthday/ChangePassphrase/NewScopedKeyManager). At the state every "
            "kind of mutating operation (plus refused ones, plus for the manager every early-memory call followed by a second "
            "call in the same database transaction) is run on its own copy of the file: clean run (write count n, result, "
            "observables), then for EVERY k in 1..n with the k-th mutating walletdb call failing: error reported? bucket tree "
            "after rollback = before? every query answers as before? retry = clean run? n and the error pattern are compared "
            "with the transcribed Coq program run on the model state. non-trivial = a state with at least one operation of "
            ">= 1 write; distinct by input")
    N_QUICK = 32
    N_THOROUGH = 240
    ASSUMPTIONS = [
        "all-or-nothing of walletdb.Update itself (rollback discards the working copy) is property C11; the model's update does exactly that",
        "the fault model is one failing mutating walletdb call per database transaction; commit failures are C08/C11",
        "memory clause: proved for operations whose memory effect follows the disk part (memory-after-disk ordering); operations "
        "that update memory early are the known eager-memory findings and are exhibited, not proved",
    ]
    PARTIAL_CLAUSES = [
        "in-memory managers answer as before after rollback: theorem for memory-after-disk operations only; for the real managers "
        "this clause is checked by the fault sweep (known eager-memory findings are reported as KNOWN-FINDING)",
    ]
    EXTRA_TRUSTED = [
        "harness/cmd/extract-c10 (go/ast + go/types with stand-in imports): the table of error dispositions in Generated/ErrFlow.v",
        "harness/internal/faultdb: counting / failing wrapper around the bdb backend",
    ]

    # ------------------------------------------------------------ running
    def run(self, tier, seed, replay=None):
        self.prebuild()
        return super().run(tier, seed, replay)

    OWN = ["Generated/ErrFlow.v", "Fault/Fault.v", "Fault/FaultProofs.v", "Fault/FaultTx.v", "Fault/FaultMgr.v",
           "Fault/FaultCorr.v", "Properties/C10.v"]

    def prebuild(self):
        """Until the files are listed in _CoqProject (and whenever the table in
        Generated/ErrFlow.v was regenerated from another tree) make sure the
        .vo files of this property are newer than their sources.  The table is
        regenerated and compiled under one hold of the build lock."""
        ok, _ = ensure_coq()
        if not ok:
            return
        proj = open(os.path.join(COQ, "_CoqProject")).read()
        with Lock("coq"):
            ok, _ = regenerate()
            if not ok:
                return
            stale = False
            for f in self.OWN[:-1]:
                if f in proj:
                    continue
                v = os.path.join(COQ, f)
                vo = v + "o"
                if stale or not os.path.exists(vo) or os.path.getmtime(vo) < os.path.getmtime(v):
                    stale = True
                    sh(["timeout", "900", "coqc", "-R", ".", "Verif", f], cwd=COQ, timeout=1000)

    def evaluate_model(self, cases):
        try:
            return super().evaluate_model(cases)
        except (ValueError, KeyError) as ex:
            # e.g. the shared history generator learnt an event this check's
            # model does not transcribe yet
            return [], "", ["correspondence: cannot render the cases for the model: %r" % (ex,)]

    def gen_args(self, tier, seed):
        n = self.N_QUICK if tier == "quick" else self.N_THOROUGH
        pre = []
        corpus = os.path.join(VERIF, "corpus", "C10")
        if os.path.isdir(corpus):
            p = os.path.join(WORK, "corpus_C10.jsonl")
            os.makedirs(WORK, exist_ok=True)
            with open(p, "w") as out:
                for f in sorted(os.listdir(corpus)):
                    if f.endswith(".json"):
                        out.write(json.dumps({"in": json.load(open(os.path.join(corpus, f)))["in"]}) + "\n")
            pre.append([self.vh_cmd(), "-replay", p])
        return pre + [[self.vh_cmd(), "-n", str(n), "-seed", str(seed), "-tier", tier]]

    # ------------------------------------------------------------ oracle
    def oracle_kinds(self, case):
        out = []
        for k in case.get("oracle", []):
            kind, _, site = k.partition("@")
            out.append((kind, site or "*"))
        return out

    def explained_by_known(self, case):
        """The correspondence of this check compares write counts and the
        error-for-every-k pattern; none of the known findings (memory answers,
        retries) can change either, so a model/implementation mismatch is
        never explained by them."""
        return False

    def nontrivial(self, c):
        return any(p.get("n", 0) >= 1 for p in c["obs"]["probes"])

    def shrink(self, case, kind):
        """keep only one probed operation and one fault position showing the
        kind.  The driver asks once per new (kind, site) in the order of
        oracle_kinds and does not pass the site: it is the first pair of this
        kind that was not handed out before and is not a known finding."""
        done = self.__dict__.setdefault("_shrunk", set())
        site = None
        for kd, st in self.oracle_kinds(case):
            if kd == kind and (kd, st) not in done and not match_known(self.ID, kd, st):
                site = st
                break
        if site is None:
            return case
        done.add((kind, site))
        want = "%s@%s" % (kind, site)
        for p in case["obs"]["probes"]:
            for k in p["ks"]:
                if want in k.get("kinds", []):
                    c2 = copy.deepcopy(case)
                    key = "txops" if case["in"]["kind"] == "tx" else "mgrops"
                    c2["in"][key] = [case["in"][key][p["idx"]]]
                    c2["in"]["ks"] = [k["k"]]
                    p2 = copy.deepcopy(p)
                    p2["idx"] = 0
                    p2["ks"] = [k]
                    c2["obs"]["probes"] = [p2]
                    c2["oracle"] = list(k["kinds"])
                    return self.shrink_prefix(c2, kind, site)
        return case

    def shrink_prefix(self, c2, kind, site):
        """try the same operation and fault position from shorter histories
        (empty, then halves); keep the shortest that still shows kind@site"""
        key = "events" if c2["in"]["kind"] == "tx" else "mgrtxs"
        prefix = c2["in"].get(key) or []
        cands, n = [0], len(prefix) // 2
        while 0 < n < len(prefix) and len(cands) < 4:
            cands.append(n)
            n += (len(prefix) - n + 1) // 2
        for n in cands:
            if n >= len(prefix):
                break
            trial = copy.deepcopy(c2["in"])
            trial[key] = prefix[:n]
            p = os.path.join(WORK, "shrink_C10.jsonl")
            with open(p, "w") as f:
                f.write(json.dumps({"in": trial}) + "\n")
            try:
                rc, cs, _ = run_vh([self.vh_cmd(), "-replay", p], timeout=300)
            except Exception:
                continue
            if rc == 0 and cs and ("%s@%s" % (kind, site)) in cs[0].get("oracle", []):
                return cs[0]
        return c2

    def sample(self, c):
        return dict(kind=c["in"]["kind"],
                    prefix_length=len(c["in"].get("events") or c["in"].get("mgrtxs") or []),
                    probes=[dict(op=p["name"], n=p["n"], clean=p["clean"],
                                 errors_reported=sum(1 for k in p["ks"] if k["err"]), calls=p.get("calls"))
                            for p in c["obs"]["probes"][:6]],
                    oracle=c["oracle"])

    # ------------------------------------------------------------ model side
    @staticmethod
    def _observed(p):
        return "{| o_writes := %s; o_clean_ok := %s; o_faults := %s |}" % (
            _nat(p["n"]), cbool(p["clean"] == "ok"),
            clist([_pair(_nat(k["k"]), cbool(k["err"])) for k in p["ks"]]))

    @staticmethod
    def _tx_event(e):
        k = e["k"]
        g = lambda f: e.get(f, 0)
        op = e.get("op") or [0, 0]
        if k == "seen":
            return "EvSeen %s" % _z(g("t"))
        if k == "confirm":
            return "EvConfirm %s %s %s %s" % (_z(g("t")), _z(g("h")), _z(g("b")), _z(g("bt")))
        if k == "redeliver":
            return "EvRedeliver %s %s %s %s" % (_z(g("t")), _z(g("h")), _z(g("b")), _z(g("bt")))
        if k == "disconnect":
            return "EvDisconnect %s" % _z(g("h"))
        if k == "abandon":
            return "EvAbandon %s" % _z(g("t"))
        if k == "lease":
            return "EvLease %s %s %s %s" % (_z(g("id")), _z(op[0]), _z(op[1]), _z(g("dur")))
        if k == "release":
            return "EvRelease %s %s %s" % (_z(g("id")), _z(op[0]), _z(op[1]))
        if k == "sweep":
            return "EvSweep"
        if k == "tick":
            return "EvTick %s" % _z(g("dt"))
        raise ValueError("unknown event %r" % k)

    @staticmethod
    def _txd(t):
        ins = ([[0, 4294967295]] if t.get("coinbase") else []) + list(t.get("ins") or [])
        return "(%s, {| tx_ins := %s; tx_outs := %s; tx_creds := %s; tx_coinbase := %s |})" % (
            _z(t["id"]), clist([_pair(_z(a), _z(b)) for a, b in ins]), clist([_z(a) for a in t["outs"]]),
            clist([_pair(_z(i), cbool(c != 0)) for i, c in (t.get("creds") or [])]), cbool(t.get("coinbase", False)))

    @staticmethod
    def _mop(o):
        k = o["k"]
        g = lambda f: o.get(f, 0)
        sc = _z(g("sc"))
        if k == "newscope":
            return "MNewScope %s" % sc
        if k == "newacct":
            return "MNewAccount %s %s" % (sc, _z(g("name")))
        if k == "rename":
            return "MRename %s %s %s" % (sc, _z(g("acct")), _z(g("name")))
        if k == "next":
            return "MNext %s %s %s %s" % (sc, _z(g("acct")), _z(g("br")), _nat(g("n")))
        if k == "extend":
            return "MExtend %s %s %s %s" % (sc, _z(g("acct")), _z(g("br")), _z(g("n")))
        if k == "markused":
            imp = g("imp")
            path = [g("sc"), g("acct"), g("br"), g("idx")] if imp == 0 else [g("sc"), -1, imp - 1, g("idx")]
            return "MMarkUsed %s" % clist([_z(x) for x in path])
        if k in ("impkey", "impscript"):
            return "MImport %s %s %s %s" % (sc, "0" if k == "impkey" else "1", _z(g("idx")), _z(g("h")))
        if k == "setsynced":
            return "MSetSyncedTo %s %s" % (_z(g("h")), _z(g("hash")))
        if k == "setbdayblock":
            return "MSetBirthdayBlock %s %s %s" % (_z(g("h")), _z(g("hash")), cbool(bool(o.get("ver"))))
        if k == "setbirthday":
            return "MSetBirthday %s" % _z(g("t"))
        if k == "chpass":
            return "MChangePassphrase %s %s %s" % (cbool(bool(o.get("priv"))), _z(g("old")), _z(g("new")))
        raise ValueError("unknown manager op %r" % k)

    def render_cases(self, cases):
        rows = []
        for c in cases:
            i = c["in"]
            probes = [p for p in c["obs"]["probes"] if not p.get("skip")]
            if i["kind"] == "tx":
                ops = i.get("txops") or []
                rows.append("TxCase {| tc_universe := %s;\n  tc_prefix := %s;\n  tc_probes := %s |}" % (
                    clist([self._txd(t) for t in i["universe"]]),
                    clist([self._tx_event(e) for e in (i.get("events") or [])]),
                    clist(["\n   " + _pair(self._tx_event(ops[p["idx"]]), self._observed(p)) for p in probes])))
            else:
                ops = i.get("mgrops") or []
                rows.append("MgrCase {| mc_prefix := %s;\n  mc_probes := %s |}" % (
                    clist([clist([self._mop(o) for o in tx]) for tx in (i.get("mgrtxs") or [])]),
                    clist(["\n   " + _pair(clist([self._mop(o) for o in ops[p["idx"]]]), self._observed(p)) for p in probes])))
        return """From stdpp Require Import gmap.
From Coq Require Import ZArith List Bool.
From Verif Require Import Fault.Fault Fault.FaultTx Fault.FaultMgr Fault.FaultCorr.
Import ListNotations.
Local Open Scope Z_scope.
Definition cases : list case :=
%s.
Definition bad := Eval vm_compute in mismatches cases.
Print bad.
Definition diag := Eval vm_compute in
  map (fun i => (i, match nth_error cases i with Some c => case_counts c | None => [] end)) bad.
Print diag.
""" % clist(["\n " + r for r in rows])

    # ------------------------------------------------------------ evidence
    def extra_coverage(self, cases):
        ops = collections.Counter()
        wr = collections.Counter()
        triples = 0
        per_kind = collections.Counter()
        for c in cases:
            for p in c["obs"]["probes"]:
                if p.get("skip"):
                    continue
                ops[p["name"]] += 1
                wr[p["n"]] += 1
                triples += len(p["ks"])
                per_kind[c["in"]["kind"]] += len(p["ks"])
        cov = dict(fault_triples=triples, fault_triples_by_subsystem=dict(per_kind),
                   states=len(cases), operations_probed=sum(ops.values()),
                   op_distribution=dict(sorted(ops.items())),
                   write_count_distribution={str(k): v for k, v in sorted(wr.items())},
                   max_write_count=max(wr) if wr else 0)
        cov.update(self.static_leg())
        return cov

    def static_leg(self):
        """summary of Generated/ErrFlow.v's source table and the errcheck cross-check"""
        out = {}
        p = os.path.join(WORK, "errflow_c10.json")
        try:
            res = json.load(open(p))
        except (OSError, ValueError):
            return dict(errflow="table not available")
        sites = res["sites"]
        disp = collections.Counter(s["disp"] for s in sites)
        out["errflow_sites"] = len(sites)
        out["errflow_dispositions"] = dict(disp)
        out["errflow_dropped"] = ["%s:%d %s -> %s (%s)" % (s["file"], s["line"], s["func"], s["callee"], s["detail"])
                                  for s in sites if s["disp"] == "dropped"]
        out["errflow_unknown"] = ["%s:%d %s -> %s (%s)" % (s["file"], s["line"], s["func"], s["callee"], s["detail"])
                                  for s in sites if s["disp"] in ("unknown", "deferred")]
        out["errflow_allow_listed"] = ["%s:%d %s -> %s: %s" % (s["file"], s["line"], s["func"], s["callee"], s["allowed"])
                                       for s in sites if s.get("allowed")]
        out["errflow_sentinel_exemptions"] = ["%s:%d %s: %s" % (s["file"], s["line"], s["func"], s["detail"])
                                              for s in sites if "exempts" in (s.get("detail") or "")]
        out["errcheck"] = self.errcheck(sites)
        return out

    def errcheck(self, sites):
        """errcheck -blank on the two packages: every finding in a non-test file
        that hits a line of the table must be `dropped` there, and every
        statement/blank drop of the table must be an errcheck finding."""
        env = dict(GOENV)
        if REPO != "/repo":
            alt = os.path.join(WORK, "alt.mod")
            if os.path.exists(alt):
                env["GOFLAGS"] = "-mod=mod -modfile=" + alt
        try:
            rc, o, e = sh(["errcheck", "-blank", "-ignoretests", "-tags", "verif",
                           "github.com/btcsuite/btcwallet/wtxmgr", "github.com/btcsuite/btcwallet/waddrmgr"],
                          cwd=HARNESS, env=env, timeout=300)
        except (OSError, subprocess.TimeoutExpired) as ex:
            return dict(ran=False, why=str(ex))
        found = set()
        for line in o.splitlines():
            m = re.match(r"\S*?((?:wtxmgr|waddrmgr)/[A-Za-z0-9_]+\.go):(\d+):\d+:", line)
            if m and not m.group(1).endswith("_test.go"):
                found.add((m.group(1), int(m.group(2))))
        table = {(s["file"], s["line"]): s for s in sites}
        in_table = sorted("%s:%d" % k for k in found if k in table)
        disagree = sorted("%s:%d" % k for k in found if k in table and table[k]["disp"] != "dropped")
        missed = sorted("%s:%d" % (s["file"], s["line"]) for s in sites
                        if s["disp"] == "dropped" and ("statement" in s["detail"] or "to _" in s["detail"])
                        and (s["file"], s["line"]) not in found)
        return dict(ran=True, rc=rc, findings_in_non_test_files=len(found), findings_on_fallible_sites=in_table,
                    disagreements=disagree + missed, agrees=not (disagree or missed),
                    stderr_tail=e[-300:] if rc not in (0, 1) else "")


CHECK = C10
