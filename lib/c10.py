from vlib import *
import collections, copy


def _z(n):
    return "(%d)" % n if n < 0 else "%d" % n


def _nat(n):
    return "%d%%nat" % n


def _pair(a, b):
    return "(%s, %s)" % (a, b)


# categories of queries (harness names) -> the model's codes (Fault/FaultMgr.v)
CATS = {"synced_to": 1, "birthday": 2, "scopes": 3, "account_name": 4, "next_index": 5, "address_lookup": 6,
        "passphrase": 7, "watch_only": 8, "locked": 9, "key_material": 10}
# what waddrmgr.Create stores for the harness's birthday (harness/cmd/c10/abstract.go)
BIRTHDAY_BASE = 1600000000 - 48 * 3600


class C10(Check):
    ID = "C10"
    LEVEL = "proof"
    RULE = ("state = a generated history replayed on a fresh bbolt file (transaction store: node-simulator histories with "
            "reorgs, conflicts, coinbases, abandons, leases, labels; address manager: histories of NewAccount/"
            "NewAccountWatchingOnly/Rename/Next/Extend/MarkUsed/the five imports/SetSyncedTo/SetBirthdayBlock/SetBirthday/"
            "ChangePassphrase/NewScopedKeyManager; one state in four probed with the manager LOCKED; plus the empty file for "
            "wtxmgr.Create / waddrmgr.Create). At the state every kind of mutating operation (plus refused ones, plus for the "
            "manager every call with a memory effect followed by a second call in the same database transaction) is run on its "
            "own copy of the file: clean run (write count n, result, observables, abstract dump of the file), then for EVERY k "
            "in 1..n with the k-th mutating walletdb call failing: error reported? bucket tree after rollback = before? every "
            "query answers as before? retry = clean run? Compared with the transcribed Coq program run under the REGENERATED "
            "error-disposition table on the model state: the state's dump, the rows the clean run changes, the error pattern "
            "position by position, the categories of queries that differ after a rollback against the model's memory. "
            "non-trivial = a state with at least one operation of >= 1 write; distinct by input")
    N_QUICK = 30
    N_THOROUGH = 240
    ASSUMPTIONS = [
        "all-or-nothing of walletdb.Update itself (rollback discards the working copy) is property C11; the model's update does exactly that",
        "the fault model is one failing mutating walletdb call per database transaction; commit failures are C08/C11",
        "error propagation is not assumed: the disposition of every call site is read from Generated/ErrFlow.v (regenerated), and "
        "the theorems are discharged per operation by computation on that table",
        "memory clause: theorem for every operation of the address manager run in its own transaction except SetBirthday (shape "
        "regenerated from the source); effects applied right after the operation's own writes survive the rollback caused by a "
        "LATER call of the same transaction: modelled (run_steps), exhibited, listed as known findings",
        "ciphertexts in the file (key parameters, crypto keys, encrypted account keys) are compared by presence only",
    ]
    PARTIAL_CLAUSES = [
        "in-memory managers answer as before after rollback: holds (theorem + sweep) for a failing call in its own transaction "
        "or first in its transaction, except SetBirthday; does NOT hold when an earlier call of the same transaction had a memory "
        "effect (known findings, reported as KNOWN-FINDING with the call position and the category of queries)",
    ]
    EXTRA_TRUSTED = [
        "harness/cmd/extract-c10 (go/ast + go/types with stand-in imports): the table of error dispositions and of memory shapes in Generated/ErrFlow.v",
        "harness/internal/faultdb: counting / failing wrapper around the bdb backend",
        "harness/cmd/c10/abstract.go: decoder of the wtxmgr / waddrmgr bucket layout into the model's abstract rows",
    ]

    # ------------------------------------------------------------ running
    def run(self, tier, seed, replay=None):
        try:
            os.remove(os.path.join(WORK, "errflow_probe_c10.json"))
        except OSError:
            pass
        self.prebuild()
        self.probe_unknown_sites(tier, seed)
        return super().run(tier, seed, replay)

    BAD_AT_K = ("success_with_failed_write", "database_changed_after_rollback", "write_count_not_reproducible")

    def probe_unknown_sites(self, tier, seed):
        """Behavioural fallback for call sites whose error handling the
        extractor's reader does not recognise (disposition `unknown`; a
        recognised dropping / logging shape is never reconsidered).  The fault
        sweep of this run decides: the harness reports, for every fired fault,
        which of these sites lie on the call chain above the failing write.  A
        site counts as propagated (facts_source: probe) when faults fired
        below it at least once for every operation the transcription says
        uses it (at least once at all when the transcription does not name
        it), and EVERY such run reported the error and restored the database.
        Otherwise - never exercised, or some run answered success - the
        obligation fails as before."""
        self.probe_report = {}
        try:
            raw = json.load(open(os.path.join(WORK, "errflow_c10.json")))
        except (OSError, ValueError):
            return
        unknown = sorted({s["id"] for s in raw["sites"] if s["disp"] == "unknown" and not s.get("allowed")})
        if not unknown:
            return
        okh, _ = build_harness(self.vh_cmd())
        if not okh:
            return
        cases = []
        for a in self.gen_args(tier if tier == "quick" else "quick", seed):
            try:
                rc, cs, _ = run_vh(a)
            except Exception:
                return
            cases.extend(cs)
        fired = {u: [] for u in unknown}
        for c in cases:
            for p in c["obs"]["probes"]:
                names = [p["name"]] if c["in"]["kind"] == "tx" else p["name"].split("+")
                for k in p["ks"]:
                    if not k.get("fired"):
                        continue
                    ok = bool(k.get("err")) and not any(kd.split("@")[0] in self.BAD_AT_K for kd in (k.get("kinds") or []))
                    op = names[min(k.get("call", 0), len(names) - 1)]
                    for u in k.get("below") or []:
                        if u in fired:
                            fired[u].append((op, ok))
        uses = self.model_ops_using(unknown)
        verdict = {}
        for u in unknown:
            ops = sorted({op for op, _ in fired[u]})
            need = uses.get(u, [])
            missing = [n for n in need if not any(op == n or op.startswith(n + "(") for op in ops)]
            allok = all(ok for _, ok in fired[u])
            self.probe_report[u] = dict(fired=len(fired[u]), operations=ops, every_run_reported_the_error=allok,
                                        operations_using_it_per_model=need, never_exercised_in=missing)
            if fired[u] and allok and not missing:
                verdict[u] = dict(fired=len(fired[u]), ops=ops)
                self.probe_report[u]["facts_source"] = "probe"
        if not verdict:
            return
        with open(os.path.join(WORK, "errflow_probe_c10.json"), "w") as f:
            json.dump(dict(table_digest=raw.get("digest"), propagated=verdict), f)
        self.prebuild()

    def model_ops_using(self, sites):
        text = """From Coq Require Import List String.
From Verif Require Import Fault.Fault Fault.FaultTx Fault.FaultMgr.
Import ListNotations.
Local Open Scope string_scope.
Definition uses := Eval vm_compute in
  map (fun s => (s, (map fst (filter (fun ke => mem_site s (tx_sites (snd ke))) tx_kinds) ++
                     map fst (filter (fun ko => mem_site s (mgr_sites (snd ko))) mgr_kinds))%%list))
      %s.
Print uses.
""" % clist(['"%s"' % s.replace('"', '""') for s in sites])
        rc, out, err = coq_eval(self.ID, text, "probe_uses")
        res = {}
        if rc != 0:
            return res
        body = parse_printed(out, "uses") or ""
        for m in re.finditer(r'\("((?:[^"]|"")*)"(?:%string)?,\s*\[(.*?)\]\)', body, re.S):
            res[m.group(1)] = re.findall(r'"((?:[^"]|"")*)"', m.group(2))
        return res

    OWN = ["Generated/ErrFlow.v", "Fault/Fault.v", "Fault/FaultProofs.v", "Fault/FaultTx.v", "Fault/FaultMgr.v",
           "Fault/FaultSites.v", "Fault/FaultCorr.v", "Properties/C10.v"]

    def prebuild(self):
        """Files of this property that are not (yet) listed in _CoqProject are
        not built by `make`: compile them here, in dependency order, whenever
        they are older than their source or than an earlier file of the
        property (make may just have rebuilt that one).  A failing first `make`
        (Properties/C10.v needs these files) is expected then: the check's own
        `make` afterwards builds it."""
        ensure_coq()
        proj = open(os.path.join(COQ, "_CoqProject")).read()
        missing = [f for f in self.OWN[:-1] if f not in proj]
        if not missing:
            return
        with Lock("coq"):
            newest = 0.0
            for f in self.OWN[:-1]:
                v = os.path.join(COQ, f)
                vo = v + "o"
                if f in missing:
                    if (not os.path.exists(vo)) or os.path.getmtime(vo) < max(newest, os.path.getmtime(v)):
                        sh(["timeout", "900", "coqc", "-R", ".", "Verif", f], cwd=COQ, timeout=1000)
                if os.path.exists(vo):
                    newest = max(newest, os.path.getmtime(vo))

    def evaluate_model(self, cases):
        """model evaluation, then the model's own search: every (state,
        operation, fault position) at which the model UNDER THE REGENERATED
        TABLE answers success inside the writes is replayed on the
        implementation; a confirmed one is added to the cases (its oracle kind
        gives the VIOLATION line with that replay), an unconfirmed one is a
        model/implementation mismatch."""
        self.diag = {}
        try:
            mism, logs, problems = [], "", []
            pred = []
            for start in range(0, len(cases), self.SHARD):
                chunk = cases[start:start + self.SHARD]
                rc, out, err = coq_eval(self.ID, self.render_cases(chunk), "cases_%d" % start)
                logs += out[-3000:] + err[-2000:]
                if rc != 0:
                    problems.append("correspondence: cases file does not evaluate: " + err[-1500:])
                    continue
                bad = parse_nat_list(parse_printed(out, "bad"))
                if bad is None:
                    problems.append("correspondence: could not parse model output: " + out[-500:])
                    continue
                mism.extend(start + b for b in bad)
                for m in re.finditer(r"\((\d+)(?:%nat)?,\s*(\d+)(?:%nat)?,\s*(\d+)(?:%nat)?\)", parse_printed(out, "pred") or ""):
                    pred.append((start + int(m.group(1)), int(m.group(2)), int(m.group(3))))
                self.diag["count_diffs"] = self.diag.get("count_diffs", 0) + len(re.findall(
                    r"\(\d+(?:%nat)?,\s*\(\d+", parse_printed(out, "cdiffs") or ""))
                for name in ("kinds_bad", "shapes_bad", "absent_sites"):
                    self.diag.setdefault(name, [])
                    self.diag[name] = re.findall(r'"((?:[^"]|"")*)"', parse_printed(out, name) or "")
            if self.diag.get("kinds_bad"):
                problems.append("error-disposition table of this tree: the proof obligations of exactly these operations fail "
                                "(some call site they use does not propagate the error): " + ", ".join(self.diag["kinds_bad"]))
            if self.diag.get("shapes_bad"):
                problems.append("memory shapes of this tree: the source no longer applies the memory effect of these "
                                "operations when the model says (first assignment after the last write): "
                                + ", ".join(self.diag["shapes_bad"]))
            self.diag["model_predicted"] = len(pred)
            self.diag["model_predicted_confirmed"] = 0
            done = set()
            for ci, pi, k in pred:
                if (ci, pi) in done or len(done) >= 6:
                    continue
                done.add((ci, pi))
                conf = self.replay_predicted(cases[ci], pi, k)
                if conf is not None:
                    self.diag["model_predicted_confirmed"] += 1
                    cases.append(conf)
                else:
                    problems.append("the model run under the regenerated table reports success with failing write %d of "
                                    "probe %d of case %d; the implementation does not" % (k, pi, ci))
            return mism, logs, problems
        except (ValueError, KeyError) as ex:
            # e.g. the shared history generator learnt an event this check's
            # model does not transcribe yet
            return [], "", ["correspondence: cannot render the cases for the model: %r" % (ex,)]

    def replay_predicted(self, case, pi, k):
        probes = [p for p in case["obs"]["probes"] if not p.get("skip")]
        if pi >= len(probes):
            return None
        key = "txops" if case["in"]["kind"] == "tx" else "mgrops"
        trial = copy.deepcopy(case["in"])
        trial[key] = [case["in"][key][probes[pi]["idx"]]]
        trial["ks"] = [k]
        p = os.path.join(WORK, "predicted_C10.jsonl")
        with open(p, "w") as f:
            f.write(json.dumps({"in": trial}) + "\n")
        try:
            rc, cs, _ = run_vh([self.vh_cmd(), "-replay", p], timeout=300)
        except Exception:
            return None
        if rc == 0 and cs and any(o.startswith("success_with_failed_write@") for o in cs[0].get("oracle", [])):
            cs[0].setdefault("tags", []).append("model_predicted_failing_input")
            return cs[0]
        return None

    def gen_args(self, tier, seed):
        n = self.N_QUICK if tier == "quick" else self.N_THOROUGH
        pre = []
        corpus = os.path.join(VERIF, "corpus", "C10")
        if os.path.isdir(corpus):
            p = os.path.join(WORK, "corpus_C10.jsonl")
            os.makedirs(WORK, exist_ok=True)
            with open(p, "w") as out:
                for f in sorted(os.listdir(corpus)):
                    if f.endswith(".json"):
                        out.write(json.dumps({"in": json.load(open(os.path.join(corpus, f)))["in"]}) + "\n")
            pre.append([self.vh_cmd(), "-replay", p])
        return pre + [[self.vh_cmd(), "-n", str(n), "-seed", str(seed), "-tier", tier]]

    # ------------------------------------------------------------ oracle
    def oracle_kinds(self, case):
        out = []
        for k in case.get("oracle", []):
            kind, _, site = k.partition("@")
            out.append((kind, site or "*"))
        return out

    def explained_by_known(self, case):
        """The model follows the code where the known findings apply (its
        memory predicts exactly the categories that leak when a later call of
        the transaction fails), so a model/implementation mismatch is never
        explained by a known finding."""
        return False

    def nontrivial(self, c):
        return any(p.get("n", 0) >= 1 for p in c["obs"]["probes"])

    def shrink(self, case, kind):
        """keep only one probed operation and one fault position showing the
        kind.  The driver asks once per new (kind, site) in the order of
        oracle_kinds and does not pass the site: it is the first pair of this
        kind that was not handed out before and is not a known finding."""
        done = self.__dict__.setdefault("_shrunk", set())
        site = None
        for kd, st in self.oracle_kinds(case):
            if kd == kind and (kd, st) not in done and not match_known(self.ID, kd, st):
                site = st
                break
        if site is None:
            return case
        done.add((kind, site))
        want = "%s@%s" % (kind, site)
        for p in case["obs"]["probes"]:
            for k in p["ks"]:
                if want in k.get("kinds", []):
                    c2 = copy.deepcopy(case)
                    key = "txops" if case["in"]["kind"] == "tx" else "mgrops"
                    c2["in"][key] = [case["in"][key][p["idx"]]]
                    c2["in"]["ks"] = [k["k"]]
                    p2 = copy.deepcopy(p)
                    p2["idx"] = 0
                    p2["ks"] = [k]
                    c2["obs"]["probes"] = [p2]
                    c2["oracle"] = list(k["kinds"])
                    return self.shrink_prefix(c2, kind, site)
        return case

    def shrink_prefix(self, c2, kind, site):
        """try the same operation and fault position from shorter histories
        (empty, then halves); keep the shortest that still shows kind@site"""
        key = "events" if c2["in"]["kind"] == "tx" else "mgrtxs"
        prefix = c2["in"].get(key) or []
        cands, n = [0], len(prefix) // 2
        while 0 < n < len(prefix) and len(cands) < 4:
            cands.append(n)
            n += (len(prefix) - n + 1) // 2
        for n in cands:
            if n >= len(prefix):
                break
            trial = copy.deepcopy(c2["in"])
            trial[key] = prefix[:n]
            p = os.path.join(WORK, "shrink_C10.jsonl")
            with open(p, "w") as f:
                f.write(json.dumps({"in": trial}) + "\n")
            try:
                rc, cs, _ = run_vh([self.vh_cmd(), "-replay", p], timeout=300)
            except Exception:
                continue
            if rc == 0 and cs and ("%s@%s" % (kind, site)) in cs[0].get("oracle", []):
                return cs[0]
        return c2

    def sample(self, c):
        return dict(kind=c["in"]["kind"],
                    prefix_length=len(c["in"].get("events") or c["in"].get("mgrtxs") or []),
                    probes=[dict(op=p["name"], n=p["n"], clean=p["clean"],
                                 errors_reported=sum(1 for k in p["ks"] if k["err"]), calls=p.get("calls"))
                            for p in c["obs"]["probes"][:6]],
                    oracle=c["oracle"])

    # ------------------------------------------------------------ model side
    @staticmethod
    def _row(r):
        return "(%s, %s, %s)" % (_z(r["b"]), clist([_z(x) for x in r["k"]]), clist([_z(x) for x in r["v"]]))

    @classmethod
    def _observed(cls, p):
        d = p.get("delta") or {}
        faults = []
        for k in p["ks"]:
            cats = sorted({CATS.get(c, 99) for c in (k.get("cats") or [])})
            faults.append("{| fo_k := %s; fo_err := %s; fo_call := %s; fo_cats := %s |}" % (
                _nat(k["k"]), cbool(k["err"]), _nat(k.get("call", 0)), clist([_z(c) for c in cats])))
        return ("{| o_writes := %s; o_clean_ok := %s;\n     o_faults := %s;\n     o_put := %s; o_del := %s; "
                "o_new_buckets := %s; o_gone_buckets := %s |}" % (
                    _nat(p["n"]), cbool(p["clean"] == "ok"), clist(faults),
                    clist([cls._row(r) for r in (d.get("put") or [])]),
                    clist([_pair(_z(r["b"]), clist([_z(x) for x in r["k"]])) for r in (d.get("del") or [])]),
                    clist([_z(b) for b in (d.get("newb") or [])]), clist([_z(b) for b in (d.get("goneb") or [])])))

    @staticmethod
    def _tx_event(e):
        k = e["k"]
        g = lambda f: e.get(f, 0)
        op = e.get("op") or [0, 0]
        if k == "seen":
            return "EvSeen %s" % _z(g("t"))
        if k == "confirm":
            return "EvConfirm %s %s %s %s" % (_z(g("t")), _z(g("h")), _z(g("b")), _z(g("bt")))
        if k == "redeliver":
            return "EvRedeliver %s %s %s %s" % (_z(g("t")), _z(g("h")), _z(g("b")), _z(g("bt")))
        if k == "disconnect":
            return "EvDisconnect %s" % _z(g("h"))
        if k == "abandon":
            return "EvAbandon %s" % _z(g("t"))
        if k == "lease":
            return "EvLease %s %s %s %s" % (_z(g("id")), _z(op[0]), _z(op[1]), _z(g("dur")))
        if k == "release":
            return "EvRelease %s %s %s" % (_z(g("id")), _z(op[0]), _z(op[1]))
        if k == "sweep":
            return "EvSweep"
        if k == "tick":
            return "EvTick %s" % _z(g("dt"))
        if k == "label":
            return "EvLabel %s %s" % (_z(g("t")), _z(g("id")))
        if k == "create":
            return "EvCreate"
        raise ValueError("unknown event %r" % k)

    @staticmethod
    def _txd(t):
        ins = ([[0, 4294967295]] if t.get("coinbase") else []) + list(t.get("ins") or [])
        return "(%s, {| tx_ins := %s; tx_outs := %s; tx_creds := %s; tx_coinbase := %s |})" % (
            _z(t["id"]), clist([_pair(_z(a), _z(b)) for a, b in ins]), clist([_z(a) for a in t["outs"]]),
            clist([_pair(_z(i), cbool(c != 0)) for i, c in (t.get("creds") or [])]), cbool(t.get("coinbase", False)))

    IMP_KIND = {"impkey": 0, "impscript": 1, "imppub": 2, "impwit": 3, "imptap": 4}

    @classmethod
    def _mop(cls, o):
        k = o["k"]
        g = lambda f: o.get(f, 0)
        sc = _z(g("sc"))
        if k == "newscope":
            return "MNewScope %s" % sc
        if k == "newacct":
            return "MNewAccount %s %s" % (sc, _z(g("name")))
        if k == "newacctwo":
            return "MNewAccountWO %s %s" % (sc, _z(g("name")))
        if k == "newrawacctwo":
            return "MNewRawAccountWO %s %s" % (sc, _z(g("acct")))
        if k == "rename":
            return "MRename %s %s %s" % (sc, _z(g("acct")), _z(g("name")))
        if k == "next":
            return "MNext %s %s %s %s" % (sc, _z(g("acct")), _z(g("br")), _nat(g("n")))
        if k == "extend":
            return "MExtend %s %s %s %s" % (sc, _z(g("acct")), _z(g("br")), _z(g("n")))
        if k == "markused":
            imp = g("imp")
            path = [g("sc"), g("acct"), g("br"), g("idx")] if imp == 0 else [g("sc"), -1, imp - 1, g("idx")]
            return "MMarkUsed %s" % clist([_z(x) for x in path])
        if k in cls.IMP_KIND:
            sec = bool(o.get("sec")) if k in ("impwit", "imptap") else True
            return "MImport %s %s %s %s %s" % (sc, cls.IMP_KIND[k], _z(g("idx")), _z(g("h")), cbool(sec))
        if k == "setsynced":
            return "MSetSyncedTo %s %s" % (_z(g("h")), _z(g("hash")))
        if k == "setbdayblock":
            return "MSetBirthdayBlock %s %s %s" % (_z(g("h")), _z(g("hash")), cbool(bool(o.get("ver"))))
        if k == "setbirthday":
            return "MSetBirthday %s" % _z(g("t") - BIRTHDAY_BASE)
        if k == "chpass":
            return "MChangePassphrase %s %s %s" % (cbool(bool(o.get("priv"))), _z(g("old")), _z(g("new")))
        if k == "convertwo":
            return "MConvertWO"
        if k == "create":
            return "MCreate %s" % cbool(bool(o.get("wo")))
        raise ValueError("unknown manager op %r" % k)

    def render_cases(self, cases):
        rows = []
        for c in cases:
            i = c["in"]
            st = c["obs"].get("state") or {}
            state = clist(["\n   " + self._row(r) for r in (st.get("rows") or [])])
            buckets = clist([_z(b) for b in (st.get("buckets") or [])])
            probes = [p for p in c["obs"]["probes"] if not p.get("skip")]
            if i["kind"] == "tx":
                ops = i.get("txops") or []
                rows.append("TxCase {| tc_universe := %s;\n  tc_fresh := %s;\n  tc_prefix := %s;\n  tc_state := %s;\n"
                            "  tc_buckets := %s;\n  tc_probes := %s |}" % (
                                clist([self._txd(t) for t in (i.get("universe") or [])]), cbool(bool(i.get("fresh"))),
                                clist([self._tx_event(e) for e in (i.get("events") or [])]), state, buckets,
                                clist(["\n   " + _pair(self._tx_event(ops[p["idx"]]), self._observed(p)) for p in probes])))
            else:
                ops = i.get("mgrops") or []
                rows.append("MgrCase {| mc_fresh := %s; mc_locked := %s;\n  mc_prefix := %s;\n  mc_state := %s;\n"
                            "  mc_buckets := %s;\n  mc_probes := %s |}" % (
                                cbool(bool(i.get("fresh"))), cbool(bool(i.get("locked"))),
                                clist([clist([self._mop(o) for o in tx]) for tx in (i.get("mgrtxs") or [])]), state, buckets,
                                clist(["\n   " + _pair(clist([self._mop(o) for o in ops[p["idx"]]]), self._observed(p))
                                       for p in probes])))
        return """From stdpp Require Import gmap.
From Coq Require Import ZArith List Bool String.
From Verif Require Import Fault.Fault Fault.FaultTx Fault.FaultMgr Fault.FaultCorr.
From Verif Require Generated.ErrFlow.
Import ListNotations.
Local Open Scope Z_scope.
(* the error-disposition table of this tree *)
Definition T : table := table_of ErrFlow.site_rows.
Definition cases : list case :=
%s.
Definition bad := Eval vm_compute in mismatches T cases.
Print bad.
Definition pred := Eval vm_compute in predicted T cases.
Print pred.
Definition kinds_bad := Eval vm_compute in kinds_failing T.
Print kinds_bad.
Definition shapes_bad := Eval vm_compute in shapes_failing ErrFlow.mem_shapes.
Print shapes_bad.
Definition absent_sites := Eval vm_compute in sites_not_in_table ErrFlow.site_rows.
Print absent_sites.
Definition cdiffs := Eval vm_compute in count_diffs T cases.
Print cdiffs.
Definition diag := Eval vm_compute in
  map (fun i => (i, match nth_error cases i with Some c => (case_diag T c, case_state_diff T c) | None => ((true, []), ([], [])) end))
      (firstn 2 bad).
Print diag.
""" % clist(["\n " + r for r in rows])

    # ------------------------------------------------------------ evidence
    def extra_coverage(self, cases):
        ops = collections.Counter()
        wr = collections.Counter()
        triples = 0
        per_kind = collections.Counter()
        for c in cases:
            for p in c["obs"]["probes"]:
                if p.get("skip"):
                    continue
                ops[p["name"]] += 1
                wr[p["n"]] += 1
                triples += len(p["ks"])
                per_kind[c["in"]["kind"]] += len(p["ks"])
        cov = dict(fault_triples=triples, fault_triples_by_subsystem=dict(per_kind),
                   states=len(cases), operations_probed=sum(ops.values()),
                   op_distribution=dict(sorted(ops.items())),
                   write_count_distribution={str(k): v for k, v in sorted(wr.items())},
                   max_write_count=max(wr) if wr else 0)
        cov.update(self.static_leg())
        d = getattr(self, "diag", {}) or {}
        cov["operations_whose_site_obligation_fails"] = d.get("kinds_bad", [])
        cov["operations_whose_memory_shape_differs_from_source"] = d.get("shapes_bad", [])
        cov["model_sites_absent_from_table"] = d.get("absent_sites", [])
        cov["model_predicted_failing_inputs"] = d.get("model_predicted", 0)
        cov["model_predicted_failing_inputs_confirmed_by_replay"] = d.get("model_predicted_confirmed", 0)
        cov["probes_whose_write_count_differs_from_the_model_accepted"] = d.get("count_diffs", 0)
        return cov

    def static_leg(self):
        """summary of Generated/ErrFlow.v's source table and the errcheck cross-check"""
        out = {}
        p = os.path.join(WORK, "errflow_c10.json")
        try:
            res = json.load(open(p))
        except (OSError, ValueError):
            return dict(errflow="table not available")
        sites = res["sites"]
        disp = collections.Counter(s["disp"] for s in sites)
        out["errflow_sites"] = len(sites)
        out["errflow_dispositions"] = dict(disp)
        out["errflow_not_propagated"] = ["%s:%d %s -> %s: %s (%s)" % (s["file"], s["line"], s["func"], s["callee"], s["disp"], s["detail"])
                                         for s in sites if s.get("code", 0) != 0]
        out["errflow_decided_by_probe"] = ["%s:%d %s -> %s: %s" % (s["file"], s["line"], s["func"], s["callee"], s["allowed"])
                                           for s in sites if s.get("probe")]
        out["errflow_probe_report"] = getattr(self, "probe_report", {})
        out["errflow_memory_shapes"] = {r["func"]: r["shape"] for r in res.get("shapes", []) if r["shape"] != "none"}
        out["errflow_read_side_cache_fills_not_counted"] = res.get("read_caches", [])
        out["errflow_allow_listed"] = ["%s:%d %s -> %s: %s" % (s["file"], s["line"], s["func"], s["callee"], s["allowed"])
                                       for s in sites if s.get("allowed")]
        out["errflow_sentinel_exemptions"] = ["%s:%d %s: %s" % (s["file"], s["line"], s["func"], s["detail"])
                                              for s in sites if "exempts" in (s.get("detail") or "")]
        out["errcheck"] = self.errcheck(sites)
        return out

    def errcheck(self, sites):
        """errcheck -blank on the two packages: every finding in a non-test file
        that hits a line of the table must be `dropped` there, and every
        statement/blank drop of the table must be an errcheck finding."""
        env = dict(GOENV)
        if REPO != "/repo":
            alt = os.path.join(WORK, "alt.mod")
            if os.path.exists(alt):
                env["GOFLAGS"] = "-mod=mod -modfile=" + alt
        try:
            rc, o, e = sh(["errcheck", "-blank", "-ignoretests", "-tags", "verif",
                           "github.com/btcsuite/btcwallet/wtxmgr", "github.com/btcsuite/btcwallet/waddrmgr"],
                          cwd=HARNESS, env=env, timeout=300)
        except (OSError, subprocess.TimeoutExpired) as ex:
            return dict(ran=False, why=str(ex))
        found = set()
        for line in o.splitlines():
            m = re.match(r"\S*?((?:wtxmgr|waddrmgr)/[A-Za-z0-9_]+\.go):(\d+):\d+:", line)
            if m and not m.group(1).endswith("_test.go"):
                found.add((m.group(1), int(m.group(2))))
        table = {(s["file"], s["line"]): s for s in sites}
        in_table = sorted("%s:%d" % k for k in found if k in table)
        disagree = sorted("%s:%d" % k for k in found if k in table and table[k].get("code", 0) == 0)
        missed = sorted("%s:%d" % (s["file"], s["line"]) for s in sites
                        if s["disp"] == "dropped_continue" and ("statement" in s["detail"] or "to _" in s["detail"])
                        and (s["file"], s["line"]) not in found)
        return dict(ran=True, rc=rc, findings_in_non_test_files=len(found), findings_on_fallible_sites=in_table,
                    disagreements=disagree + missed, agrees=not (disagree or missed),
                    stderr_tail=e[-300:] if rc not in (0, 1) else "")


CHECK = C10
