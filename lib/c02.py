from txcommon import *


class C02(TxCheck):
    ID = "C02"
    MODE = "c02"
    LEVEL = "proof"
    MODEL_CODES = [13, 14, 18, 21, 22, 23, 24, 902]
    N_QUICK = 60
    N_THOROUGH = 2000
    KINDS = ["balance_differs_from_ledger", "spendable_set_differs_from_ledger", "unconfirmed_set_differs_from_ledger",
             "tx_details_differ_from_ledger", "pair_balance_differs_from_ledger", "pair_spendable_set_differs_from_ledger",
             "pair_details_differ_from_ledger", "same_facts_different_observables", "store_error"]
    RULE = ("history A from the node simulator (reorgs, conflicts, coinbases, abandons) and history B = direct construction of "
            "A's final facts (confirmations block by block, then the unconfirmed ones); both run on the real store; final balances, "
            "spendable set and TxDetails of every universe tx compared (A vs B, each vs model, each vs ledger spec); Coq checks that B is "
            "chain-consistent and establishes the same facts. The corpus replay of the repaired S12 defect runs first. "
            "non-trivial = A contains a reorg or a conflict removal; distinct by input")

    def gen_args(self, tier, seed):
        args = super().gen_args(tier, seed)
        corpus = os.path.join(VERIF, "corpus", "C02")
        pre = []
        if os.path.isdir(corpus):
            for f in sorted(os.listdir(corpus)):
                # corpus entries are single-history replays observed with details
                p = os.path.join(WORK, "corpus_" + f + "l")
                os.makedirs(WORK, exist_ok=True)
                with open(p, "w") as out:
                    out.write(json.dumps(json.load(open(os.path.join(corpus, f)))) + "\n")
                pre.append(["txstore", "-mode", "c02", "-replay", p])
        return pre + args

    def nontrivial(self, c):
        t = set(c.get("tags", []))
        return bool(t & {"reorg_depth_1", "reorg_depth_2", "reorg_depth_3", "conflict_confirmed", "mempool_replacement", "replay"})


CHECK = C02
