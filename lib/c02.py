from txcommon import *
from c01 import TxWalletCheck, WALLET_MODEL_CODES, WALLET_KINDS, REORG_TAGS


class C02(TxWalletCheck):
    ID = "C02"
    MODE = "c02"
    LEVEL = "proof"
    MODEL_CODES = [13, 14, 18, 21, 22, 23, 24, 902] + WALLET_MODEL_CODES
    N_QUICK = 60
    N_THOROUGH = 2000
    KINDS = ["balance_differs_from_ledger", "spendable_set_differs_from_ledger", "unconfirmed_set_differs_from_ledger",
             "tx_details_differ_from_ledger", "pair_balance_differs_from_ledger", "pair_spendable_set_differs_from_ledger",
             "pair_details_differ_from_ledger", "same_facts_different_observables", "store_error"] + WALLET_KINDS
    RULE = ("history A from the node simulator (reorgs of depth 1-10, RECONNECTION of the same detached blocks incl. coinbases, conflicts, "
            "abandons, amounts up to 2^54; one third with lease events) and a history B with the same final facts - confirmed per block, "
            "unconfirmed, RAW LEASES and clock (same_facts of the theorem) - built as (1/7) the sorted direct construction, (3/7) 'shuffled': "
            "the final chain reached another way (blocks in another parents-first order, unmined versions first, repeated deliveries, detours "
            "through blocks of other forks that are disconnected again, the top blocks disconnected and connected once more) or (3/7) "
            "'perturbed': A itself with facts-preserving insertions (the same kinds; its lease events stay in place); the Go twin of the "
            "facts validates the pair, the Coq predicate re-validates it (codes 903/904). Both run on the real store; final balances "
            "(minconf in {0,1,2,6,99,100,101,102,103,150,10^6} x sync tip+{0,100}), spendable set and TxDetails of every universe tx compared "
            "(A vs B, each vs model, each vs ledger spec). One pair in four ALSO delivers A to a real wallet.Wallet (disconnectBlock -> Rollback, "
            "addRelevantTx, filtered blocks): its wallet-level reports are checked as in C01 and the store API on the wallet's own store is "
            "compared with B. The corpus replay of the repaired S12 defect runs first. "
            "non-trivial = A contains a reorg, a reconnection or a conflict removal; distinct by input")
    ASSUMPTIONS = ["int64 wrap-around is outside the model: the amounts of a universe sum below 2^63, heights < 2^20",
                   "path independence is claimed for what the surviving facts determine: TxRecord.Received (the caller-supplied time of the "
                   "delivery that recorded the transaction - an INPUT of the history, different for two histories even without any reorg) and the "
                   "label (no event sets one) are outside; the block time is part of the block and is compared A vs B"]

    def gen_args(self, tier, seed):
        args = super().gen_args(tier, seed)
        corpus = os.path.join(VERIF, "corpus", "C02")
        pre = []
        if os.path.isdir(corpus):
            for f in sorted(os.listdir(corpus)):
                # corpus entries are single-history replays observed with details
                p = os.path.join(WORK, "corpus_" + f + "l")
                os.makedirs(WORK, exist_ok=True)
                with open(p, "w") as out:
                    out.write(json.dumps(json.load(open(os.path.join(corpus, f)))) + "\n")
                pre.append(["txstore", "-mode", "c02", "-replay", p])
        return pre + args

    def nontrivial(self, c):
        t = set(c.get("tags", []))
        return bool(t & (REORG_TAGS | {"conflict_confirmed", "unconfirmed_conflict_removed_by_confirmation", "mempool_replacement", "replay", "reconnect_same_block"}))

    def extra_coverage(self, cases):
        cov = TxWalletCheck.extra_coverage(self, cases)
        kinds = {}
        for c in cases:
            k = c["in"].get("bkind") or "replay"
            kinds[k] = kinds.get(k, 0) + 1
        cov["second_history_construction"] = kinds
        return cov


CHECK = C02
