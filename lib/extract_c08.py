"""The facts of waddrmgr/scoped_manager.go that the C08 model depends on,
regenerated from the repository's current source into coq/Generated/AddrCache.v.

Three are PARAMETERS of the model (coq/Addr/MemDisk.v, [params]); the theorems
are proved for every value, so either value is a legitimate state of the source
- in particular REPAIRING one of the findings below turns a known finding into
silence, not into an alarm:

  next_caches_read_back : bool                      (p_rb, finding S4 - repaired)
      true  - nextAddresses reads every address it has just written back with
              loadAndCacheAddress, i.e. INTO the address cache, before the
              database transaction commits;
      false - the read-back goes through a loader that leaves the cache alone
              (loadAddress) and the cache is only filled by the OnCommit
              closure.
  extend_updates_memory_eagerly : bool              (p_ee, finding S10)
      true  - extendAddresses assigns s.addrs / next index / last address
              directly, before commit;
      false - it assigns them only inside a closure registered with the
              transaction's OnCommit (as nextAddresses does).
  rename_updates_memory_eagerly : bool              (p_re, finding S11)
      true  - RenameAccount assigns acctInfo.acctName directly, before commit;
      false - only inside a closure registered with OnCommit.

Three are assumptions the model transcribes without a parameter;
Properties/C08.v carries the obligation that each of them is `true`
(C08_model_assumptions_hold_in_source):

  next_commits_memory_in_closure
      the next indices and the last addresses are assigned ONLY inside the
      `onCommit := func() { ... }` closure of nextAddresses, which also adds
      the new addresses to s.addrs, and the closure is registered with the
      database transaction (ns.Tx().OnCommit(onCommit), directly or through a
      local holding ns.Tx());
  rename_covers_both_row_kinds
      RenameAccount updates the cached name once, after its type switch over
      default / watch-only account rows (both kinds get the same update);
  extend_records_fingerprint
      the DerivationPath extendAddresses builds carries
      MasterKeyFingerprint: acctInfo.masterKeyFingerprint (finding S14,
      repaired by 7aeeade).

Two paths (the Generated file says which ran: `(* facts source: source | probe *)`):

  source  (primary) the shape of the four functions is read with regular
          expressions; shapes that are syntactically equivalent are accepted
          (field order inside the closure, hoisted locals, the transaction
          handle kept in a local before OnCommit is called on it).
  probe   (fallback, only when the shape is NOT recognised) every fact is
          determined behaviourally by running the code built from `repo`
          through the harness module (harness/cmd/extract-c08) on the witness
          scenarios of that fact - see probe_facts.

main() raises only if BOTH paths fail (the message carries both reasons);
bin/extract turns that into a broken obligation of C08, never a crash.
Independently of this module the harness measures the three parameters on the
built code at start-up, and lib/c08.py fails the check if they differ from what
was generated here.
"""
import hashlib, json, os, re, shutil, subprocess


class ExtractError(Exception):
    pass


def strip_comments(src):
    src = re.sub(r"/\*.*?\*/", " ", src, flags=re.S)
    return "\n".join(re.sub(r"//.*$", "", l) for l in src.split("\n"))


def func_body(src, header_re, path):
    m = re.search(header_re, src, flags=re.M)
    if not m:
        raise ExtractError("%s: function matching %r not found" % (path, header_re))
    i = src.index("{", m.end() - 1)
    # the opening brace of the body is the first '{' after the parameter list
    depth, j = 0, i
    while j < len(src):
        if src[j] == "{":
            depth += 1
        elif src[j] == "}":
            depth -= 1
            if depth == 0:
                return src[i:j + 1]
        j += 1
    raise ExtractError("%s: unbalanced braces after %r" % (path, header_re))


def closure_body(body, start):
    i = body.index("{", start)
    depth, j = 0, i
    while j < len(body):
        if body[j] == "{":
            depth += 1
        elif body[j] == "}":
            depth -= 1
            if depth == 0:
                return i, j + 1
        j += 1
    raise ExtractError("unbalanced closure")


ASSIGN_IDX = re.compile(r"acctInfo\.(nextExternalIndex|nextInternalIndex|lastExternalAddr|lastInternalAddr)\s*=[^=]")
ASSIGN_ADDRS = re.compile(r"s\.addrs\[[^\]]*\]\s*=[^=]")


def source_facts(repo):
    path = os.path.join(repo, "waddrmgr", "scoped_manager.go")
    src = strip_comments(open(path).read())

    nb = func_body(src, r"^func \(s \*ScopedKeyManager\) nextAddresses\(", path)
    m = re.search(r"onCommit\s*:=\s*func\(\)\s*", nb)
    if not m:
        raise ExtractError("%s: nextAddresses: `onCommit := func()` closure not found" % path)
    ci, cj = closure_body(nb, m.end() - 1)
    before, closure, after = nb[:m.start()], nb[ci:cj], nb[cj:]
    # registration: ns.Tx().OnCommit(onCommit), or x := ns.Tx() ... x.OnCommit(onCommit)
    # with x assigned exactly once
    registered = len(re.findall(r"ns\.Tx\(\)\.OnCommit\(\s*onCommit\s*\)", after))
    for mm in re.finditer(r"\b(\w+)\s*:=\s*ns\.Tx\(\)", after):
        x = mm.group(1)
        if len(re.findall(r"\b%s\s*:?=[^=]" % re.escape(x), after)) == 1:
            registered += len(re.findall(r"\b%s\.OnCommit\(\s*onCommit\s*\)" % re.escape(x), after[mm.end():]))
    if registered != 1 or len(re.findall(r"OnCommit\(", nb)) != 1:
        raise ExtractError("%s: nextAddresses: the closure is not registered exactly once with the transaction's OnCommit" % path)
    if ASSIGN_IDX.search(before) or ASSIGN_IDX.search(after):
        raise ExtractError("%s: nextAddresses assigns an index / last address outside its OnCommit closure" % path)
    if sorted(ASSIGN_IDX.findall(closure)) != sorted(["nextExternalIndex", "nextInternalIndex", "lastExternalAddr", "lastInternalAddr"]) \
            or not ASSIGN_ADDRS.search(closure):
        raise ExtractError("%s: nextAddresses: OnCommit closure does not set both indices, both last addresses and s.addrs" % path)
    if ASSIGN_ADDRS.search(before) or ASSIGN_ADDRS.search(after):
        raise ExtractError("%s: nextAddresses assigns s.addrs directly outside its OnCommit closure" % path)
    cached = len(re.findall(r"s\.loadAndCacheAddress\(", before))
    plain = len(re.findall(r"s\.loadAddress\(", before))
    if cached == 1 and plain == 0:
        rb = True
    elif cached == 0 and plain == 1:
        # the loader must really leave the cache alone
        lb = func_body(src, r"^func \(s \*ScopedKeyManager\) loadAddress\(", path)
        if ASSIGN_ADDRS.search(lb) or "loadAndCacheAddress" in lb:
            raise ExtractError("%s: loadAddress touches the address cache" % path)
        rb = False
    else:
        raise ExtractError("%s: nextAddresses: read-back of the written address not recognised "
                           "(loadAndCacheAddress x%d, loadAddress x%d)" % (path, cached, plain))

    eb = func_body(src, r"^func \(s \*ScopedKeyManager\) extendAddresses\(", path)
    extend_eager = eager_or_deferred(eb, "extendAddresses", path,
                                     lambda t: len(ASSIGN_IDX.findall(t)), 4, lambda t: bool(ASSIGN_ADDRS.search(t)))
    # the derivation path of the addresses it builds
    m = re.search(r"DerivationPath\s*\{([^{}]*)\}", eb)
    if not m:
        raise ExtractError("%s: extendAddresses: DerivationPath literal not found" % path)
    extend_fp = bool(re.search(r"MasterKeyFingerprint\s*:\s*acctInfo\.masterKeyFingerprint\b", m.group(1)))

    rn = func_body(src, r"^func \(s \*ScopedKeyManager\) RenameAccount\(", path)
    rename_eager = eager_or_deferred(rn, "RenameAccount", path, lambda t: len(ASSIGN_NAME.findall(t)), 1, lambda t: True)
    # one assignment, AFTER the type switch over the row kind (so that it
    # serves default and watch-only account rows alike)
    assigns = [m.start() for m in ASSIGN_NAME.finditer(rn)]
    dflt = rn.rfind("default:")
    if dflt < 0 or assigns[0] < dflt or "case *dbWatchOnlyAccountRow" not in rn[:dflt]:
        raise ExtractError("%s: RenameAccount: the cached name is not updated once, after the row type switch "
                           "(model: both account kinds get the same update)" % path)
    return dict(rb=rb, next_in_closure=True, extend_eager=extend_eager, rename_eager=rename_eager,
                rename_both=True, extend_fp=extend_fp)


ASSIGN_NAME = re.compile(r"acctInfo\.acctName\s*=[^=]")


def eager_or_deferred(body, fn, path, count, want, extra):
    """True: the `want` memory assignments (and `extra`) are made directly, no OnCommit in the function.
    False: all of them sit inside ONE func literal that is registered exactly once with the transaction's OnCommit,
    none outside.  Anything else: not a shape the model has."""
    n_on = len(re.findall(r"OnCommit\(", body))
    if n_on == 0:
        if count(body) == want and extra(body):
            return True
        raise ExtractError("%s: %s: neither the direct memory update (%d assignments) nor an OnCommit closure" % (path, fn, want))
    # closures: `name := func() {` or `func() {` literals that hold memory assignments
    outside, inside, names = body, "", []
    for m in list(re.finditer(r"(?:(\w+)\s*:=\s*)?func\(\)\s*\{", body)):
        ci, cj = closure_body(body, m.end() - 1)
        text = body[ci:cj]
        if count(text) or ASSIGN_ADDRS.search(text):
            inside += text
            outside = outside.replace(text, " ")
            names.append(m.group(1))
    registered = 0
    for nm in names:
        if nm:
            registered += len(re.findall(r"\.OnCommit\(\s*%s\s*\)" % re.escape(nm), body))
        else:
            registered += len(re.findall(r"\.OnCommit\(\s*func\(\)", body))
    if n_on == 1 and registered == 1 and len(names) == 1 and count(inside) == want and extra(inside) \
            and count(outside) == 0 and not ASSIGN_ADDRS.search(outside) and re.search(r"ns\.Tx\(\)", body):
        return False
    raise ExtractError("%s: %s: OnCommit is used but the memory update is not exactly one registered closure" % (path, fn))


def _run_probe(repo):
    """build harness/cmd/extract-c08 against `repo` and run it"""
    import vlib
    with vlib.Lock("go"):
        os.makedirs(os.path.join(vlib.WORK, "bin"), exist_ok=True)
        modflag = []
        if repo == "/repo":
            shutil.copyfile(os.path.join(repo, "go.sum"), os.path.join(vlib.HARNESS, "go.sum"))
        else:
            alt = os.path.join(vlib.WORK, "extract_c08_%s.mod" % hashlib.sha1(repo.encode()).hexdigest()[:8])
            txt = open(os.path.join(vlib.HARNESS, "go.mod")).read().replace("=> /repo", "=> " + repo)
            open(alt, "w").write(txt)
            shutil.copyfile(os.path.join(repo, "go.sum"), alt[:-4] + ".sum")
            modflag = ["-modfile=" + alt]
        exe = os.path.join(vlib.WORK, "bin", "extract-c08")
        p = subprocess.run(["go", "build"] + modflag + ["-o", exe, "./cmd/extract-c08"], cwd=vlib.HARNESS,
                           env=vlib.GOENV, stdout=subprocess.PIPE, stderr=subprocess.PIPE, text=True, timeout=900)
        if p.returncode != 0:
            raise ExtractError("probe: harness/cmd/extract-c08 does not build against %s: %s" % (repo, (p.stdout + p.stderr)[-1500:]))
    p = subprocess.run([exe], cwd=vlib.WORK, stdout=subprocess.PIPE, stderr=subprocess.PIPE, text=True, timeout=300)
    if p.returncode != 0:
        raise ExtractError("probe: extract-c08 failed: %s" % p.stderr[-1500:])
    return json.loads(p.stdout)


def probe_facts(repo):
    """Facts determined by running the real address manager (Create with fast scrypt, scope BIP0084, unlocked, bbolt
    file behind harness/internal/abortdb).  Every scenario is run in 12 instances: the transaction is rolled back by a
    caller error / walletdb.ErrDryRunRollBack / a failing commit, on the external and the internal branch, for 1 and
    2 addresses, with cold caches on a new database and with warm caches after committed issuance.

    next_caches_read_back - the witness of finding S4 (corpus/C08/s4_dry_run_issuance_phantom_address.json,
      C08_dry_run_issuance): NextAddresses inside a transaction that is rolled back, then Address(a) of every returned
      address in a later read transaction.  The database does not hold the address (checked with a restarted
      manager; addresses it knows are left out) and nothing but nextAddresses ran, so Address(a) succeeds iff
      nextAddresses left it in the cache before commit.  All found -> true, none
      found -> false, a mix is not a behaviour the model has -> the probe path fails.

    next_commits_memory_in_closure - the witnesses of 'index advanced without commit' and of 'closure not run':
      (a) the same rolled-back issuance: AccountProperties' key count of the branch and LastAddress are unchanged,
      the other branch is unchanged, a restarted manager (fresh Open on a copy of the file) reports the same count,
      and the next COMMITTED issuance returns exactly the indices the rolled-back one returned (= what the restarted
      manager issues).  An index or last address assigned outside the OnCommit closure shows as an advanced count /
      a skipped index.  (b) a committed issuance of n addresses: the count grows by n, LastAddress is the last
      issued one, every issued address is known, the restarted manager agrees, and the following committed issuance
      starts at before+n.  A closure that is not registered (or does not assign a field) shows as an unchanged
      count, a stale last address or a re-issued index.  true iff nothing of this shows in any instance.

    extend_updates_memory_eagerly - the witness of finding S10 (corpus/C08/s10_extend_in_failed_commit.json,
      w_extend): ExtendAddresses to index next+n inside a rolled-back transaction; the key count afterwards is
      next+n+1 iff extendAddresses assigned the index before commit, and unchanged iff it defers it.  All advanced
      -> true, none -> false, a mix fails the probe path.  Either way a COMMITTED extension must leave the count,
      the last address and a restarted manager's count at last+1 (a deferred update that is not registered, or
      not run, shows here): otherwise the probe path fails.

    rename_updates_memory_eagerly / rename_covers_both_row_kinds - the witnesses of finding S11 and of the seeded
      'watch-only arm forgets the cache' change (corpus/C08/s11_rename_in_aborted_tx.json, w_rename): for the default
      account, a new default account, an imported xpub account and one with a schema override: AccountProperties
      (caches the account), a COMMITTED RenameAccount - the cached name must be the new one (as AccountName, which
      reads the database, says) - then a rolled-back RenameAccount: the cached name is the rolled-back one (eager)
      or stays the committed one (deferred) while the database keeps the committed one.  The default accounts decide
      rename_updates_memory_eagerly (all eager -> true, all deferred -> false, anything else fails the probe path);
      rename_covers_both_row_kinds is true iff the imported accounts show the same pattern.

    extend_records_fingerprint - the witness of finding S14 (corpus/C08/s14_extend_drops_fingerprint.json): an imported
      account with master-key fingerprint 7 / 0x11223344, extended in a committed transaction (cold and warm account
      cache, both branches); Address(a).DerivationInfo() of every extended address in the running manager and in a
      restarted one.  The restarted manager must report the account's fingerprint (else the probe path fails); true
      iff the running manager reports the same."""
    obs = _run_probe(repo)
    n = 0
    # read-back
    # only addresses a restarted manager does not know can be phantoms
    flags = [f for inst in obs["readback"] for f, d in zip(inst["found"], inst["on_disk"]) if not d]
    n += len(obs["readback"])
    if not flags:
        raise ExtractError("probe: no read-back observation")
    if all(flags):
        rb = True
    elif not any(flags):
        rb = False
    else:
        raise ExtractError("probe: rolled-back issuance leaves SOME of its addresses in the cache: %s" % obs["readback"][:3])
    # issuance
    ok, why = True, ""
    for i in obs["next_abort"]:
        n += 1
        good = (i["after"] == i["before"] and i["other_after"] == i["other_before"] and i["last1"] == i["last0"]
                and i["restart_next"] == i["before"] and i["reissued"] == i["issued"]
                and i["issued"] == list(range(i["before"], i["before"] + i["n"])))
        if not good and ok:
            ok, why = False, "rolled-back issuance: %s" % i
    for i in obs["next_commit"]:
        n += 1
        good = (i["after"] == i["before"] + i["n"] and i["last"] == i["before"] + i["n"] - 1 and all(i["found"])
                and i["issued"] == list(range(i["before"], i["before"] + i["n"]))
                and i["restart_next"] == i["after"] and i["following"] == i["before"] + i["n"])
        if not good and ok:
            ok, why = False, "committed issuance: %s" % i
    next_in_closure = ok
    # extend
    adv = [i["after"] == i["to"] + 1 for i in obs["extend_abort"]]
    same = [i["after"] == i["before"] for i in obs["extend_abort"]]
    n += len(adv)
    if adv and all(adv):
        extend_eager = True
    elif same and all(same):
        extend_eager = False
    else:
        raise ExtractError("probe: rolled-back ExtendAddresses neither advances nor keeps the index uniformly: %s" % obs["extend_abort"][:3])
    # either way a COMMITTED extension must arrive in memory and on disk
    for i in obs["extend_commit"]:
        n += 1
        if not (i["after"] == i["to"] + 1 and i["last"] == i["to"] and i["restart_next"] == i["to"] + 1):
            raise ExtractError("probe: a committed ExtendAddresses does not leave memory and database at last+1: %s" % i)
    # fingerprint of extended addresses of an imported account
    extend_fp, fwhy = True, ""
    for i in obs["extend_fp"]:
        n += 1
        if i["restarted"] != [i["fp"]] * len(i["restarted"]):
            raise ExtractError("probe: a restarted manager does not report the account's fingerprint: %s" % i)
        if i["running"] != i["restarted"] and extend_fp:
            extend_fp, fwhy = False, "%s" % i

    # rename: per account kind, eager / deferred / something else
    def pattern(i):
        if i["committed_disk"] != "second" or i["aborted_disk"] != "second" or i["committed_mem"] != "second":
            return "other"
        return {"third": "eager", "second": "deferred"}.get(i["aborted_mem"], "other")
    pats = {}
    for i in obs["rename"]:
        n += 1
        pats.setdefault(i["kind"], set()).add(pattern(i))
    dflt = pats.get("default0", set()) | pats.get("default", set())
    if dflt == {"eager"}:
        rename_eager = True
    elif dflt == {"deferred"}:
        rename_eager = False
    else:
        raise ExtractError("probe: RenameAccount of a default account neither updates the cached name at once nor at commit: %s"
                           % [i for i in obs["rename"] if i["kind"].startswith("default")][:3])
    wo = pats.get("watchonly", set()) | pats.get("watchonly_schema", set())
    rename_both, rwhy = (wo == dflt), ""
    if not rename_both:
        rwhy = "%s" % [i for i in obs["rename"] if i["kind"].startswith("watchonly") and pattern(i) not in dflt][:2]
    detail = []
    if not next_in_closure:
        detail.append("next_commits_memory_in_closure=false: " + why)
    if not rename_both:
        detail.append("rename_covers_both_row_kinds=false: " + rwhy)
    if not extend_fp:
        detail.append("extend_records_fingerprint=false: " + fwhy)
    return dict(rb=rb, next_in_closure=next_in_closure, extend_eager=extend_eager, rename_eager=rename_eager,
                rename_both=rename_both, extend_fp=extend_fp, nprobes=n, detail="; ".join(detail))


def render(f, source_line):
    b = lambda x: "true" if x else "false"   # noqa: E731
    return """(** GENERATED by lib/extract_c08.py from waddrmgr/scoped_manager.go - do not edit;
    bin/extract rewrites it from the current source. *)
(* facts source: %s *)

(** Parameters of the model ([MemDisk.params]): the theorems cover every value. *)

(** nextAddresses reads the address it has just written back INTO the address
    cache before the database transaction commits (loadAndCacheAddress). *)
Definition next_caches_read_back : bool := %s.

(** extendAddresses updates next index / last address / address cache at once,
    before commit (false: in a closure registered with OnCommit). *)
Definition extend_updates_memory_eagerly : bool := %s.

(** RenameAccount updates the cached account name at once, before commit
    (false: in a closure registered with OnCommit). *)
Definition rename_updates_memory_eagerly : bool := %s.

(** Assumptions the model transcribes (Properties/C08.v obliges each to be true). *)

(** nextAddresses updates next index / last address / address cache only in
    its OnCommit closure, and the closure is registered with the transaction. *)
Definition next_commits_memory_in_closure : bool := %s.

(** RenameAccount updates the cached account name for default and watch-only
    account rows alike. *)
Definition rename_covers_both_row_kinds : bool := %s.

(** extendAddresses records the account's master-key fingerprint in the
    derivation path of the addresses it builds. *)
Definition extend_records_fingerprint : bool := %s.
""" % (source_line, b(f["rb"]), b(f["extend_eager"]), b(f["rename_eager"]), b(f["next_in_closure"]),
       b(f["rename_both"]), b(f["extend_fp"]))


def main(repo, outdir, write_if_changed):
    try:
        facts = source_facts(repo)
        source_line = "source (shape of nextAddresses / extendAddresses / RenameAccount / loadAddress recognised)"
    except (ExtractError, OSError, ValueError) as e1:
        why = str(e1).replace("*)", "* )").replace("(*", "( *")
        try:
            facts = probe_facts(repo)
        except (ExtractError, OSError, ValueError, KeyError, TypeError, subprocess.SubprocessError) as e2:
            raise ExtractError("source shape not recognised (%s) AND probing the built code failed (%s)" % (e1, e2))
        source_line = ("probe (source shape not recognised: %s; facts determined by %d scenario instances run on the code built "
                       "from the repository, harness/cmd/extract-c08%s)" % (
                           why[:300], facts["nprobes"], ("; " + facts["detail"][:400]) if facts["detail"] else ""))
        source_line = source_line.replace("*)", "* )")
    write_if_changed(os.path.join(outdir, "AddrCache.v"), render(facts, source_line))


if __name__ == "__main__":
    import sys
    sys.path.insert(0, os.path.dirname(os.path.abspath(__file__)))
    def w(p, t):
        print(p); print(t)
    main(sys.argv[1] if len(sys.argv) > 1 else "/repo", "/tmp", w)
