"""The one fact of waddrmgr/scoped_manager.go that the C08 model takes as a
parameter, regenerated from the repository's current source into
coq/Generated/AddrCache.v:

  next_caches_read_back : bool
      true  - nextAddresses reads every address it has just written back with
              loadAndCacheAddress, i.e. INTO the address cache, before the
              database transaction commits (pinned code, finding S4);
      false - the read-back goes through a loader that leaves the cache alone
              (loadAddress) and the cache is only filled by the OnCommit
              closure.

Also checked (the model relies on them; anything else raises, so that the check
reports a broken obligation instead of silently keeping an old value):
  * the next indices and the last addresses are assigned ONLY inside the
    `onCommit := func() { ... }` closure of nextAddresses, which also adds the
    new addresses to s.addrs, and the closure is registered with
    ns.Tx().OnCommit(onCommit);
  * extendAddresses assigns s.addrs / next index / last address directly
    (no OnCommit); RenameAccount assigns acctInfo.acctName directly, once,
    after its type switch over default / watch-only account rows.
"""
import os, re


class ExtractError(Exception):
    pass


def strip_comments(src):
    src = re.sub(r"/\*.*?\*/", " ", src, flags=re.S)
    return "\n".join(re.sub(r"//.*$", "", l) for l in src.split("\n"))


def func_body(src, header_re, path):
    m = re.search(header_re, src, flags=re.M)
    if not m:
        raise ExtractError("%s: function matching %r not found" % (path, header_re))
    i = src.index("{", m.end() - 1)
    # the opening brace of the body is the first '{' after the parameter list
    depth, j = 0, i
    while j < len(src):
        if src[j] == "{":
            depth += 1
        elif src[j] == "}":
            depth -= 1
            if depth == 0:
                return src[i:j + 1]
        j += 1
    raise ExtractError("%s: unbalanced braces after %r" % (path, header_re))


def closure_body(body, start):
    i = body.index("{", start)
    depth, j = 0, i
    while j < len(body):
        if body[j] == "{":
            depth += 1
        elif body[j] == "}":
            depth -= 1
            if depth == 0:
                return i, j + 1
        j += 1
    raise ExtractError("unbalanced closure")


ASSIGN_IDX = re.compile(r"acctInfo\.(nextExternalIndex|nextInternalIndex|lastExternalAddr|lastInternalAddr)\s*=[^=]")
ASSIGN_ADDRS = re.compile(r"s\.addrs\[[^\]]*\]\s*=[^=]")


def main(repo, outdir, write_if_changed):
    path = os.path.join(repo, "waddrmgr", "scoped_manager.go")
    src = strip_comments(open(path).read())

    nb = func_body(src, r"^func \(s \*ScopedKeyManager\) nextAddresses\(", path)
    m = re.search(r"onCommit\s*:=\s*func\(\)\s*", nb)
    if not m:
        raise ExtractError("%s: nextAddresses: `onCommit := func()` closure not found" % path)
    ci, cj = closure_body(nb, m.end() - 1)
    before, closure, after = nb[:m.start()], nb[ci:cj], nb[cj:]
    if not re.search(r"ns\.Tx\(\)\.OnCommit\(\s*onCommit\s*\)", after):
        raise ExtractError("%s: nextAddresses: the closure is not registered with ns.Tx().OnCommit" % path)
    if ASSIGN_IDX.search(before) or ASSIGN_IDX.search(after):
        raise ExtractError("%s: nextAddresses assigns an index / last address outside its OnCommit closure" % path)
    if len(ASSIGN_IDX.findall(closure)) != 4 or not ASSIGN_ADDRS.search(closure):
        raise ExtractError("%s: nextAddresses: OnCommit closure does not set both indices, both last addresses and s.addrs" % path)
    if ASSIGN_ADDRS.search(before) or ASSIGN_ADDRS.search(after):
        raise ExtractError("%s: nextAddresses assigns s.addrs directly outside its OnCommit closure" % path)
    cached = len(re.findall(r"s\.loadAndCacheAddress\(", before))
    plain = len(re.findall(r"s\.loadAddress\(", before))
    if cached == 1 and plain == 0:
        rb = True
    elif cached == 0 and plain == 1:
        # the loader must really leave the cache alone
        lb = func_body(src, r"^func \(s \*ScopedKeyManager\) loadAddress\(", path)
        if ASSIGN_ADDRS.search(lb) or "loadAndCacheAddress" in lb:
            raise ExtractError("%s: loadAddress touches the address cache" % path)
        rb = False
    else:
        raise ExtractError("%s: nextAddresses: read-back of the written address not recognised "
                           "(loadAndCacheAddress x%d, loadAddress x%d)" % (path, cached, plain))

    eb = func_body(src, r"^func \(s \*ScopedKeyManager\) extendAddresses\(", path)
    if "OnCommit" in eb or len(ASSIGN_IDX.findall(eb)) != 4 or not ASSIGN_ADDRS.search(eb):
        raise ExtractError("%s: extendAddresses no longer updates cache, indices and last addresses directly" % path)
    rn = func_body(src, r"^func \(s \*ScopedKeyManager\) RenameAccount\(", path)
    assigns = [m.start() for m in re.finditer(r"acctInfo\.acctName\s*=[^=]", rn)]
    if "OnCommit" in rn or not assigns:
        raise ExtractError("%s: RenameAccount no longer assigns the cached name directly" % path)
    # one assignment, AFTER the type switch over the row kind (so that it
    # serves default and watch-only account rows alike)
    dflt = rn.rfind("default:")
    if len(assigns) != 1 or dflt < 0 or assigns[0] < dflt or "case *dbWatchOnlyAccountRow" not in rn[:dflt]:
        raise ExtractError("%s: RenameAccount: the cached name is not updated once, after the row type switch "
                           "(model: both account kinds get the same update)" % path)

    text = """(** GENERATED by lib/extract_c08.py from waddrmgr/scoped_manager.go - do not edit;
    bin/extract rewrites it from the current source. *)

(** nextAddresses reads the address it has just written back INTO the address
    cache before the database transaction commits (loadAndCacheAddress). *)
Definition next_caches_read_back : bool := %s.
""" % ("true" if rb else "false")
    write_if_changed(os.path.join(outdir, "AddrCache.v"), text)


if __name__ == "__main__":
    import sys
    def w(p, t):
        print(p); print(t)
    main(sys.argv[1] if len(sys.argv) > 1 else "/repo", "/tmp", w)
