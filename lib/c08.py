"""C08 - what the wallet says in memory is what a restart would say.

Leg A: coq/Properties/C08.v (theorems over coq/Addr/MemDisk.v).
Leg B: harness/cmd/c08 drives the real waddrmgr through histories of committed
and rolled-back database transactions; after every transaction a fresh
waddrmgr.Open on a copy of the database is asked the same questions as the
running manager.  coq/Addr/MemDiskCorr.v replays every history on the model
and compares per-operation outcomes, the running manager's answers and the
fresh manager's answers.
"""
from vlib import *

ERR = {
    "ErrAccountNotFound": "EAccountNotFound", "ErrDuplicateAccount": "EDuplicateAccount",
    "ErrInvalidAccount": "EInvalidAccount", "ErrTooManyAddresses": "ETooManyAddresses",
    "ErrDuplicateAddress": "EDuplicateAddress", "ErrBlockNotFound": "EBlockNotFound",
    "ErrAddressNotFound": "EAddressNotFound", "ErrBirthdayBlockNotSet": "EBirthdayBlockNotSet",
    "ErrDatabase": "EDatabase", "panic": "EPanic",
}
FATE = {"commit": "Commit", "abort": "AbortCaller", "dryrun": "AbortDryRun", "failcommit": "CommitFails"}
CODES = {1: "model:operation_outcome", 2: "model:running_manager_answers", 3: "model:fresh_manager_answers",
         4: "theorem:divergence_outside_K", 5: "generator:time_out_of_range"}
UNKNOWN = 999999


def nn(x):
    return cN(x if x >= 0 else UNKNOWN)


def r_addr(ref):
    if not ref or len(ref) != 4:
        return "(ImpKey %s)" % cN(UNKNOWN)
    k, a, b, i = ref
    if k == 0:
        return "(Chain %s %s %s)" % (cN(a), cbool(b != 0), cN(i))
    if k == 1:
        return "(ImpKey %s)" % cN(a)
    if k == 2:
        return "(ImpScript %s)" % cN(a)
    return "(ImpKey %s)" % cN(UNKNOWN)


def r_stamp(h, hsh, t):
    return "{| s_height := %s; s_hash := %s; s_time := %s |}" % (cZ(h), nn(hsh), cZ(t))


def r_wo(key, fp, sch):
    sc = "None" if not sch else "(Some (%s, %s))" % (cN(sch[0]), cN(sch[1]))
    return "{| w_key := %s; w_fp := %s; w_schema := %s |}" % (nn(key), cN(fp), sc)


def r_query(q):
    k = q["k"]
    if k == "lookup":
        return "QLookup %s" % r_addr(q["addr"])
    if k == "last":
        return "QLast %s %s" % (cN(q["acct"]), cbool(q["int"]))
    if k == "props":
        return "QProps %s" % cN(q["acct"])
    if k == "lookupname":
        return "QLookupName %s" % nn(q["name"])
    if k == "acctname":
        return "QAcctName %s" % cN(q["acct"])
    if k == "lastacct":
        return "QLastAcct"
    if k == "synced":
        return "QSynced"
    if k == "blockhash":
        return "QBlockHash %s" % cZ(q["h"])
    if k == "birthday":
        return "QBirthday"
    if k == "bdayblock":
        return "QBdayBlock"
    raise ValueError("unknown query " + k)


READS = {"lookup", "last", "props", "lookupname", "acctname", "lastacct", "synced", "blockhash", "birthday", "bdayblock"}


def r_op(o):
    k = o["k"]
    if k in READS:
        return "ORead (%s)" % r_query(o)
    if k == "newacct":
        return "ONewAccount %s" % nn(o["name"])
    if k == "newacctwo":
        return "ONewAccountWO %s %s" % (nn(o["name"]), r_wo(o["key"], o.get("fp", 0), o.get("sch")))
    if k == "rename":
        return "ORename %s %s" % (cN(o["acct"]), nn(o["name"]))
    if k == "next":
        return "ONext %s %s %s" % (cN(o["acct"]), cbool(o["int"]), cN(o["n"]))
    if k == "extend":
        return "OExtend %s %s %s" % (cN(o["acct"]), cbool(o["int"]), cN(o["n"]))
    if k == "markused":
        return "OMarkUsed %s" % r_addr(o["addr"])
    if k == "setsynced":
        return "OSetSynced %s" % r_stamp(o["h"], o["hash"], o["t"])
    if k == "setsyncednil":
        return "OSetSyncedNil"
    if k == "setbirthday":
        return "OSetBirthday %s" % cZ(o["t"])
    if k == "setbdayblock":
        return "OSetBdayBlock %s %s" % (r_stamp(o["h"], o["hash"], o["t"]), cbool(o["ver"]))
    if k == "impkey":
        bs = "None" if (o["hash"] < 0 and not o["priv"]) else "(Some %s)" % r_stamp(o["h"], o["hash"], o["t"])
        return "OImport (ImpKey %s) %s" % (cN(o["key"]), bs)
    if k == "impscript":
        return "OImport (ImpScript %s) (Some %s)" % (cN(o["key"]), r_stamp(o["h"], o["hash"], o["t"]))
    raise ValueError("unknown op " + k)


def r_ans(a):
    k = a["k"]
    if k == "err":
        return "AErr %s" % ERR.get(a["err"], "EOther")
    if k == "ok":
        return "AOk"
    if k == "acct":
        return "AAcct %s" % cN(a["acct"])
    if k == "addrs":
        return "AAddrs %s" % clist([r_addr(x) for x in a["addrs"] or []])
    if k == "addr":
        return "AAddr %s %s %s %s %s %s %s" % (r_addr(a["ref"]), cN(a["acct"]), cbool(a["internal"]), cbool(a["imported"]),
                                               cbool(a["used"]), cN(a.get("ty", 0)), cN(a.get("fp", 0)))
    if k == "last":
        return "ALast %s" % r_addr(a["ref"])
    if k == "props":
        kind = "(Some %s)" % r_wo(a.get("key", 0), a.get("fp", 0), a.get("sch")) if a.get("wo") else "None"
        return "AProps %s %s %s %s %s" % (nn(a["name"]), cN(a["ext"]), cN(a["intn"]), cN(a["imp"]), kind)
    if k == "name":
        return "AName %s" % nn(a["name"])
    if k == "stamp":
        return "AStamp %s" % r_stamp(a["h"], a["hash"], a["t"])
    if k == "hash":
        return "AHash %s" % nn(a["hash"])
    if k == "time":
        return "ATime %s" % cZ(a["t"])
    if k == "bday":
        return "ABday %s %s" % (r_stamp(a["h"], a["hash"], a["t"]), cbool(a["ver"]))
    raise ValueError("unknown answer " + k)


def r_qas(qas):
    qs = clist([r_query(e["q"]) for e in qas])
    rs = clist([r_ans(e["r"]) for e in qas])
    fs = clist([r_ans(e["f"] if e.get("f") else e["r"]) for e in qas])
    return qs, rs, fs


def r_case(c):
    i, o = c["in"], c["obs"]
    q0, r0, f0 = r_qas(o["q0"] or [])
    txs = []
    for t, to in zip(i["txs"], o["txs"]):
        qs, rs, fs = r_qas(to["q"] or [])
        txs.append("\n   ({| tx_ops := %s; tx_fate := %s; tx_queries := %s |},\n    {| to_outs := %s; to_run := %s; to_fresh := %s |})" % (
            clist([r_op(x) for x in t["ops"] or []]), FATE[t["fate"]], qs,
            clist([r_ans(a) for a in to["outs"] or []]), rs, fs))
    sch = o["init"]["sch"]
    return ("{| tc_schema := (%s, %s); tc_genesis_time := %s; tc_birthday := %s;\n  tc_q0 := %s; tc_q0_run := %s; tc_q0_fresh := %s;\n  tc_txs := %s |}" % (
        cN(sch[0]), cN(sch[1]), cZ(o["init"]["t"]), cZ(o["init"]["birthday"]), q0, r0, f0, clist(txs)))


class KindAt(str):
    """A violation kind that remembers its site (Check.shrink only receives the kind)."""
    def __new__(cls, kind, site):
        o = str.__new__(cls, kind)
        o.site = site
        return o


class C08(Check):
    ID = "C08"
    N_QUICK = 120
    N_THOROUGH = 2500
    SHARD = 12
    RULE = ("real waddrmgr (Create with FastScryptOptions, one of the scopes BIP0084/BIP0044, unlocked) on a real bbolt file behind "
            "harness/internal/abortdb; 116 systematic histories (every write operation alone in an aborted / dry-run / failed-commit "
            "transaction, cold and warm caches, followed by a committed issuance; same-transaction patterns; imported xpub accounts "
            "- NewAccountWatchingOnly with/without fingerprint and address-schema override - cached, used, renamed in committed and "
            "rolled-back transactions, extended, number reuse); 12 (thorough 150) histories "
            "through the real wallet.Wallet on a funded wallet: NewAddress, NewChangeAddress, CreateSimpleTx and CreateSimpleTx(dryRun=true); "
            "random histories of 3-8 (thorough 3-12) transactions x 1-3 operations, fate commit/caller abort/ErrDryRunRollBack/failed "
            "commit, three generator modes (wild; aborted transactions hold only issuance+reads = the dry-run scenario; aborted "
            "transactions hold only operations without eager memory updates); half of the random histories import xpub accounts (5 xpubs "
            "derived in the harness from other seeds, each imported at most once). After EVERY transaction the file is copied (DB.Copy), opened "
            "with a fresh waddrmgr.Open, and both managers answer: AccountProperties/AccountName/LastExternal/LastInternalAddress for every "
            "account and the next unused number, the imported account, LookupAccount for every name, LastAccount, Address()+Used() for "
            "every address issued by a committed transaction, the last derived and the next 3 unissued indices per branch, all import "
            "candidates, SyncedTo, Birthday, BirthdayBlock, BlockHash for recent heights. Compared: per-operation outcomes and both answer "
            "columns with the Coq model; AccountProperties is compared incl. IsWatchOnly / imported xpub / MasterKeyFingerprint / AddrSchema, Address() incl. "
            "AddrType and DerivationInfo fingerprint; the fresh manager is unlocked like the running one. running vs fresh = the oracle. non-trivial = history holds a rolled-back transaction with a write "
            "operation AND a later committed transaction; distinct by input")
    ASSUMPTIONS = ["manager stays unlocked (and is not itself watch-only); one key scope per history (scoped managers share no cache); "
                   "accounts are default or imported-xpub (watch-only) accounts",
                   "a chained address is identified with (account number, branch, index): with imported accounts a rolled-back "
                   "transaction never reads an account it has just created (a later account could reuse the number with another key), "
                   "and an xpub is imported at most once per history",
                   "ExtendAddresses on an imported account while unlocked panics on the pinned code (finding S3, C03); the model transcribes "
                   "the panic, the harness probes it at start-up and stops extending imported accounts if the source stops panicking",
                   "block time stamps handed to SetSyncedTo lie in [0, 2^32) seconds (the database keeps 32 bits)",
                   "heights/indices far below the int32/uint32 limits; fault-free database (write faults are C10)",
                   "addresses are identified with their derivation path through a table derived in the harness with hdkeychain",
                   "model parameter rb (does nextAddresses cache the read-back address before commit) = "
                   "Generated/AddrCache.next_caches_read_back, regenerated from waddrmgr/scoped_manager.go by lib/extract_c08.py; "
                   "the theorems hold for both values",
                   "three transcribed assumptions (indices only in the registered OnCommit closure; extend and rename update memory "
                   "before commit, rename for both row kinds) are regenerated too and obliged to be true "
                   "(C08_model_assumptions_hold_in_source); when the source shape is not recognised all four facts are determined by "
                   "running the built code on their witness scenarios (harness/cmd/extract-c08); evidence field facts_source says "
                   "which path ran"]
    PARTIAL_CLAUSES = ["the equivalence is proved for histories outside the trigger pattern K (in_K of coq/Addr/MemDisk.v); inside K it is "
                       "refuted by witnesses (C08_refuted_at_K) and the run reports the divergences as findings",
                       "'the next committed request issues the very address a restarted wallet would issue' is proved outside K_idx "
                       "(aborted extend, aborted new-account read back, extend after next-addresses in one committed transaction) and "
                       "refuted by witnesses inside"]

    def nontrivial(self, c):
        seen_abort_write = False
        for t in c["in"]["txs"]:
            if t["fate"] != "commit":
                if any(o["k"] not in READS for o in t["ops"] or []):
                    seen_abort_write = True
            elif seen_abort_write:
                return True
        return False

    def oracle_kinds(self, case):
        out = []
        for f in case.get("findings") or []:
            out.append((KindAt(f["kind"], f["site"]), f["site"]))
        for k in case.get("oracle") or []:
            if "@" not in k:
                out.append((k, "model"))
        return out

    def sample(self, c):
        return dict(history=c["in"], oracle=c["oracle"], tags=c.get("tags"),
                    last_boundary=[dict(q=e["q"]["k"], r=e["r"]["k"]) for e in (c["obs"]["txs"][-1]["q"] if c["obs"]["txs"] else [])][:6])

    def shrink(self, case, kind):
        # cut the history after the transaction at which this divergence first showed
        site = getattr(kind, "site", None)
        for f in case.get("findings") or []:
            if f["kind"] == kind and f["tx"] >= 0 and site in (None, f["site"]):
                c2 = dict(case)
                c2["in"] = dict(case["in"], txs=case["in"]["txs"][:f["tx"] + 1])
                c2["obs"] = dict(case["obs"], txs=case["obs"]["txs"][:f["tx"] + 1])
                c2["findings"] = [g for g in case["findings"] if g["tx"] <= f["tx"]]
                return c2
        return case

    def render_cases(self, cases):
        return """From stdpp Require Import gmap list numbers.
From Coq Require Import ZArith NArith.
From Verif Require Import Addr.MemDisk Addr.MemDiskCorr.
Definition cases : list tcase :=
%s.
Definition bad := Eval vm_compute in failures cases.
Print bad.
""" % clist(["\n " + r_case(c) for c in cases])

    def evaluate_model(self, cases):
        import concurrent.futures as cf
        mism, logs, problems = [], "", []
        shards = [(s, cases[s:s + self.SHARD]) for s in range(0, len(cases), self.SHARD)]

        def run(sh):
            start, chunk = sh
            return start, coq_eval(self.ID, self.render_cases(chunk), "cases_%d" % start)
        with cf.ThreadPoolExecutor(max_workers=12) as ex:
            results = list(ex.map(run, shards))
        detail = {}
        for start, (rc, out, err) in results:
            if rc != 0:
                problems.append("correspondence: cases file does not evaluate: " + (err or out)[-1500:])
                continue
            printed = parse_printed(out, "bad")
            if printed is None:
                problems.append("correspondence: could not parse model output: " + out[-500:])
                continue
            nums = [int(x) for x in re.findall(r"\d+", printed)]
            for j in range(0, len(nums) - 2, 3):
                detail.setdefault(start + nums[j], []).append((nums[j + 1], nums[j + 2]))
        for ci, fl in sorted(detail.items()):
            c = cases[ci]
            c["model_failures"] = [dict(tx=t - 1, what=CODES.get(code, str(code))) for t, code in fl[:8]]
            mism.append(ci)
            if any(code == 4 for _, code in fl):
                # the implementation diverges on a history the theorem covers
                k = "mem_disk_divergence:outside_K"
                if k not in c["oracle"]:
                    c["oracle"].append(k)
            if any(code == 5 for _, code in fl):
                problems.append("generator produced an inadmissible case (index %d)" % ci)
        return mism, logs, problems

    def explained_by_known(self, case):
        # the model follows the code also inside K: a model/implementation
        # mismatch is never explained by a known finding
        return False

    def facts_source(self):
        # which path of lib/extract_c08.py produced the regenerated facts of this run
        src, detail, facts = "unknown", "", {}
        try:
            txt = open(os.path.join(COQ, "Generated", "AddrCache.v")).read()
            m = re.search(r"\(\* facts source: (\w+)(.*?)\*\)", txt, re.S)
            if m:
                src, detail = m.group(1), re.sub(r"\s+", " ", m.group(2)).strip()
            facts = dict(re.findall(r"Definition (\w+) : bool := (true|false)\.", txt))
        except OSError:
            pass
        return dict(facts_source=src, facts_source_detail=detail, regenerated_facts=facts)

    def extra_coverage(self, cases):
        k = sum(1 for c in cases if "in_K" in c.get("tags", []))
        return dict(self.facts_source(), K="in_K rb (coq/Addr/MemDisk.v): an aborted transaction holding rename / set-synced-to / set-birthday / extend / import, "
                      "or new-account followed by Address/LastAddress/AccountProperties, or next-addresses (rb=true: always; rb=false: when "
                      "followed by Address); a committed transaction holding extend after next-addresses on the same account and branch, "
                      "or SetSyncedTo(nil)",
                    wallet_api_histories=sum(1 for c in cases if c["in"].get("wallet")),
                    histories_in_K=k, histories_outside_K=len(cases) - k,
                    histories_outside_K_with_divergence=sum(1 for c in cases if "outside_K" in c.get("tags", []) and c.get("oracle")),
                    boundaries=sum(len(c["obs"]["txs"]) + 1 for c in cases),
                    boundary_queries=sum(sum(len(t["q"] or []) for t in c["obs"]["txs"]) + len(c["obs"]["q0"] or []) for c in cases))


CHECK = C08
