"""C08 - what the wallet says in memory is what a restart would say.

Leg A: coq/Properties/C08.v (theorems over coq/Addr/MemDisk.v).
Leg B: harness/cmd/c08 drives the real waddrmgr (and wallet.Wallet) through
histories of committed and rolled-back database transactions; after every
transaction a fresh waddrmgr.Open on a copy of the database, brought to the
lock state of the running manager, is asked the same questions as the running
manager.  coq/Addr/MemDiskCorr.v replays every history on the model
and compares per-operation outcomes, the running manager's answers and the
fresh manager's answers.
"""
from vlib import *

ERR = {
    "ErrAccountNotFound": "EAccountNotFound", "ErrDuplicateAccount": "EDuplicateAccount",
    "ErrInvalidAccount": "EInvalidAccount", "ErrTooManyAddresses": "ETooManyAddresses",
    "ErrDuplicateAddress": "EDuplicateAddress", "ErrBlockNotFound": "EBlockNotFound",
    "ErrAddressNotFound": "EAddressNotFound", "ErrBirthdayBlockNotSet": "EBirthdayBlockNotSet",
    "ErrDatabase": "EDatabase", "ErrLocked": "ELocked", "ErrWatchingOnly": "EWatchingOnly", "panic": "EPanic",
}
FATE = {"commit": "Commit", "abort": "AbortCaller", "dryrun": "AbortDryRun", "failcommit": "CommitFails"}
CODES = {1: "model:operation_outcome", 2: "model:running_manager_answers", 3: "model:fresh_manager_answers",
         4: "theorem:divergence_outside_K", 5: "generator:time_out_of_range"}
UNKNOWN = 999999


def nn(x):
    return cN(x if x >= 0 else UNKNOWN)


def r_addr(ref):
    if not ref or len(ref) != 4:
        return "(ImpKey %s)" % cN(UNKNOWN)
    k, a, b, i = ref
    if k == 0:
        return "(Chain %s %s %s)" % (cN(a), cbool(b != 0), cN(i))
    if k == 1:
        return "(ImpKey %s)" % cN(a)
    if k == 2:
        return "(ImpScript %s)" % cN(a)
    return "(ImpKey %s)" % cN(UNKNOWN)


def r_stamp(h, hsh, t):
    return "{| s_height := %s; s_hash := %s; s_time := %s |}" % (cZ(h), nn(hsh), cZ(t))


def r_wo(key, fp, sch):
    sc = "None" if not sch else "(Some (%s, %s))" % (cN(sch[0]), cN(sch[1]))
    return "{| w_key := %s; w_fp := %s; w_schema := %s |}" % (nn(key), cN(fp), sc)


def r_query(q):
    k = q["k"]
    if k == "lookup":
        return "QLookup %s" % r_addr(q["addr"])
    if k == "last":
        return "QLast %s %s" % (cN(q["acct"]), cbool(q["int"]))
    if k == "props":
        return "QProps %s" % cN(q["acct"])
    if k == "lookupname":
        return "QLookupName %s" % nn(q["name"])
    if k == "acctname":
        return "QAcctName %s" % cN(q["acct"])
    if k == "lastacct":
        return "QLastAcct"
    if k == "synced":
        return "QSynced"
    if k == "blockhash":
        return "QBlockHash %s" % cZ(q["h"])
    if k == "birthday":
        return "QBirthday"
    if k == "bdayblock":
        return "QBdayBlock"
    raise ValueError("unknown query " + k)


READS = {"lookup", "last", "props", "lookupname", "acctname", "lastacct", "synced", "blockhash", "birthday", "bdayblock"}
# operations and queries of the root manager: part of every scope's projection of a two-scope history
ROOT = {"setsynced", "setsyncednil", "setbirthday", "setbdayblock", "lock", "unlock", "convert", "synced", "blockhash", "birthday", "bdayblock"}


def r_op(o):
    k = o["k"]
    if k in READS:
        return "ORead (%s)" % r_query(o)
    if k == "newacct":
        return "ONewAccount %s" % nn(o["name"])
    if k == "newacctwo":
        return "ONewAccountWO %s %s" % (nn(o["name"]), r_wo(o["key"], o.get("fp", 0), o.get("sch")))
    if k == "rename":
        return "ORename %s %s" % (cN(o["acct"]), nn(o["name"]))
    if k == "next":
        return "ONext %s %s %s" % (cN(o["acct"]), cbool(o["int"]), cN(o["n"]))
    if k == "extend":
        return "OExtend %s %s %s" % (cN(o["acct"]), cbool(o["int"]), cN(o["n"]))
    if k == "markused":
        return "OMarkUsed %s" % r_addr(o["addr"])
    if k == "setsynced":
        return "OSetSynced %s" % r_stamp(o["h"], o["hash"], o["t"])
    if k == "setsyncednil":
        return "OSetSyncedNil"
    if k == "setbirthday":
        return "OSetBirthday %s" % cZ(o["t"])
    if k == "setbdayblock":
        return "OSetBdayBlock %s %s" % (r_stamp(o["h"], o["hash"], o["t"]), cbool(o["ver"]))
    if k == "impkey":
        bs = "None" if (o["hash"] < 0 and not o["priv"]) else "(Some %s)" % r_stamp(o["h"], o["hash"], o["t"])
        return "OImport (ImpKey %s) %s %s" % (cN(o["key"]), bs, cbool(o["priv"]))
    if k == "impscript":
        return "OImport (ImpScript %s) (Some %s) false" % (cN(o["key"]), r_stamp(o["h"], o["hash"], o["t"]))
    if k == "lock":
        return "OLock"
    if k == "unlock":
        return "OUnlock"
    if k == "invalidate":
        return "OInvalidate %s" % cN(o["acct"])
    if k == "convert":
        return "OConvert"
    raise ValueError("unknown op " + k)


def r_ans(a):
    k = a["k"]
    if k == "err":
        return "AErr %s" % ERR.get(a["err"], "EOther")
    if k == "ok":
        return "AOk"
    if k == "acct":
        return "AAcct %s" % cN(a["acct"])
    if k == "addrs":
        return "AAddrs %s" % clist([r_addr(x) for x in a["addrs"] or []])
    if k == "addr":
        return "AAddr %s %s %s %s %s %s %s" % (r_addr(a["ref"]), cN(a["acct"]), cbool(a["internal"]), cbool(a["imported"]),
                                               cbool(a["used"]), cN(a.get("ty", 0)), cN(a.get("fp", 0)))
    if k == "last":
        return "ALast %s %s %s" % (r_addr(a["ref"]), cN(a.get("ty", 0)), cN(a.get("fp", 0)))
    if k == "props":
        # an imported account reports one of the xpubs the harness imported (key >= 0)
        imported = a.get("key", -1) >= 0
        kind = "(Some %s)" % r_wo(a["key"], a.get("fp", 0), a.get("sch")) if imported else "None"
        if not imported and (a.get("fp", 0) or a.get("sch")):
            kind = "(Some %s)" % r_wo(UNKNOWN, a.get("fp", 0), a.get("sch"))     # never what the model says
        return "AProps %s %s %s %s %s %s" % (nn(a["name"]), cN(a["ext"]), cN(a["intn"]), cN(a["imp"]), kind, cbool(a.get("wo", False)))
    if k == "name":
        return "AName %s" % nn(a["name"])
    if k == "stamp":
        return "AStamp %s" % r_stamp(a["h"], a["hash"], a["t"])
    if k == "hash":
        return "AHash %s" % nn(a["hash"])
    if k == "time":
        return "ATime %s" % cZ(a["t"])
    if k == "bday":
        return "ABday %s %s" % (r_stamp(a["h"], a["hash"], a["t"]), cbool(a["ver"]))
    raise ValueError("unknown answer " + k)


def r_qas(qas):
    qs = clist([r_query(e["q"]) for e in qas])
    rs = clist([r_ans(e["r"]) for e in qas])
    fs = clist([r_ans(e["f"] if e.get("f") else e["r"]) for e in qas])
    return qs, rs, fs


def r_out(a):
    # an outcome the wallet API does not let the harness see
    return "None" if a["k"] == "any" else "(Some (%s))" % r_ans(a)


def nscopes(c):
    return 2 if c["in"].get("scope2") else 1


def r_case(c, s=0):
    """the history as scope number s of the manager sees it: the operations and queries that address
    this scope, and the root manager's (sync state, birthday, lock)"""
    i, o = c["in"], c["obs"]
    mine = lambda x: x["k"] in ROOT or x.get("sc", 0) == s      # noqa: E731
    q0, r0, f0 = r_qas([e for e in o["q0"] or [] if mine(e["q"])])
    txs = []
    for t, to in zip(i["txs"], o["txs"]):
        qs, rs, fs = r_qas([e for e in to["q"] or [] if mine(e["q"])])
        keep = [(x, a) for x, a in zip(t["ops"] or [], to["outs"] or []) if mine(x)]
        txs.append("\n   ({| tx_ops := %s; tx_fate := %s; tx_queries := %s |},\n    {| to_outs := %s; to_run := %s; to_fresh := %s |})" % (
            clist([r_op(x) for x, _ in keep]), FATE[t["fate"]], qs,
            clist([r_out(a) for _, a in keep]), rs, fs))
    sch = o["init"]["sch2" if s == 1 else "sch"]
    return ("{| tc_schema := (%s, %s); tc_genesis_time := %s; tc_birthday := %s;\n  tc_q0 := %s; tc_q0_run := %s; tc_q0_fresh := %s;\n  tc_txs := %s |}" % (
        cN(sch[0]), cN(sch[1]), cZ(o["init"]["t"]), cZ(o["init"]["birthday"]), q0, r0, f0, clist(txs)))


class KindAt(str):
    """A violation kind that remembers its site (Check.shrink only receives the kind)."""
    def __new__(cls, kind, site):
        o = str.__new__(cls, kind)
        o.site = site
        return o


class C08(Check):
    ID = "C08"
    N_QUICK = 100
    N_THOROUGH = 2500
    SHARD = 12
    RULE = ("real waddrmgr (Create with FastScryptOptions, scopes BIP0084/BIP0044) on a real bbolt file behind "
            "harness/internal/abortdb; ~150 systematic histories (every write operation alone in an aborted / dry-run / failed-commit "
            "transaction, cold and warm caches, followed by a committed issuance; same-transaction patterns; imported xpub accounts "
            "- NewAccountWatchingOnly with/without fingerprint and address-schema override - cached, used, renamed, EXTENDED (cold, warm, "
            "locked, rolled back), number reuse; the LOCKED manager: issuance / extension / last-address queries / refused operations / "
            "lock inside a rolled-back transaction / Unlock re-loading evicted accounts; ConvertToWatchingOnly: after different numbers of "
            "receiving and change addresses, with imported accounts / keys / scripts, while locked, after an eviction, rolled back by every fate, "
            "followed by issuance, extension, rename and what the converted manager refuses; InvalidateAccountCache: what "
            "wallet.ImportAccountDryRun does to the manager with and without its eviction, eviction curing an eager update, evict-and-reload "
            "inside a rolled-back transaction; two key scopes of one manager in one transaction); 12 (thorough 150) histories through the real "
            "wallet.Wallet on a funded wallet: NewAddress, NewChangeAddress, CreateSimpleTx, CreateSimpleTx(dryRun=true), ImportAccount, "
            "ImportAccountDryRun, issuance from imported accounts, Wallet.InitAccounts(watchOnly) = the wallet's ConvertToWatchingOnly call site; random histories of 3-8 (thorough 3-12) transactions x 1-3 operations, "
            "fate commit/caller abort/ErrDryRunRollBack/failed commit, three generator modes (wild; aborted transactions hold only "
            "issuance+reads = the dry-run scenario; aborted transactions hold only operations without eager memory updates); half of the "
            "random histories import xpub accounts (5 xpubs per scope derived in the harness from other seeds, each imported at most once), "
            "a third lock/unlock the manager between and inside transactions, a fifth convert it to watching-only, a sixth address two key scopes, all may evict accounts. After "
            "EVERY transaction the file is copied (DB.Copy), opened with a fresh waddrmgr.Open BROUGHT TO THE LOCK STATE OF THE RUNNING "
            "MANAGER, and both managers answer: AccountProperties/AccountName/LastExternal/LastInternalAddress for every account and the next "
            "unused number, the imported account, LookupAccount for every name, LastAccount, Address()+Used() for every address issued by a "
            "committed transaction, the last derived and the next 3 unissued indices per branch, all import candidates, SyncedTo, Birthday, "
            "BirthdayBlock, BlockHash for recent heights - per scope. Compared with the Coq model: per-operation outcomes (either of two "
            "failing guards accepted) and both answer columns, incl. IsWatchOnly / imported xpub / MasterKeyFingerprint / AddrSchema of an "
            "account and AddrType + DerivationInfo fingerprint of every address and last address; compared between running and restarted manager "
            "in addition: the full DerivationInfo (scope, InternalAccount, Account, Branch, Index) and the PubKey bytes. running vs restarted = the "
            "oracle. non-trivial = history holds a rolled-back transaction with a write operation AND a later committed transaction; distinct by input")
    ASSUMPTIONS = ["the manager starts as an ordinary one and may be converted (ConvertToWatchingOnly); accounts are default or imported-xpub "
                   "(watch-only) accounts; Lock/Unlock (right passphrase) are in the alphabet; ChangePassphrase and NewScopedKeyManager are "
                   "not (the first changes nothing the queries report but which passphrase opens/unlocks the manager - the harness would have "
                   "to follow two passphrases per history through rolled-back changes, C10/C05 own that; the second adds a component the "
                   "one-scope model has no state for)",
                   "two key scopes of one manager are checked by running the one-scope model once per scope on the operations of that "
                   "scope plus the root manager's (sync state, birthday, lock state): scoped managers share no cache; in two-scope "
                   "histories no import moves the (shared) start block",
                   "a chained address is identified with (account number, branch, index): with imported accounts a rolled-back "
                   "transaction never reads an account it has just created unless it evicts it again (a later account could reuse the "
                   "number with another key), and an xpub is imported at most once per history and scope",
                   "an OnCommit closure finds its account entry by number when it runs (Go: by pointer): no generated committed "
                   "transaction evicts an account after issuing from it (such transactions are counted into K)",
                   "block time stamps handed to SetSyncedTo lie in [0, 2^32) seconds (the database keeps 32 bits)",
                   "heights/indices far below the int32/uint32 limits; fault-free database (write faults are C10)",
                   "addresses are identified with their derivation path through a table derived in the harness with hdkeychain",
                   "model parameters (Generated/AddrCache.v, regenerated from waddrmgr/scoped_manager.go by lib/extract_c08.py): "
                   "next_caches_read_back, extend_updates_memory_eagerly, rename_updates_memory_eagerly; the theorems hold for all eight "
                   "values, so repairing S10/S11 (memory update moved into an OnCommit closure) changes a parameter, not an obligation; "
                   "the harness measures the three on the built code at start-up and the check FAILS if they differ from the generated ones",
                   "three transcribed assumptions (indices only in the registered OnCommit closure of nextAddresses; RenameAccount treats "
                   "both row kinds alike; extendAddresses records the master-key fingerprint) are regenerated too and obliged to be true "
                   "(C08_model_assumptions_hold_in_source); when the source shape is not recognised all facts are determined by "
                   "running the built code on their witness scenarios (harness/cmd/extract-c08); evidence field facts_source says "
                   "which path ran"]
    PARTIAL_CLAUSES = ["the equivalence is proved for histories outside the trigger pattern K (in_K of coq/Addr/MemDisk.v); inside K it is "
                       "refuted by witnesses (C08_refuted_at_K) and the run reports the divergences as findings",
                       "'the next committed request issues the very address a restarted wallet would issue' is proved outside K_idx "
                       "(aborted eager extend, an account loaded from a row the aborted transaction changed and not evicted again, "
                       "eager extend after next-addresses in one committed transaction) and refuted by witnesses inside"]

    def nontrivial(self, c):
        seen_abort_write = False
        for t in c["in"]["txs"]:
            if t["fate"] != "commit":
                if any(o["k"] not in READS for o in t["ops"] or []):
                    seen_abort_write = True
            elif seen_abort_write:
                return True
        return False

    def oracle_kinds(self, case):
        out = []
        for f in case.get("findings") or []:
            out.append((KindAt(f["kind"], f["site"]), f["site"]))
        for k in case.get("oracle") or []:
            if "@" not in k:
                out.append((k, "model"))
        return out

    def sample(self, c):
        return dict(history=c["in"], oracle=c["oracle"], tags=c.get("tags"),
                    last_boundary=[dict(q=e["q"]["k"], r=e["r"]["k"]) for e in (c["obs"]["txs"][-1]["q"] if c["obs"]["txs"] else [])][:6])

    def shrink(self, case, kind):
        # cut the history after the transaction at which this divergence first showed
        site = getattr(kind, "site", None)
        for f in case.get("findings") or []:
            if f["kind"] == kind and f["tx"] >= 0 and site in (None, f["site"]):
                c2 = dict(case)
                c2["in"] = dict(case["in"], txs=case["in"]["txs"][:f["tx"] + 1])
                c2["obs"] = dict(case["obs"], txs=case["obs"]["txs"][:f["tx"] + 1])
                c2["findings"] = [g for g in case["findings"] if g["tx"] <= f["tx"]]
                return c2
        return case

    def render_cases(self, cases):
        # one model case per (history, scope)
        return """From stdpp Require Import gmap list numbers.
From Coq Require Import ZArith NArith.
From Verif Require Import Addr.MemDisk Addr.MemDiskCorr.
Definition cases : list tcase :=
%s.
Definition bad := Eval vm_compute in failures cases.
Print bad.
""" % clist(["\n " + r_case(c, s) for c in cases for s in range(nscopes(c))])

    def evaluate_model(self, cases):
        import concurrent.futures as cf
        mism, logs, problems = [], "", []
        shards = [(s, cases[s:s + self.SHARD]) for s in range(0, len(cases), self.SHARD)]

        def run(sh):
            start, chunk = sh
            return start, coq_eval(self.ID, self.render_cases(chunk), "cases_%d" % start)
        with cf.ThreadPoolExecutor(max_workers=12) as ex:
            results = list(ex.map(run, shards))
        detail = {}
        for start, (rc, out, err) in results:
            if rc != 0:
                problems.append("correspondence: cases file does not evaluate: " + (err or out)[-1500:])
                continue
            printed = parse_printed(out, "bad")
            if printed is None:
                problems.append("correspondence: could not parse model output: " + out[-500:])
                continue
            nums = [int(x) for x in re.findall(r"\d+", printed)]
            owner = [start + k for k, c in enumerate(cases[start:start + self.SHARD]) for _ in range(nscopes(c))]
            for j in range(0, len(nums) - 2, 3):
                detail.setdefault(owner[nums[j]], []).append((nums[j + 1], nums[j + 2]))
        for ci, fl in sorted(detail.items()):
            c = cases[ci]
            c["model_failures"] = [dict(tx=t - 1, what=CODES.get(code, str(code))) for t, code in fl[:8]]
            mism.append(ci)
            if any(code == 4 for _, code in fl):
                # the implementation diverges on a history the theorem covers
                k = "mem_disk_divergence:outside_K"
                if k not in c["oracle"]:
                    c["oracle"].append(k)
            if any(code == 5 for _, code in fl):
                problems.append("generator produced an inadmissible case (index %d)" % ci)
        problems.extend(self.harness_problems(cases))
        return mism, logs, problems

    # harness tag -> regenerated fact of coq/Generated/AddrCache.v that must say the same
    PROBED = {"read_back_cached": "next_caches_read_back", "extend_eager": "extend_updates_memory_eagerly",
              "rename_eager": "rename_updates_memory_eagerly"}

    def harness_problems(self, cases):
        """Conditions under which the run cannot vouch for the tie between model and code.  They FAIL the
        check (a `problems` entry = broken obligation), they are never just a tag:
          - anything a case reports in its `problems` field (e.g. a wallet call of a generated history failed,
            so the history no longer describes what ran);
          - the harness measured at start-up, on the built code, WHEN issuance / extension / rename touch memory;
            the model takes the same facts from Generated/AddrCache.v.  If they disagree the model describes
            other code than the one that ran."""
        out = []
        for c in cases:
            for p in c.get("problems") or []:
                if p not in out:
                    out.append(p)
        facts = self.facts_source()["regenerated_facts"]
        for tagname, fact in self.PROBED.items():
            seen = {t[len(tagname) + 1:] for c in cases for t in c.get("tags", []) if t.startswith(tagname + "_")}
            if not cases:
                continue
            if len(seen) != 1 or fact not in facts or seen != {facts[fact]}:
                out.append("model no longer follows the code: the harness measured %s=%s on the built code, "
                           "coq/Generated/AddrCache.v says %s=%s" % (tagname, "/".join(sorted(seen)) or "?", fact, facts.get(fact, "?")))
        return ["harness: " + p for p in out]

    def explained_by_known(self, case):
        # the model follows the code also inside K: a model/implementation
        # mismatch is never explained by a known finding
        return False

    def facts_source(self):
        # which path of lib/extract_c08.py produced the regenerated facts of this run
        src, detail, facts = "unknown", "", {}
        try:
            txt = open(os.path.join(COQ, "Generated", "AddrCache.v")).read()
            m = re.search(r"\(\* facts source: (\w+)(.*?)\*\)", txt, re.S)
            if m:
                src, detail = m.group(1), re.sub(r"\s+", " ", m.group(2)).strip()
            facts = dict(re.findall(r"Definition (\w+) : bool := (true|false)\.", txt))
        except OSError:
            pass
        return dict(facts_source=src, facts_source_detail=detail, regenerated_facts=facts)

    def extra_coverage(self, cases):
        k = sum(1 for c in cases if "in_K" in c.get("tags", []))
        return dict(self.facts_source(), K="in_K P (coq/Addr/MemDisk.v): an aborted transaction holding set-synced-to / set-birthday / import, "
                      "or (while eager in the source) rename / extend / next-addresses, or one that changed account rows (new account, "
                      "deferred rename, eviction) and then loaded an account it did not evict again, or looked an address up after that or "
                      "after writing address rows; a committed transaction holding an eager extend after next-addresses on the same account "
                      "and branch, SetSyncedTo(nil), or the eviction of an account with a pending closure",
                    wallet_api_histories=sum(1 for c in cases if c["in"].get("wallet")),
                    histories_in_K=k, histories_outside_K=len(cases) - k,
                    histories_outside_K_with_divergence=sum(1 for c in cases if "outside_K" in c.get("tags", []) and c.get("oracle")),
                    boundaries=sum(len(c["obs"]["txs"]) + 1 for c in cases),
                    boundary_queries=sum(sum(len(t["q"] or []) for t in c["obs"]["txs"]) + len(c["obs"]["q0"] or []) for c in cases))


CHECK = C08
