from vlib import *


ERR = {"ErrTxNotWritable": "ETxNotWritable", "BoltErrTxNotWritable": "EBoltTxNotWritable",
       "ErrBucketNotFound": "EBucketNotFound", "ErrBucketExists": "EBucketExists",
       "ErrBucketNameRequired": "EBucketNameRequired", "ErrKeyRequired": "EKeyRequired",
       "ErrKeyTooLarge": "EKeyTooLarge", "ErrIncompatibleValue": "EIncompatibleValue"}
KIND = {"update-ok": "(KUpdate OOk)", "update-err": "(KUpdate OErr)", "update-panic": "(KUpdate OPanic)",
        "view-ok": "(KView OOk)", "view-err": "(KView OErr)", "view-panic": "(KView OPanic)",
        "manual-commit": "(KManual true)", "manual-rollback": "(KManual false)", "manual-read": "KManualRead"}
RET = {"nil": "(Some OOk)", "err": "(Some OErr)", "panic": "(Some OPanic)"}
MUTATING = ("put", "del", "mk", "mkif", "rm", "setseq", "nextseq")


class Unrepresentable(Exception):
    pass


class Interner:
    """byte strings of a shard are defined once and referred to by name"""

    def __init__(self):
        self.names, self.defs = {}, []

    def b(self, h):
        if h == "":
            return "[]"
        n = self.names.get(h)
        if n is None:
            n = "b%d" % len(self.names)
            self.names[h] = n
            raw = bytes.fromhex(h)
            if len(raw) > 400 and len(set(raw)) == 1:
                lit = "repeat %d %d%%nat" % (raw[0], len(raw))
            else:
                # long literals are split: the parser's stack is limited
                lit = " ++ ".join("[%s]" % "; ".join(str(x) for x in raw[i:i + 400]) for i in range(0, len(raw), 400))
            self.defs.append("Definition %s : bytes := %s." % (n, lit))
        return n

    def v(self, h):
        return "None" if h is None else "(Some %s)" % self.b(h)


def err(e):
    if e == "nil":
        return "None"
    if e not in ERR:
        raise Unrepresentable(e)
    return "(Some %s)" % ERR[e]


class C11(Check):
    ID = "C11"
    RULE = ("random cases of 3..12 steps on a fresh bbolt file through walletdb+bdb: managed Update/View whose closure returns nil, "
            "returns an error or panics after its operations, manual Begin/Commit/Rollback, a reader overlapping a writer, close+reopen; "
            "bodies of 1..14 calls (Put/Get/Delete/CreateBucket(IfNotExists)/DeleteNestedBucket/Nested*/ForEach/Sequence ops/cursor walks "
            "incl. delete-then-reposition, top-level bucket calls) on bucket paths of depth <= 4 with keys from a pool of 0x00/0xff-prefixed, "
            "mutually-prefix and existing names, nil/empty/long values, re-created buckets, read-only write attempts, one multi-page bucket; "
            "whole tree dumped after every step. non-trivial = at least 2 steps and one successful mutation; distinct by input")
    N_QUICK = 220
    N_THOROUGH = 3000
    SHARD = 75
    WORKERS = 6
    PARTIAL_CLAUSES = [
        "crash atomicity and durability of the file (a committed transaction survives, a torn one does not) is bbolt's and trusted: "
        "the model's reopen is the identity on the committed tree; the check only exercises clean close+reopen",
        "cursor semantics after Cursor.Delete without re-positioning, and Prev/Last over a multi-page bucket that had deletions in the "
        "same transaction, are outside the compared patterns (bbolt's Prev stops at an emptied leaf page: reported finding)",
    ]
    ASSUMPTIONS = ["bucket handles are re-resolved by path before every call (no use of a handle to a deleted bucket)",
                   "single goroutine: blocking of a second writer is modelled by the writer flag only"]

    def gen_args(self, tier, seed):
        args = Check.gen_args(self, tier, seed)
        # VERIF_C11_PROBE=1 adds the backward walk over a leaf page emptied in the
        # same transaction (bbolt's Prev stops early: reported finding; kind
        # cursor_order_wrong at site bbolt/cursor.prev).  Off by default.
        if os.environ.get("VERIF_C11_PROBE") == "1":
            args[0].append("-probe-emptyleaf")
        return args

    def nontrivial(self, c):
        steps = c["in"]["steps"]
        if len(steps) < 2:
            return False
        for st, ob in zip(steps, c["obs"]["steps"]):
            if st["t"] == "reopen" or st["kind"].startswith("view") or st["kind"] == "manual-read":
                continue
            for o, r in zip(st.get("ops", []), ob.get("res", [])):
                if o["o"] in MUTATING and r.get("e") == "nil":
                    return True
        return False

    def sample(self, c):
        # evidence samples: keep them small
        s = dict(c)
        s["in"] = {"steps": c["in"]["steps"][:3]}
        s["obs"] = {"steps": c["obs"]["steps"][:3]}
        if len(json.dumps(s)) > 20000:
            s = {"tags": c.get("tags"), "oracle": c.get("oracle"), "steps": len(c["in"]["steps"]),
                 "note": "sample too large to inline"}
        return s

    # -- shards are evaluated in parallel (coqc is single-threaded) -----------
    def evaluate_model(self, cases):
        from concurrent.futures import ThreadPoolExecutor
        starts = list(range(0, len(cases), self.SHARD))

        def one(start):
            text = self.render_cases(cases[start:start + self.SHARD])
            return start, coq_eval(self.ID, text, "cases_%d" % start)
        mism, logs, problems = [], "", []
        with ThreadPoolExecutor(max_workers=self.WORKERS) as ex:
            for start, (rc, out, err) in ex.map(one, starts):
                logs += out[-2000:] + err[-2000:]
                if rc != 0:
                    problems.append("correspondence: cases file does not evaluate: " + err[-1500:])
                    continue
                bad = parse_nat_list(parse_printed(out, "bad"))
                if bad is None:
                    problems.append("correspondence: could not parse model output: " + out[-500:])
                    continue
                mism.extend(start + b for b in bad)
        return sorted(mism), logs, problems

    # -- shrinking: drop steps while the harness still reports the same
    #    violation kind on the replayed input ---------------------------------
    def shrink(self, case, kind):
        budget = [40]
        t_end = time.time() + 50      # a replay of a blocking input costs one step deadline

        def still(inp):
            if budget[0] <= 0 or not inp["steps"] or time.time() > t_end:
                return None
            budget[0] -= 1
            p = os.path.join(WORK, "shrink_%s_%d.jsonl" % (self.ID, os.getpid()))
            with open(p, "w") as f:
                f.write(json.dumps({"in": inp}) + "\n")
            try:
                rc, cs, _ = run_vh([self.vh_cmd(), "-replay", p], timeout=120)
            except Exception:
                return None
            finally:
                try:
                    os.remove(p)
                except OSError:
                    pass
            if rc == 0 and cs and kind in cs[0].get("oracle", []):
                return cs[0]
            return None
        best = case
        steps = list(case["in"]["steps"])
        changed = True
        while changed and budget[0] > 0:
            changed = False
            for cand in ([steps[:len(steps) // 2], steps[:-1]] +
                         [steps[:i] + steps[i + 1:] for i in range(len(steps))]):
                if len(cand) >= len(steps):
                    continue
                r = still({"steps": cand})
                if r is not None:
                    best, steps, changed = r, cand, True
                    break
        return best

    # -- rendering ----------------------------------------------------------
    def r_tree(self, I, t):
        ents = []
        for e in t["ents"]:
            if e.get("b") is not None:
                ents.append("(%s, inr %s)" % (I.b(e["k"]), self.r_tree(I, e["b"])))
            else:
                ents.append("(%s, inl %s)" % (I.b(e["k"]), I.v(e.get("v"))))
        return "(Bkt %s %s)" % (cN(t["seq"]), clist(ents))

    def r_op(self, I, o):
        k = lambda: I.b(o["k"])
        t = o["o"]
        if t == "put":
            b = "(Put %s %s)" % (k(), I.v(o.get("v")))
        elif t == "cursor":
            cs = []
            for c in o.get("cs", []):
                cs.append({"first": "CFirst", "last": "CLast", "next": "CNext", "prev": "CPrev", "delete": "CDelete"}.get(c["c"])
                          or "(CSeek %s)" % I.b(c["k"]))
            b = "(Cursor %s)" % clist(cs)
        elif t == "setseq":
            b = "(SetSequence %s)" % cN(o.get("n", 0))
        else:
            b = {"get": "(Get %s)", "del": "(Delete %s)", "mk": "(CreateBucket %s)", "mkif": "(CreateBucketIfNotExists %s)",
                 "rm": "(DeleteNested %s)", "nested": "(Nested %s)"}.get(t)
            if b is not None:
                b = b % k()
            else:
                b = {"foreach": "ForEach", "seq": "Sequence", "nextseq": "NextSequence", "dump": "Dump"}[t]
        return "(%s, %s)" % (clist([I.b(x) for x in o["p"]]), b)

    def r_res(self, I, r):
        t = r["t"]
        if t == "err":
            return "(RErr %s)" % err(r["e"])
        if t == "val":
            return "(RVal %s)" % I.v(r.get("v"))
        if t == "bool":
            return "(RBool %s)" % cbool(r.get("b", False))
        if t == "ents":
            return "(REnts %s)" % clist(["(%s, %s)" % (I.b(k), I.v(v)) for k, v in r.get("l", [])])
        if t == "num":
            return "(RNum %s)" % cN(r.get("n", 0))
        if t == "numerr":
            return "(RNumErr %s %s)" % (cN(r.get("n", 0)), err(r["e"]))
        if t == "cur":
            out = []
            for c in r.get("c", []):
                if c.get("e") is not None:
                    out.append("(CErr %s)" % err(c["e"]))
                elif c.get("kv") is not None:
                    out.append("(CKV (Some (%s, %s)))" % (I.b(c["kv"][0]), I.v(c["kv"][1])))
                else:
                    out.append("(CKV None)")
            return "(RCur %s)" % clist(out)
        if t == "tree":
            return "(RTree %s)" % self.r_tree(I, r["tree"])
        if t == "nobucket":
            return "RNoBucket"
        raise Unrepresentable(t)

    def r_ops(self, I, ops, res):
        if len(ops) != len(res):
            raise Unrepresentable("length")
        return clist(["(%s, %s)" % (self.r_op(I, o), self.r_res(I, r)) for o, r in zip(ops, res)])

    def r_case(self, I, c):
        steps = []
        for st, ob in zip(c["in"]["steps"], c["obs"]["steps"]):
            post = self.r_tree(I, ob["post"])
            ret = RET.get(ob.get("ret", ""), "None")
            if st["t"] == "reopen":
                steps.append("SReopen %s" % post)
            elif st["t"] == "tx":
                steps.append("STx %s %s %s %s" % (KIND[st["kind"]], self.r_ops(I, st.get("ops", []), ob.get("res", [])), ret, post))
            else:
                steps.append("SOverlap %s %s %s %s %s %s" % (
                    self.r_ops(I, st.get("before", []), ob.get("before", [])), KIND[st["kind"]],
                    self.r_ops(I, st.get("ops", []), ob.get("res", [])), ret,
                    self.r_ops(I, st.get("after", []), ob.get("after", [])), post))
        if len(c["in"]["steps"]) != len(c["obs"]["steps"]):
            raise Unrepresentable("steps")
        return clist(["\n  " + s for s in steps])

    def render_cases(self, cases):
        I = Interner()
        rows = []
        for c in cases:
            try:
                rows.append(self.r_case(I, c))
            except (Unrepresentable, KeyError):
                # an observation the model has no value for (unknown error
                # class, ...): a case that cannot match (initial sequence is 0)
                rows.append("[SReopen (Bkt 1 [])]")
        return """From Verif Require Import Base.Prelude KV.KV KV.KVCorr.
Local Open Scope N_scope.
%s
Definition cases : list (list step) :=
%s.
Definition bad := Eval vm_compute in mismatches cases.
Print bad.
""" % ("\n".join(I.defs), clist(["\n " + r for r in rows]))


CHECK = C11
