from vlib import *


ERR = {"ErrTxNotWritable": "ETxNotWritable", "BoltErrTxNotWritable": "EBoltTxNotWritable",
       "ErrBucketNotFound": "EBucketNotFound", "ErrBucketExists": "EBucketExists",
       "ErrBucketNameRequired": "EBucketNameRequired", "ErrKeyRequired": "EKeyRequired",
       "ErrKeyTooLarge": "EKeyTooLarge", "ErrIncompatibleValue": "EIncompatibleValue"}
KIND = {"update-ok": "(KUpdate OOk)", "update-err": "(KUpdate OErr)", "update-panic": "(KUpdate OPanic)",
        "view-ok": "(KView OOk)", "view-err": "(KView OErr)", "view-panic": "(KView OPanic)",
        "manual-commit": "(KManual true)", "manual-rollback": "(KManual false)", "manual-read": "KManualRead"}
BATCH = {"batch-ok": "OOk", "batch-err": "OErr", "batch-panic": "OPanic"}
END = {"ok": "OOk", "err": "OErr", "panic": "OPanic"}


def kind(st, ob):
    k = st["kind"]
    if k in BATCH:
        # the closure ran runs times: runs-1 attempts rolled back by bbolt before the one that decided
        return "(KBatch %s %d%%nat)" % (BATCH[k], max(int(ob.get("runs", 1)) - 1, 0))
    return KIND[k]
RET = {"nil": "(Some OOk)", "err": "(Some OErr)", "panic": "(Some OPanic)"}
MUTATING = ("put", "del", "mk", "mkif", "rm", "setseq", "nextseq")


class Unrepresentable(Exception):
    pass


class Interner:
    """byte strings and buckets of a shard are defined once and referred to by name"""

    def __init__(self):
        self.names, self.defs, self.trees = {}, [], {}

    def b(self, h):
        if h == "":
            return "[]"
        n = self.names.get(h)
        if n is None:
            n = "b%d" % len(self.names)
            self.names[h] = n
            raw = bytes.fromhex(h)
            if len(raw) > 400 and len(set(raw)) == 1:
                lit = "repeat %d%%N %d%%nat" % (raw[0], len(raw))
            else:
                # seven bytes per native 63-bit literal (KVCorr.bx)
                pad = raw + b"\0" * (-len(raw) % 7)
                ws = ["0x%s" % pad[i:i + 7].hex() for i in range(0, len(pad), 7)]
                lit = "bx %d [%s]" % (len(raw), "; ".join(ws))
            self.defs.append("Definition %s : bytes := %s." % (n, lit))
        return n

    def v(self, h):
        return "None" if h is None else "(Some %s)" % self.b(h)

    def t(self, text):
        """a bucket literal (already rendered with names for its parts)"""
        n = self.trees.get(text)
        if n is None:
            n = "t%d" % len(self.trees)
            self.trees[text] = n
            self.defs.append("Definition %s : bkt := %s." % (n, text))
        return n


def err(e):
    if e == "nil":
        return "None"
    if e not in ERR:
        raise Unrepresentable(e)
    return "(Some %s)" % ERR[e]


class C11(Check):
    ID = "C11"
    RULE = ("random cases of 3..12 steps on a fresh bbolt file through walletdb+bdb (4 cases at a time, own random streams per case): managed "
            "Update/View/Batch whose closure returns nil, returns an error (a private one, or the walletdb error of its last failing call) or "
            "panics after its operations, manual Begin/Commit/Rollback, a reader overlapping a writer, 2..6 goroutines released together into "
            "walletdb.Update or walletdb.Batch with closures on one shared bucket (a third of them failing or panicking), close+reopen; "
            "bodies of 1..14 calls (Put/Get/Delete/CreateBucket(IfNotExists)/DeleteNestedBucket/Nested*/ForEach/Sequence ops/cursor walks "
            "incl. delete-then-reposition, top-level bucket calls) on bucket paths of depth <= 4 with keys from a pool of 0x00/0xff-prefixed, "
            "mutually-prefix and existing names, nil/empty/long values, re-created buckets, read-only write attempts, one multi-page bucket; "
            "whole tree dumped and bbolt's count of open read transactions read after every step; after a step that leaves a read "
            "transaction open, Close under a 1.5 s deadline. non-trivial = at least 2 steps and one successful mutation; distinct by input")
    N_QUICK = 220
    N_THOROUGH = 3000
    SHARD = 40
    WORKERS = 6
    PARTIAL_CLAUSES = [
        "crash atomicity and durability of the file (a committed transaction survives, a torn one does not) is bbolt's and trusted: "
        "the model's reopen is the identity on the committed tree; the check only exercises clean close+reopen",
        "cursor semantics after Cursor.Delete without re-positioning, and Prev/Last over a multi-page bucket that had deletions in the "
        "same transaction, are outside the compared patterns (bbolt's Prev stops at an emptied leaf page: reported finding)",
        "concurrent callers: the theorem (every interleaving admitted by the single-writer lock is a serial run) is about the model's "
        "writer flag; that bbolt's lock IS such a lock, and that bbolt's Batch runs the closures of one batch one after the other in "
        "one transaction, is exercised (serialisability oracle on what the closures saw), not proved",
        "the control-flow skeleton of Update/View (Generated/TxFlow.v) is read from the source by symbolic execution of every path and "
        "confirmed by a behavioural probe; that of Batch comes from the probe alone (bbolt.Batch is outside the repository)",
    ]
    ASSUMPTIONS = ["bucket handles are re-resolved by path before every call (no use of a handle to a deleted bucket)",
                   "tx.Commit / tx.Rollback themselves succeed (the skeleton says which one is called, not what a failing commit does)",
                   "closures of concurrent callers do not put nil values (closures of one bbolt batch share a transaction, in which a "
                   "nil value reads back as nil until the commit)"]

    def gen_args(self, tier, seed):
        args = Check.gen_args(self, tier, seed)
        # VERIF_C11_PROBE=1 adds the backward walk over a leaf page emptied in the
        # same transaction (bbolt's Prev stops early: reported finding; kind
        # cursor_order_wrong at site bbolt/cursor.prev).  Off by default.
        if os.environ.get("VERIF_C11_PROBE") == "1":
            args[0].append("-probe-emptyleaf")
        return args

    def nontrivial(self, c):
        steps = c["in"]["steps"]
        if len(steps) < 2:
            return False
        for st, ob in zip(steps, c["obs"]["steps"]):
            if st["t"] == "conc":
                for cl, co in zip(st.get("calls", []), ob.get("calls", [])):
                    for o, r in zip(cl.get("ops", [])[2:], co.get("res", [])[2:]):
                        if cl["end"] == "ok" and o["o"] in MUTATING and r.get("e") == "nil":
                            return True
                continue
            if st["t"] == "reopen" or st["kind"].startswith("view") or st["kind"] == "manual-read":
                continue
            for o, r in zip(st.get("ops", []), ob.get("res", [])):
                if o["o"] in MUTATING and r.get("e") == "nil":
                    return True
        return False

    def sample(self, c):
        # evidence samples: keep them small
        s = dict(c)
        s["in"] = {"steps": c["in"]["steps"][:3]}
        s["obs"] = {"steps": c["obs"]["steps"][:3]}
        if len(json.dumps(s)) > 20000:
            s = {"tags": c.get("tags"), "oracle": c.get("oracle"), "steps": len(c["in"]["steps"]),
                 "note": "sample too large to inline"}
        return s

    # -- shards are evaluated in parallel (coqc is single-threaded) -----------
    def evaluate_model(self, cases):
        from concurrent.futures import ThreadPoolExecutor
        starts = list(range(0, len(cases), self.SHARD))

        def one(start):
            text = self.render_cases(cases[start:start + self.SHARD])
            return start, coq_eval(self.ID, text, "cases_%d" % start)
        mism, logs, problems = [], "", []
        self.drift = []
        with ThreadPoolExecutor(max_workers=self.WORKERS) as ex:
            for start, (rc, out, err) in ex.map(one, starts):
                logs += out[-2000:] + err[-2000:]
                if rc != 0:
                    problems.append("correspondence: cases file does not evaluate: " + err[-1500:])
                    continue
                bad = parse_nat_list(parse_printed(out, "bad"))
                drift = parse_nat_list(parse_printed(out, "drift"))
                if bad is None or drift is None:
                    problems.append("correspondence: could not parse model output: " + out[-500:])
                    continue
                mism.extend(start + b for b in bad)
                self.drift.extend(start + b for b in drift)
        return sorted(mism), logs, problems

    def extra_coverage(self, cases):
        """drift = cases on which everything the theorems speak about agrees but a corner behaviour of bbolt itself
        (error class of DeleteNestedBucket for an unbound / empty name, error class and number of NextSequence /
        SetSequence on a read-only transaction, cursor position after running off the end) differs from the model:
        counted, never raised.  closed_db:* = what Update / View / Batch answer on a closed handle (the property is
        silent; Batch hands out bbolt's unconverted error)."""
        cov = {"drift_cases": len(getattr(self, "drift", [])),
               "drift_samples": [self.sample(cases[i]) for i in getattr(self, "drift", [])[:2]]}
        try:
            txt = open(os.path.join(COQ, "Generated", "TxFlow.v")).read()
            m = re.search(r"\(\* facts source: (.*?) \*\)", txt, re.S)
            cov["facts_source"] = re.sub(r"\s+", " ", m.group(1)) if m else "unknown"
        except OSError:
            cov["facts_source"] = "missing"
        closed = {}
        for c in cases:
            for tg in c.get("tags", []):
                if tg.startswith("closed_db:"):
                    closed[tg] = closed.get(tg, 0) + 1
        cov["closed_db_answers"] = closed
        return cov

    # -- shrinking: drop steps while the harness still reports the same
    #    violation kind on the replayed input ---------------------------------
    def shrink(self, case, kind):
        budget = [40]
        t_end = time.time() + 50      # a replay of a blocking input costs one step deadline

        def still(inp):
            if budget[0] <= 0 or not inp["steps"] or time.time() > t_end:
                return None
            budget[0] -= 1
            p = os.path.join(WORK, "shrink_%s_%d.jsonl" % (self.ID, os.getpid()))
            with open(p, "w") as f:
                f.write(json.dumps({"in": inp}) + "\n")
            try:
                rc, cs, _ = run_vh([self.vh_cmd(), "-replay", p], timeout=120)
            except Exception:
                return None
            finally:
                try:
                    os.remove(p)
                except OSError:
                    pass
            if rc == 0 and cs and kind in cs[0].get("oracle", []):
                return cs[0]
            return None
        best = case
        steps = list(case["in"]["steps"])
        changed = True
        while changed and budget[0] > 0:
            changed = False
            for cand in ([steps[:len(steps) // 2], steps[:-1]] +
                         [steps[:i] + steps[i + 1:] for i in range(len(steps))]):
                if len(cand) >= len(steps):
                    continue
                r = still({"steps": cand})
                if r is not None:
                    best, steps, changed = r, cand, True
                    break
        return best

    # -- rendering ----------------------------------------------------------
    def r_tree(self, I, t):
        ents = []
        for e in t["ents"]:
            if e.get("b") is not None:
                ents.append("(%s, inr %s)" % (I.b(e["k"]), self.r_tree(I, e["b"])))
            else:
                ents.append("(%s, inl %s)" % (I.b(e["k"]), I.v(e.get("v"))))
        if not ents and not t["seq"]:
            return "empty_bkt"
        return I.t("Bkt %s %s" % (cN(t["seq"]), clist(ents)))

    def r_op(self, I, o):
        k = lambda: I.b(o["k"])
        t = o["o"]
        if t == "put":
            b = "(Put %s %s)" % (k(), I.v(o.get("v")))
        elif t == "cursor":
            cs = []
            for c in o.get("cs", []):
                cs.append({"first": "CFirst", "last": "CLast", "next": "CNext", "prev": "CPrev", "delete": "CDelete"}.get(c["c"])
                          or "(CSeek %s)" % I.b(c["k"]))
            b = "(Cursor %s)" % clist(cs)
        elif t == "setseq":
            b = "(SetSequence %s)" % cN(o.get("n", 0))
        else:
            b = {"get": "(Get %s)", "del": "(Delete %s)", "mk": "(CreateBucket %s)", "mkif": "(CreateBucketIfNotExists %s)",
                 "rm": "(DeleteNested %s)", "nested": "(Nested %s)"}.get(t)
            if b is not None:
                b = b % k()
            else:
                b = {"foreach": "ForEach", "seq": "Sequence", "nextseq": "NextSequence", "dump": "Dump"}[t]
        return "(%s, %s)" % (clist([I.b(x) for x in o["p"]]), b)

    def r_res(self, I, r):
        t = r["t"]
        if t == "err":
            return "(RErr %s)" % err(r["e"])
        if t == "val":
            return "(RVal %s)" % I.v(r.get("v"))
        if t == "bool":
            return "(RBool %s)" % cbool(r.get("b", False))
        if t == "ents":
            return "(REnts %s)" % clist(["(%s, %s)" % (I.b(k), I.v(v)) for k, v in r.get("l", [])])
        if t == "num":
            return "(RNum %s)" % cN(r.get("n", 0))
        if t == "numerr":
            return "(RNumErr %s %s)" % (cN(r.get("n", 0)), err(r["e"]))
        if t == "cur":
            out = []
            for c in r.get("c", []):
                if c.get("e") is not None:
                    out.append("(CErr %s)" % err(c["e"]))
                elif c.get("kv") is not None:
                    out.append("(CKV (Some (%s, %s)))" % (I.b(c["kv"][0]), I.v(c["kv"][1])))
                else:
                    out.append("(CKV None)")
            return "(RCur %s)" % clist(out)
        if t == "tree":
            return "(RTree %s)" % self.r_tree(I, r["tree"])
        if t == "nobucket":
            return "RNoBucket"
        raise Unrepresentable(t)

    def r_ops(self, I, ops, res):
        if len(ops) != len(res):
            raise Unrepresentable("length")
        return clist(["(%s, %s)" % (self.r_op(I, o), self.r_res(I, r)) for o, r in zip(ops, res)])

    def r_case(self, I, c):
        steps = []
        for st, ob in zip(c["in"]["steps"], c["obs"]["steps"]):
            ret = RET.get(ob.get("ret", ""), "None")
            opn = cN(int(ob.get("open", 0)))
            if st["t"] == "reopen":
                steps.append("SReopen %s" % ("None" if ob.get("post") is None else "(Some %s)" % self.r_tree(I, ob["post"])))
                continue
            post = self.r_tree(I, ob["post"])
            if st["t"] == "tx":
                steps.append("STx %s %s %s %s %s" % (kind(st, ob), self.r_ops(I, st.get("ops", []), ob.get("res", [])), ret, post, opn))
            elif st["t"] == "overlap":
                steps.append("SOverlap %s %s %s %s %s %s %s" % (
                    self.r_ops(I, st.get("before", []), ob.get("before", [])), kind(st, ob),
                    self.r_ops(I, st.get("ops", []), ob.get("res", [])), ret,
                    self.r_ops(I, st.get("after", []), ob.get("after", [])), post, opn))
            elif st["t"] == "conc":
                calls = []
                if len(st.get("calls", [])) != len(ob.get("calls", [])):
                    raise Unrepresentable("calls")
                for cl, co in zip(st["calls"], ob["calls"]):
                    calls.append("(%s, %s, %s)" % (END[cl["end"]], self.r_ops(I, cl.get("ops", []), co.get("res") or []),
                                                   RET.get(co.get("ret", ""), "None")))
                steps.append("SConc %s %s %s %s %s" % (cbool(st.get("mode") == "batch"), clist(["\n    " + x for x in calls]),
                                                      clist(["%d%%nat" % i for i in ob.get("order", [])]), post, opn))
            else:
                raise Unrepresentable(st["t"])
        if len(c["in"]["steps"]) != len(c["obs"]["steps"]):
            raise Unrepresentable("steps")
        return steps

    def render_cases(self, cases):
        # every step is a definition of its own: elaborating one huge nested
        # list literal is far slower than many small ones
        I = Interner()
        defs, rows = [], []
        for ci, c in enumerate(cases):
            try:
                steps = self.r_case(I, c)
            except (Unrepresentable, KeyError):
                # an observation the model has no value for (unknown error
                # class, ...): a case that cannot match (initial sequence is 0)
                steps = ["SReopen (Some (Bkt 1%N []))"]
            names = []
            for si, s in enumerate(steps):
                n = "s_%d_%d" % (ci, si)
                names.append(n)
                defs.append((len(I.defs), "Definition %s : step := %s." % (n, s)))
            rows.append(clist(names))
        # byte strings are interned while the steps are rendered: emit each
        # step after the byte strings it refers to
        out, k = [], 0
        for nb, d in defs:
            out.extend(I.defs[k:nb])
            k = max(k, nb)
            out.append(d)
        out.extend(I.defs[k:])
        return """From Coq Require Import Uint63.
From Verif Require Import Base.Prelude KV.KV KV.KVCorr.
Local Open Scope uint63_scope.
%s
Definition cases : list (list step) :=
%s.
Definition verdicts := Eval vm_compute in judge cases.
Definition bad := Eval vm_compute in fst verdicts.
Definition drift := Eval vm_compute in snd verdicts.
Print bad.
Print drift.
""" % ("\n".join(out), clist(["\n " + r for r in rows]))


CHECK = C11
