from vlib import *
from concurrent.futures import ThreadPoolExecutor

RC = {"ok": "ROk", "locked": "RLocked", "watchonly": "RWatchOnly", "wrongpass": "RWrongPass", "notcached": "RNotCached",
      "dup": "RDup", "notfound": "RNotFound", "crypto": "RCrypto", "other": "ROther", "panic": "RPanic"}
KIND = {"p2sh": "KP2SH", "witness": "KWitness", "taproot": "KTaproot"}
KT = {"priv": "CKPriv", "script": "CKScript", "pub": "CKPub"}

class Kind(str):
    """a violation kind that remembers its site (Check.shrink only receives the kind)"""
    site = "*"


def r_key(a):
    if a is None:
        return "(KImp 999998)"
    t = a.get("t")
    if t == "c":
        return "(KChain %s %s %s)" % (cN(a.get("acct", 0)), cN(a.get("br", 0)), cN(a.get("idx", 0)))
    if t == "i":
        return "(KImp %s)" % cN(a.get("n", 0))
    if t == "s":
        return "(KScr %s)" % cN(a.get("n", 0))
    return "(KImp 999999)"


def r_op(o):
    k = o["k"]
    g = lambda f: o.get(f, 0)
    sc = cN(g("sc"))
    if k == "open":
        return "OpOpen %s" % cN(g("p"))
    if k == "unlock":
        return "OpUnlock %s" % cN(g("p"))
    if k == "lock":
        return "OpLock"
    if k == "chpriv":
        return "OpChangePriv %s %s" % (cN(g("p")), cN(g("q")))
    if k == "chpub":
        return "OpChangePub %s %s" % (cN(g("p")), cN(g("q")))
    if k == "newacct":
        return "OpNewAccount %s" % sc
    if k == "newrawacct":
        return "OpNewRawAccount %s %s" % (sc, cN(g("n")))
    if k == "newscope":
        return "OpNewScope"
    if k == "newwatch":
        return "OpNewWatchAccount %s" % sc
    if k == "props":
        return "OpAcctProps %s %s" % (sc, cN(g("acct")))
    if k == "next":
        return "OpNextAddr %s %s %s" % (sc, cN(g("acct")), cbool(o.get("int", False)))
    if k == "imppriv":
        return "OpImportPriv %s %s" % (sc, cN(g("n")))
    if k == "impscript":
        return "OpImportScript %s %s %s %s" % (sc, cN(g("n")), KIND[o["kind"]], cbool(o.get("sec", False)))
    if k == "load":
        return "OpLoadAddr %s %s" % (sc, r_key(o.get("a")))
    if k == "privkey":
        return "OpPrivKey %s %s" % (sc, r_key(o.get("a")))
    if k == "script":
        return "OpScript %s %s" % (sc, r_key(o.get("a")))
    if k == "derive":
        return "OpDerive %s %s %s %s" % (sc, cN(g("acct")), cN(g("br")), cN(g("idx")))
    if k == "dcache":
        return "OpDeriveCache %s %s %s %s" % (sc, cN(g("acct")), cN(g("br")), cN(g("idx")))
    if k == "dcachefill":
        return "OpCacheFill %s %s %s %s %d%%nat" % (sc, cN(g("acct")), cN(g("br")), cN(g("idx")), int(g("n")))
    if k == "encrypt":
        return "OpEncrypt %s" % KT[o["kt"]]
    if k == "decrypt":
        return "OpDecrypt %s" % KT[o["kt"]]
    if k == "convert":
        return "OpConvert"
    if k == "markused":
        return "OpMarkUsed %s %s" % (sc, r_key(o.get("a")))
    if k == "foreach":
        return "OpForEach %s %s" % (sc, cN(g("acct")))
    if k == "invalidate":
        return "OpInvalidate %s %s" % (sc, cN(g("acct")))
    if k == "hprivkey":
        return "OpHeldPrivKey %s %s" % (cbool(o.get("enc", False)), cbool(o.get("ct", False)))
    if k == "hscript":
        return "OpHeldScript %s %s %s" % (KIND[o["kind"]], cbool(o.get("sec", False)), cbool(o.get("ct", False)))
    raise ValueError(k)


def r_slot(b):
    t = b["t"]
    sc = cN(b.get("sc", 0) if b.get("sc", 0) >= 0 else 98)
    if t == "master":
        s = "SMaster"
    elif t == "cpriv":
        s = "SCPriv"
    elif t == "cscript":
        s = "SCScript"
    elif t == "hashed":
        s = "SHashed"
    elif t == "acct":
        s = "SAcct %s %s" % (sc, cN(b.get("acct", 0)))
    elif t == "last":
        s = "SLast %s %s %s" % (sc, cN(b.get("acct", 0)), cbool(b.get("int", False)))
    elif t == "addr":
        s = "SAddr %s %s" % (sc, r_key(b.get("a")))
    elif t == "script":
        s = "SScript %s %s %s" % (sc, r_key(b.get("a")), cbool(b.get("secret", False)))
    elif t == "cache":
        s = "SCache %s" % sc
    else:
        s = "SCache 99"
    return "(%s, %s)" % (s, cbool(b["live"]))


GCLASS = {"key": "GKey", "acct": "GAcct", "script": "GScript", "cache": "GCache"}


def r_entry(e):
    if "s" in e and e["s"] is not None:
        s = e["s"]
        gone = s.get("g") or {}
        known = ["(%s, %d%%nat)" % (GCLASS[c], n) for c, n in sorted(gone.items()) if c in GCLASS]
        other = sum(n for c, n in gone.items() if c not in GCLASS)
        return ("TSnap {| sn_locked := %s; sn_watch := %s; sn_relaxed := %s; sn_slots := %s; sn_gone := %s; "
                "sn_other := %d%%nat |}") % (
            cbool(s["l"]), cbool(s["w"]), cbool(s.get("x", False)), clist([r_slot(b) for b in s.get("b") or []]),
            clist(known), other)
    return "TOp (%s) %s" % (r_op(e["o"]), RC[e["r"]])


def r_case(c):
    i = c["in"]
    return "{| tc_nsc := 4%%nat; tc_pub := %s; tc_priv := %s; tc_steps := %s |}" % (
        cN(i["pub"]), cN(i["priv"]), clist(["\n   " + r_entry(e) for e in c["obs"]["trace"]]))


class C05(Check):
    ID = "C05"
    RULE = ("real waddrmgr.Manager on a bbolt file (Create with FastScryptOptions, four default scopes). corpus/C05 replays + 18 fixed scenario histories "
            "+ n random histories of 13..26 main operations: Unlock with the right / a near-miss (trailing space, case, dropped first "
            "or last byte, doubled, empty) / an unrelated / a former passphrase, Lock, ChangePassphrase private and public (locked "
            "and unlocked, right and wrong old passphrase), restart (Open with right / wrong public passphrase), NewAccount, NewRawAccount, "
            "NewAccountWatchingOnly, AccountProperties, Next{External,Internal}Addresses, ImportPrivateKey (also duplicates), "
            "ImportScript / ImportWitnessScript (secret and public) / ImportTaprootScript, Address, PrivKey, Script, "
            "DeriveFromKeyPath, DeriveFromKeyPathCache, ConvertToWatchingOnly, MarkUsed (evicts the address object from the cache; "
            "chained, imported-key and script addresses), ForEachAccountAddress, InvalidateAccountCache; one corpus history fills the "
            "LRU of derived keys beyond its capacity (10001 DeriveFromKeyPathCache calls).  MEMORY: before the first and after every "
            "main operation (and after its probes) the harness walks, by reflection over ALL fields and with no list of field names, "
            "the object graph under the *Manager (scoped managers, account infos, address objects, derive-on-unlock entries, the LRU "
            "list, crypto keys) and the objects it was handed; it registers every waddrmgr object by identity and keeps a REFERENCE to "
            "the backing memory of every buffer that can hold secret clear text, classified by TYPE (private *hdkeychain.ExtendedKey, "
            "btcec.PrivateKey, snacl.CryptoKey / *CryptoKey wherever they hang - masterKeyPub / cryptoKeyPub excepted; the named "
            "clear-text byte fields privKeyCT, scriptClearText of a secret script, hashedPrivPassphrase); every other byte field of "
            "waddrmgr / snacl structs is retained too and SCANNED for the bytes of the secrets seen while unlocked and of the account / "
            "coin-type keys the harness derives itself from the wallet seed.  Whenever the manager is locked or watching-only (after "
            "Lock, after a failed Unlock, after a conversion, after a restart) every retained reference is read: the oracle demands "
            "all-zero bytes / no embedded secret, for buffers the manager still reaches (cleartext_survives_lock, "
            "secret_copy_survives_lock) and for buffers of objects it has dropped (evicted_cleartext_survives_lock@<buffer>:<operation "
            "during which the object left the manager's state>).  The harness KEEPS the address objects it is handed (results of "
            "Next*Addresses, DeriveFromKeyPath, Address, ForEachAccountAddress, imports; up to 40, dropped at a restart) and, after "
            "every main operation that leaves the manager locked or watching-only, calls PrivKey+ExportPrivKey / Script(+TaprootScript) "
            "on every kept object (its privKeyEncrypted / clear-text fields read by reflection are inputs of the model's accessor), "
            "tracked by the manager or not.  After every main operation (probe policy all: every, "
            "some: a third, none) EVERY known address / script / account is probed: PrivKey+ExportPrivKey, Script(+TaprootScript), "
            "DeriveFromKeyPath+PrivKey, DeriveFromKeyPathCache, Encrypt/Decrypt for the three key types, and while locked or "
            "watching-only NewAccount, NewRawAccount, NewScopedKeyManager (locked only), ImportPrivateKey, ImportScript(secret); "
            "the oracle demands of each: an error, nothing created or returned, and the class ErrLocked or ErrWatchingOnly - any "
            "other class is refused_with_wrong_error_class@<operation>.  IsLocked, WatchOnly and the liveness of every "
            "clear-text buffer (hook VerifSecretBuffers + accountInfo.last{External,Internal}Addr by reflection) are recorded after "
            "every main operation and after its probes.  Compared with the model: every result class (in a locked / watching-only "
            "state 'locked' and 'watching-only' are interchangeable), the two flags, and - in locked / watching-only snapshots only - "
            "every observed live buffer must be live in the model and every live buffer of a dropped object must be accounted for by "
            "the model's record `gone`, class by class; the contents of an UNLOCKED manager's memory are not compared.  non-trivial = the history contains a private accessor probed while locked "
            "or watching-only, a wrong-passphrase Unlock, a passphrase change, a restart, a Lock or a conversion; distinct by input")
    N_QUICK = 140
    N_THOROUGH = 3000
    SHARD = 12
    ASSUMPTIONS = [
        "ideal KDF / digest law (C17's subject): snacl.SecretKey.DeriveKey accepts exactly the passphrase its parameters were "
        "created with, the salted SHA-512 of Unlock's fast path is injective, and a secretbox sealed by one master key opens under "
        "that key only; passphrases are abstract ids.  C17's known finding (passphrases with the same HMAC key block: trailing "
        "NULs, > 64 bytes) is outside this model: the harness uses passphrases of at most 64 bytes without trailing NULs",
        "every database transaction commits iff the operation returned nil (memory ahead of disk after an aborted transaction is "
        "C08/C10's subject); no BIP32 child is invalid; ExtendAddresses (S3), NewScopedKeyManager and the imported pseudo-account "
        "as a derivation source are not among the operations",
        "accessors on address objects kept by a caller (OpHeldPrivKey / OpHeldScript) take the object's fields as input (observed by "
        "reflection) and are called by the harness only while the manager is locked or watching-only, where they return before "
        "touching anything; the theorem quantifies over ALL field values",
        "WHOSE copy: an object that was at any time part of the manager's own state (reachable from the *Manager through its fields: "
        "the addrs and acctInfo maps, last addresses, the derive-on-unlock queue, the LRU) is the manager's responsibility also after "
        "the manager drops it - the property says 'every in-memory clear-text copy' - and is recorded in the model's `gone`; an "
        "object that was only ever RETURNED to a caller (DeriveFromKeyPath / ForEachAccountAddress on an unlocked manager), like a "
        "returned *btcec.PrivateKey, is the caller's copy: not covered by 'Locking clears', only by the access-control clause.  What "
        "a caller does to an object after the manager dropped it (PrivKey() on it while unlocked caches the key again) is the "
        "caller's: the harness calls kept objects only while locked",
        "temporaries that were never stored in a field (decrypted buffers, big integers inside btcec) and garbage of objects the "
        "harness never saw reachable are not observable",
        "ImportPrivateKey on a watching-only manager is documented to store the public key only; the theorem states exactly that "
        "(no encrypted private key is stored, every later private accessor on the address fails with a watching-only error)",
        "the facts of Generated/LockFacts.v (19 booleans and the LRU capacity) are extracted syntactically (go/ast) from "
        "waddrmgr/*.go on every run, or - when the source shape is not recognised - by running witness histories on the built code "
        "and reading the retained references; 14 of them are `= true` premises discharged by eq_refl in Properties/C05.v; the "
        "five eviction facts are FALSE on the present tree (known findings evicted_cleartext_survives_lock) and are an explicit "
        "premise of C05_locked_holds_no_cleartext_anywhere",
    ]
    PARTIAL_CLAUSES = [
        "cryptographic strength (scrypt, secretbox, sha512) enters through the ideal law above; the real primitives are exercised "
        "by the harness (right / near-miss / former passphrases), not proved",
        "'clears every in-memory copy': proved for every buffer the manager can still reach (C05_locked_holds_no_cleartext) and "
        "for what lock() itself drops (C05_lock_clears); for objects dropped EARLIER, while unlocked, it is proved only under the "
        "premise evict_ok (+ lru_eviction_zeroes for the LRU), which the present tree does not satisfy: seven known findings "
        "evicted_cleartext_survives_lock (MarkUsed, InvalidateAccountCache, replaced last address, derive-on-unlock queue, LRU); "
        "C05_refuted_without_eviction_wipe gives the failing histories, corpus/C05/e*.json replays them, "
        "corpus/C05/e_fix_proposed.diff repairs four of the five sites",
        "observed, not modelled: which unknown byte field holds a copy of a secret (secret_copy_survives_lock) - the model has no "
        "such buffers, any hit is an unexplained violation",
        "cryptoKeyScript is never loaded by Unlock (observation S5): its slot is empty in every state, locked or not",
    ]
    EXTRA_TRUSTED = ["reflection on ScopedKeyManager.acctInfo[*].last{External,Internal}Addr.privKeyCT in the harness (the hook does not report these buffers)",
                     "harness/cmd/c05/secrets.go: reflect + unsafe walk of the manager's object graph, retained references to backing "
                     "arrays (reads only; relies on Go's non-moving heap), classification of secret-bearing types, the short list of "
                     "public-by-design buffers (masterKeyPub, cryptoKeyPub, *Encrypted, snacl.Parameters, privPassphraseSalt)"]

    def __init__(self):
        self._t_shrink = 0.0

    # ---- development aid: until the integrator lists this property's files in
    # coq/_CoqProject they are not built by `make`; compile them by hand right
    # after the shared build step (no-op once they are listed).
    OWN_DEPS = [("Generated/LockFacts.v", []),
                ("Addr/Lock.v", []),
                ("Addr/LockProofs.v", ["Addr/Lock.v"]),
                ("Addr/LockCorr.v", ["Generated/LockFacts.v", "Addr/Lock.v"]),
                ("Properties/C05.v", ["Generated/LockFacts.v", "Addr/Lock.v", "Addr/LockProofs.v", "Addr/LockCorr.v"])]

    def _dev_build(self):
        import vlib
        coq = vlib.COQ
        try:
            listed = open(os.path.join(coq, "_CoqProject")).read()
        except OSError:
            return
        if "Addr/Lock.v" in listed:
            return
        with Lock("coq"):
            rebuilt = set()
            for f, deps in self.OWN_DEPS:
                src = os.path.join(coq, f)
                vo = src[:-2] + ".vo"
                if not os.path.exists(src):
                    continue
                stale = (not os.path.exists(vo)) or os.path.getmtime(vo) < os.path.getmtime(src)
                for d in deps:
                    dvo = os.path.join(coq, d[:-2] + ".vo")
                    if d in rebuilt or not os.path.exists(dvo) or (os.path.exists(vo) and os.path.getmtime(vo) < os.path.getmtime(dvo)):
                        stale = True
                if not stale:
                    continue
                rc, out, err = sh(["timeout", "1200", "coqc", "-R", ".", "Verif", f], cwd=coq, timeout=1300)
                rebuilt.add(f)
                if rc != 0:
                    # expected for Properties/C05.v on a tree without the seven behaviours
                    log("coqc %s: %s" % (f, (out + err).strip()[-600:]))
                    try:
                        os.remove(vo)
                    except OSError:
                        pass

    def run(self, tier, seed, replay=None):
        import vlib
        orig = vlib.ensure_coq

        def ensure_then_dev_build():
            r = orig()
            self._dev_build()
            return r
        vlib.ensure_coq = ensure_then_dev_build
        try:
            return super().run(tier, seed, replay)
        finally:
            vlib.ensure_coq = orig

    def gen_args(self, tier, seed):
        n = self.N_QUICK if tier == "quick" else self.N_THOROUGH
        pre = []
        corpus = os.path.join(VERIF, "corpus", "C05")
        if os.path.isdir(corpus):
            # minimized replays of earlier findings run first
            p = os.path.join(WORK, "corpus_C05.jsonl")
            os.makedirs(WORK, exist_ok=True)
            with open(p, "w") as out:
                for f in sorted(os.listdir(corpus)):
                    if f.endswith(".json"):
                        out.write(json.dumps({"in": json.load(open(os.path.join(corpus, f)))["in"]}) + "\n")
            pre.append(["c05", "-replay", p])
        return pre + [["c05", "-n", str(n), "-seed", str(seed), "-tier", tier]]

    INTERESTING = ("private_probe_while_locked_or_watching", "unlock_wrong", "change_private_while_locked",
                   "change_private_while_unlocked", "restart", "convert", "lock")

    def nontrivial(self, c):
        return any(t in self.INTERESTING for t in c.get("tags", []))

    def oracle_kinds(self, case):
        out = []
        for e in case.get("oracle", []):
            k, _, s = e.partition("@")
            kk = Kind(k)
            kk.site = s or "*"
            out.append((kk, kk.site))
        return out

    def sample(self, c):
        tr = c["obs"]["trace"]
        calls = [e for e in tr if "o" in e]
        return dict(input=c["in"], oracle=c["oracle"], tags=c.get("tags"), calls=len(calls),
                    main_results=[(e["o"]["k"], e["r"]) for e in calls if e.get("m")],
                    last_snapshot=[e["s"] for e in tr if e.get("s")][-1:])

    def extra_coverage(self, cases):
        calls = probes = locked_probes = snaps = 0
        rcs = {}
        for c in cases:
            for e in c["obs"]["trace"]:
                if "o" in e:
                    calls += 1
                    if not e.get("m"):
                        probes += 1
                    key = e["o"]["k"] + ":" + e["r"]
                    rcs[key] = rcs.get(key, 0) + 1
                else:
                    snaps += 1
        finds = {}
        for c in cases:
            for f in c["obs"].get("secret_findings") or []:
                key = "%s|%s|%s|%s" % (f["status"], f["class"], f.get("left_at", ""), f["how"])
                finds[key] = finds.get(key, 0) + 1
        return dict(implementation_calls=calls, probe_calls=probes, snapshots_compared=snaps, result_classes=rcs,
                    secret_findings_by_class=finds,
                    facts_source=getattr(self, "_facts_source", None),
                    facts_extracted=dict(self._facts(), **({"extractor_refused": self._facts_error,
                                                            "used_instead": "all true"} if getattr(self, "_facts_error", None) else {})))

    FACT_FIELDS = [("f_cache_checked", "cache_checked_for_lock"), ("f_lock_purges_cache", "lock_purges_key_cache"),
                   ("f_lock_wipes_wscripts", "lock_wipes_witness_scripts"), ("f_lock_wipes_last", "lock_wipes_last_addrs"),
                   ("f_unlock_skips_keyless", "unlock_skips_keyless_accounts"),
                   ("f_keyless_not_queued", "keyless_addresses_not_queued"),
                   ("f_change_rejects_empty", "change_rejects_empty_private"),
                   ("f_privkey_checks_first", "privkey_checks_lock_first"),
                   ("f_unlock_preloads", "unlock_loads_queued_accounts"),
                   ("f_z_acct", "lock_zeroes_account_keys"), ("f_z_key", "address_lock_zeroes_key"),
                   ("f_z_script", "address_lock_zeroes_script"), ("f_z_cache", "lock_zeroes_cached_keys"),
                   ("f_z_mgr", "lock_zeroes_manager_keys"),
                   ("f_e_markused", "markused_wipes_evicted"), ("f_e_invalidate", "invalidate_wipes_evicted"),
                   ("f_e_next", "next_wipes_replaced_last"), ("f_e_unlock", "unlock_leaves_no_cleartext_in_dropped"),
                   ("f_e_lru", "lru_eviction_zeroes")]
    # the facts the theorems need (= true); the f_e_* ones are the known findings
    # of known_findings.json (evicted_cleartext_survives_lock): when the extractor
    # refuses the source the correspondence runs with these as they are on the
    # unrepaired tree
    EVICT_FACTS = ("markused_wipes_evicted", "invalidate_wipes_evicted", "next_wipes_replaced_last",
                   "unlock_leaves_no_cleartext_in_dropped", "lru_eviction_zeroes")

    def _facts(self):
        """the facts of the tree the harness was built from (same extractor as Generated/LockFacts.v)"""
        if getattr(self, "_facts_cache", None) is None:
            import extract_c05
            self._facts_error = None
            self._facts_source = None
            try:
                res, self._facts_source = extract_c05.facts(REPO)
                self._facts_cache = {n: bool(res[n]) for _, n in self.FACT_FIELDS}
                self._facts_cache["priv_key_cache_size"] = int(res["priv_key_cache_size"])
            except Exception as e:      # noqa: the extractor refused the source shape
                # Never crash the check: the refusal is a broken obligation (recorded by the
                # driver through work/extract_errors.json, and below if that marker is
                # missing); the correspondence runs with the facts of the repaired code
                # (the 14 required ones true, the eviction facts as on the unrepaired tree) so that
                # the oracle can still look for a failing input.
                self._facts_error = "%s: %s" % (type(e).__name__, str(e)[-1200:])
                self._facts_source = "none (both paths failed); correspondence evaluated with the required facts = true"
                self._facts_cache = {n: (n not in self.EVICT_FACTS) for _, n in self.FACT_FIELDS}
                self._facts_cache["priv_key_cache_size"] = 10000
        return self._facts_cache

    def _facts_term(self):
        f = self._facts()
        return ("{| " + "; ".join("%s := %s" % (fld, cbool(f[n])) for fld, n in self.FACT_FIELDS)
                + "; f_cache_cap := %s |}" % cN(f["priv_key_cache_size"]))

    # ---- model evaluation
    def render_cases(self, cases):
        return """From Verif Require Import Base.Prelude Addr.Lock Addr.LockCorr.
Local Open Scope N_scope.
Definition cases : list tcase :=
%s.
Definition tree_facts : facts := %s.
Definition bad := Eval vm_compute in failures_with tree_facts cases.
Print bad.
""" % (clist(["\n " + r_case(c) for c in cases]), self._facts_term())

    def evaluate_model(self, cases):
        starts = list(range(0, len(cases), self.SHARD))

        def one(start):
            chunk = cases[start:start + self.SHARD]
            return start, coq_eval(self.ID, self.render_cases(chunk), "cases_%d" % start)

        mism, logs, problems = [], "", []
        self._facts()
        if self._facts_error:
            try:
                marked = "extract_c05" in json.load(open(os.path.join(WORK, "extract_errors.json")))
            except (OSError, ValueError):
                marked = False
            if not marked:
                problems.append("facts could not be regenerated from source (harness/cmd/extract-c05): " + self._facts_error)
            logs += "correspondence evaluated with all facts = true (extractor refused the source)\n"
        with ThreadPoolExecutor(max_workers=min(14, max(1, len(starts)))) as ex:
            results = list(ex.map(one, starts))
        for start, (rc, out, err) in results:
            logs += out[-500:] + err[-1000:]
            if rc != 0:
                problems.append("correspondence: cases file does not evaluate: " + (err or out)[-1500:])
                continue
            printed = parse_printed(out, "bad")
            if printed is None:
                problems.append("correspondence: could not parse model output: " + out[-500:])
                continue
            nums = [int(x) for x in re.findall(r"\d+", printed)]
            for j in range(0, len(nums) - 2, 3):
                ci, st, what = start + nums[j], nums[j + 1], nums[j + 2]
                c = cases[ci]
                tr = c["obs"]["trace"]
                c["model_differs_at"] = dict(step=st, what="result class" if what == 1 else "flags / clear-text buffers",
                                             observed=tr[st] if st < len(tr) else None,
                                             preceding_calls=[e for e in tr[max(0, st - 6):st] if "o" in e])
                mism.append(ci)
        for ci in mism[:3]:
            self._explain(cases[ci])
        return sorted(mism), logs, problems

    def _explain(self, c):
        """ask the model what it says at the point of divergence (diagnostics only)"""
        st = c["model_differs_at"]["step"]
        text = """From Verif Require Import Base.Prelude Addr.Lock Addr.LockCorr.
Local Open Scope N_scope.
Definition c : tcase := %s.
Definition at_div := Eval vm_compute in model_at %s (tc_nsc c) (init (tc_nsc c) (tc_pub c) (tc_priv c)) (tc_steps c) %d%%nat.
Print at_div.
""" % (r_case(c), self._facts_term(), st)
        rc, out, err = coq_eval(self.ID, text, "explain")
        c["model_differs_at"]["model_says"] = re.sub(r"\s+", " ", (out or err))[-3000:]

    # ---- shrinking: binary search on the prefix, then drop single operations
    def _replay(self, inp):
        p = os.path.join(WORK, self.ID, "shrink_in.jsonl")
        os.makedirs(os.path.dirname(p), exist_ok=True)
        with open(p, "w") as f:
            f.write(json.dumps({"in": inp}) + "\n")
        rc, cs, err = run_vh(["c05", "-replay", p], timeout=120)
        return cs[0] if (rc == 0 and cs) else None

    def shrink(self, case, kind):
        target = "%s@%s" % (kind, getattr(kind, "site", "*"))
        t0 = time.time()
        if self._t_shrink > 45:
            return self._strip(case)
        best = case

        def attempt(ops, probe=None):
            inp = dict(best["in"], ops=ops)
            if probe:
                inp["probe"] = probe
            c = self._replay(inp)
            return c if (c is not None and target in c.get("oracle", [])) else None

        def budget():
            return time.time() - t0 < 8
        c = attempt(best["in"]["ops"], "none")
        if c is not None:
            best = c
        # minimal failing prefix (oracle flags only accumulate along a history)
        ops = best["in"]["ops"]
        lo, hi = 1, len(ops)
        while lo < hi and budget():
            mid = (lo + hi) // 2
            c = attempt(ops[:mid])
            if c is not None:
                best, hi = c, mid
            else:
                lo = mid + 1
        if hi < len(ops):
            c = attempt(ops[:hi])
            if c is not None:
                best = c
        changed = True
        while changed and budget():
            changed = False
            ops = best["in"]["ops"]
            for i in range(len(ops) - 1, -1, -1):
                if not budget():
                    break
                c = attempt(ops[:i] + ops[i + 1:])
                if c is not None:
                    best, changed = c, True
                    ops = best["in"]["ops"]
        self._t_shrink += time.time() - t0
        return self._strip(best)

    def _strip(self, c):
        """replay files keep the calls and the snapshots that flagged, not every snapshot"""
        c = json.loads(json.dumps(c))
        tr = c["obs"]["trace"]
        if len(tr) > 400:
            c["obs"]["trace"] = tr[:200] + [{"omitted": len(tr) - 400}] + tr[-200:]
        return c


CHECK = C05
