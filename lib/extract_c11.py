"""C11: regenerate coq/Generated/TxFlow.v from the repository.

Facts = the control-flow skeleton of the managed calls db.Update, db.View and
db.Batch of walletdb/bdb/db.go as reached through walletdb.Update / View /
Batch (walletdb/interface.go): for each way the closure ends (returns nil,
returns a non-nil error, panics)

    end   what becomes of the transaction the call began: TCommit, TRollback
          or TLeak (left open)
    ret   how the call ends for the caller: Some OOk (nil), Some OErr (the
          closure's own error value), Some OPanic (the closure's own panic
          value comes out), None (anything else)

The model KV/KV.v is parameterised by such a skeleton; Properties/C11.v
instantiates it with `code_flows` and proves `safe_flows code_flows` by
computation, so an edit that makes Update commit on panic, lets View leave its
read transaction open, or makes Batch swallow / replace the closure's error
changes this file and breaks that obligation (and with it every theorem about
the managed calls).

Two ways of finding the facts, BOTH run (each costs a fraction of a second,
and the result is cached on the hash of the files involved):

  source  harness/cmd/extract-c11 (go/ast): symbolic execution of the bodies of
          (*db).Update and (*db).View, every path, per way of ending; plus the
          shape of the pass-through helpers of interface.go and of db.Batch's
          delegation to bbolt.  Refuses what it does not understand.
  probe   harness/cmd/c11 -flow-probe, built against `repo` (harness module,
          tag verif): one call per managed call and way of ending on a fresh
          database, observed through manual transactions and bbolt's count of
          open read transactions (harness/cmd/c11/probe.go says why each
          scenario determines its fact; the probe covers every fact).

Update / View: the source reader's answer is used when it has one and the
probe agrees (a disagreement raises: one of the two is wrong about the code);
when the reader refuses the shape the probe's answer is used.  Batch: always
the probe's (what bbolt's Batch does with the closure is not in the
repository); the reader only confirms the delegation shape.  If the probe
cannot be built or run and the reader has refused, main() raises, so that the
check reports a broken obligation instead of silently keeping old facts."""
import hashlib, json, os, re, shutil, subprocess

import vlib


class ExtractError(Exception):
    pass


END = {"commit": "TCommit", "rollback": "TRollback", "leak": "TLeak"}
RET = {"nil": "Some OOk", "err": "Some OErr", "panic": "Some OPanic"}
WAYS = ("nil", "err", "panic")
FILES = ("walletdb/bdb/db.go", "walletdb/interface.go", "walletdb/bdb/driver.go", "walletdb/bdb/verif_hooks_c11.go",
         "walletdb/go.mod", "walletdb/go.sum", "go.mod", "go.sum")
OWN = ("harness/cmd/c11/main.go", "harness/cmd/c11/probe.go", "harness/cmd/extract-c11/main.go", "lib/extract_c11.py")


def sanitize(msg):
    return re.sub(r"\s+", " ", msg or "").replace("(*", "( *").replace("*)", "* )")


def source_key(repo):
    h = hashlib.sha1()
    for base, names in ((repo, FILES), (vlib.VERIF, OWN)):
        for n in names:
            p = os.path.join(base, n)
            h.update(n.encode() + b"\0")
            try:
                h.update(open(p, "rb").read())
            except OSError:
                h.update(b"<missing>")
    return h.hexdigest()


def source_facts(repo):
    with vlib.Lock("go"):
        p = subprocess.run(["go", "run", "./cmd/extract-c11", repo], cwd=vlib.HARNESS, env=vlib.GOENV,
                           stdout=subprocess.PIPE, stderr=subprocess.PIPE, text=True, timeout=280)
    if p.returncode != 0:
        raise ExtractError("extract-c11 failed on %s (rc=%d): %s" % (repo, p.returncode, p.stderr.strip()[-1200:]))
    return json.loads(p.stdout)


def probe_facts(repo):
    with vlib.Lock("go"):
        os.makedirs(os.path.join(vlib.WORK, "bin"), exist_ok=True)
        modflag = []
        if repo == "/repo":
            shutil.copyfile(os.path.join(repo, "go.sum"), os.path.join(vlib.HARNESS, "go.sum"))
        else:
            alt = os.path.join(vlib.WORK, "extract_c11_%s.mod" % hashlib.sha1(repo.encode()).hexdigest()[:8])
            txt = open(os.path.join(vlib.HARNESS, "go.mod")).read().replace("=> /repo", "=> " + repo)
            open(alt, "w").write(txt)
            shutil.copyfile(os.path.join(repo, "go.sum"), alt[:-4] + ".sum")
            modflag = ["-modfile=" + alt]
        exe = os.path.join(vlib.WORK, "bin", "extract-c11-probe")
        p = subprocess.run(["go", "build"] + modflag + ["-tags", "verif", "-o", exe, "./cmd/c11"], cwd=vlib.HARNESS,
                           env=vlib.GOENV, stdout=subprocess.PIPE, stderr=subprocess.PIPE, text=True, timeout=900)
        if p.returncode != 0:
            raise ExtractError("probe: harness/cmd/c11 does not build against %s: %s" % (repo, (p.stdout + p.stderr)[-1200:]))
    p = subprocess.run([exe, "-flow-probe"], cwd=vlib.WORK, env=vlib.GOENV, stdout=subprocess.PIPE, stderr=subprocess.PIPE,
                       text=True, timeout=120)
    if p.returncode != 0:
        raise ExtractError("probe: c11 -flow-probe failed: %s" % p.stderr.strip()[-1200:])
    return json.loads(p.stdout)


def norm(f):
    """(end, ret) of one fact in the Coq vocabulary"""
    end, ret = f.get("end"), f.get("ret", "")
    if end not in END:
        raise ExtractError("unknown transaction end %r" % (end,))
    return END[end], RET.get(ret, "None")


def facts(repo):
    """returns dict(update=..., view=..., batch=..., each {way: (end, ret)}, source_line, notes)"""
    src, src_err = {}, None
    try:
        src = source_facts(repo)
    except (ExtractError, OSError, ValueError, subprocess.SubprocessError) as e:
        src_err = str(e)
    prb, prb_err = None, None
    try:
        prb = probe_facts(repo)
    except (ExtractError, OSError, ValueError, KeyError, subprocess.SubprocessError) as e:
        prb_err = str(e)
    rel = lambda m: (m or "").replace(repo.rstrip("/") + "/", "")      # noqa: E731
    helpers_ok = bool((src.get("helpers") or {}).get("ok"))
    out, how, notes = {}, {}, []
    for m in ("update", "view"):
        s = src.get(m) or {}
        s_ok = bool(s.get("ok")) and helpers_ok
        why = rel(s.get("why") or (None if helpers_ok else (src.get("helpers") or {}).get("why")) or src_err or "no answer")
        if s_ok:
            out[m] = {w: norm(s["facts"][w]) for w in WAYS}
            if prb is not None:
                p = {w: norm(prb[m][w]) for w in WAYS}
                if p != out[m]:
                    raise ExtractError("%s: the source reader says %s but the code built from the repository behaves as %s" % (
                        m, out[m], p))
                how[m] = "source (%s), confirmed by the probe" % rel(s.get("where", ""))
            else:
                how[m] = "source (%s); probe unavailable: %s" % (rel(s.get("where", "")), sanitize(prb_err)[:200])
        elif prb is not None:
            out[m] = {w: norm(prb[m][w]) for w in WAYS}
            how[m] = "probe (source shape not recognised: %s)" % sanitize(why)[:300]
        else:
            raise ExtractError("%s: source shape not recognised (%s) AND probing the built code failed (%s)" % (m, why, prb_err))
    if prb is None:
        raise ExtractError("batch: what bbolt's Batch does with the closure can only be determined by running the code, "
                           "and probing the built code failed (%s)" % prb_err)
    out["batch"] = {w: norm(prb["batch"][w]) for w in WAYS}
    b = src.get("batch") or {}
    how["batch"] = "probe (bbolt.Batch is outside the repository); delegation shape of db.Batch %s" % (
        "recognised" if b.get("ok") else "not recognised: " + sanitize(rel(b.get("why") or src_err or ""))[:200])
    notes = list(prb.get("detail") or [])
    out["source_line"] = "; ".join("%s: %s" % (m, how[m]) for m in ("update", "view", "batch"))
    out["notes"] = notes
    return out


def flow(f):
    return "Flow (%s, %s) (%s, %s) (%s, %s)" % (f["nil"] + f["err"] + f["panic"])


def render(f):
    return """(* GENERATED by lib/extract_c11.py (harness/cmd/extract-c11, go/ast; harness/cmd/c11 -flow-probe)
   from the repository's walletdb/bdb/db.go and walletdb/interface.go.
   Do not edit; bin/extract rewrites it from the current source. *)
(* facts source: %s *)
From Verif Require Import KV.KV.

(* per way the closure ends - returned nil / returned an error / panicked:
   (what becomes of the transaction, how the call ends for the caller) *)

(* walletdb.Update -> db.Update of walletdb/bdb *)
Definition code_update_flow : flow :=
  %s.

(* walletdb.View -> db.View of walletdb/bdb *)
Definition code_view_flow : flow :=
  %s.

(* walletdb.Batch -> db.Batch of walletdb/bdb -> Batch of bbolt *)
Definition code_batch_flow : flow :=
  %s.

Definition code_flows : flows := Flows code_update_flow code_view_flow code_batch_flow.

(* what the probe saw:
%s *)
""" % (sanitize(f["source_line"]), flow(f["update"]), flow(f["view"]), flow(f["batch"]),
       "\n".join("   " + sanitize(n) for n in f["notes"]))


def main(repo, outdir, write_if_changed):
    key = source_key(repo)
    cache = os.path.join(vlib.WORK, "extract_c11_cache.json")
    text = None
    try:
        c = json.load(open(cache))
        if c.get("key") == key:
            text = c["text"]
    except (OSError, ValueError, KeyError):
        pass
    if text is None:
        text = render(facts(repo))
        os.makedirs(vlib.WORK, exist_ok=True)
        with open(cache, "w") as fh:
            json.dump({"key": key, "text": text}, fh)
    dst = os.path.join(outdir, "TxFlow.v")
    write_if_changed(dst, text)
    # Keep TxFlow.vo in step with TxFlow.v even where the build does not list the
    # file (make then sees a fresh .vo and rebuilds what depends on it).  Needs
    # KV/KV.vo; on a tree that has no compiled files yet this does nothing and
    # the regular build compiles the file.
    vo = dst + "o"
    coq = os.path.dirname(outdir)
    if os.path.exists(os.path.join(coq, "KV", "KV.vo")) and (
            not os.path.exists(vo) or os.path.getmtime(vo) < os.path.getmtime(dst)):
        try:
            subprocess.run(["timeout", "120", "coqc", "-R", coq, "Verif", dst], cwd=coq, stdout=subprocess.PIPE,
                           stderr=subprocess.PIPE, timeout=150)
        except (OSError, subprocess.SubprocessError):
            pass
