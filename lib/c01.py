from txcommon import *
from txcommon import n as rN

# codes of coq/Tx/WalletCorr.v and the additions to StoreCorr.v made for C01/C02 (on top of txcommon.CODES):
# 3x = implementation differs from the wallet-layer MODEL, 13x = differs from the LEDGER (property violated)
CODES01 = dict(CODES)
CODES01.update({
    30: "model:wallet_handler_error", 31: "model:wallet_calculate_balance", 32: "model:wallet_list_unspent",
    33: "model:wallet_unspent_outputs", 34: "model:wallet_synced_to", 35: "model:wallet_query_error",
    115: "watch_set_differs_from_ledger",
    131: "wallet_balance_differs_from_ledger", 132: "wallet_list_unspent_differs_from_ledger",
    133: "wallet_unspent_outputs_differ_from_ledger",
    906: "generator:wallet_history_inconsistent", 908: "generator:wallet_translation_changes_facts",
})
WALLET_MODEL_CODES = [30, 31, 32, 33, 34, 35]
WALLET_KINDS = ["wallet_balance_differs_from_ledger", "wallet_list_unspent_differs_from_ledger",
                "wallet_unspent_outputs_differ_from_ledger"]
REORG_TAGS = {"reorg_depth_%d" % d for d in range(1, 11)}


def bid(b):
    return rN(b)  # -1 (a hash the harness could not map back) becomes a value no block has


def r_utxo(u):
    return "{| u_op := %s; u_amt := %s; u_height := %s; u_hash := %s; u_coinbase := %s |}" % (
        op(u["op"]), z(u["amt"]), z(u["h"]), bid(u["b"]), cbool(u["cb"]))


def r_wnotif(x):
    k = x["k"]
    h, b, bt = z(x.get("h", 0)), bid(x.get("b", 0)), z(x.get("bt", 0))
    if k == "connect":
        return "WConnect %s %s %s" % (h, b, bt)
    if k == "disconnect":
        return "WDisconnect %s %s" % (h, b)
    if k == "relevant":
        if x.get("mined"):
            return "WRelevant %s (Some (%s, %s, %s))" % (rN(x["t"]), h, b, bt)
        return "WRelevant %s None" % rN(x["t"])
    if k == "filtered":
        return "WFiltered %s %s %s %s" % (h, b, bt, clist([rN(t) for t in x.get("ts") or []]))
    if k == "store":
        return "WStore (%s)" % r_event(x["e"])
    raise ValueError(k)


def r_wobs(o):
    if o is None:
        return "None"
    lst = clist(["((%s, %s), %s)" % (z(q["min"]), z(q["max"]),
                                     clist(["((%s, %s), %s, %s)" % (rN(e[0]), rN(e[1]), z(e[2]), z(e[3])) for e in q["out"] or []]))
                 for q in o.get("list") or []])
    uns = clist(["(%s, %s)" % (z(q["min"]), clist([r_utxo(u) for u in q["out"] or []])) for q in o.get("unsp") or []])
    return "Some {| wo_err := %s; wo_tip := %s; wo_tiphash := %s; wo_bal := %s; wo_list := %s; wo_unsp := %s |}" % (
        cbool(bool(o.get("err"))), z(o["tip"]), bid(o["tipb"]), clist([z(b) for b in o.get("bal") or []]), lst, uns)


def r_wcase(c):
    i, w = c["in"], c.get("w")
    steps = []
    if w and not w.get("skipped"):
        for s in w["steps"]:
            upto = s["ev"] + 1 if s["ev"] >= 0 else len(i["events"])
            steps.append("\n   {| ws_upto := %d%%nat; ws_notifs := %s; ws_obs := %s |}" % (
                upto, clist(["(%s, %s)" % (r_wnotif(x), cbool(bool(x.get("err")))) for x in s["notifs"] or []]), r_wobs(s.get("obs"))))
    return "{| wc_universe := %s;\n  wc_minconfs := %s;\n  wc_events := %s;\n  wc_steps := %s |}" % (
        clist(["\n   " + r_tx(t) for t in (i["universe"] or [])]) if steps else "[]",
        clist([z(x) for x in (w or {}).get("minconfs") or []]),
        clist([r_event(e) for e in i["events"]]) if steps else "[]", clist(steps))


class TxWalletCheck(TxCheck):
    """TxCheck plus the wallet layer (Tx/Wallet*.v) and this property's code table."""
    TABLE = CODES01

    def render_cases(self, cases):
        return """From stdpp Require Import gmap list numbers.
From Coq Require Import ZArith NArith.
From Verif Require Import Tx.Store Tx.Ledger Tx.Hist Tx.StoreCorr Tx.Wallet Tx.WalletCorr.
Definition cases : list tcase :=
%s.
Definition bad := Eval vm_compute in failures cases.
Print bad.
Definition wcases : list wcase :=
%s.
Definition wbad := Eval vm_compute in wfailures wcases.
Print wbad.
""" % (clist(["\n " + r_case(c) for c in cases]), clist(["\n " + r_wcase(c) for c in cases]))

    def admissible(self, case, ev, code):
        """failure codes that do not count for this case"""
        # universes with zero-value outputs are outside wf_universe on purpose: ledger oracle and model only
        return not (code == 905 and case["in"].get("zero_value"))

    def evaluate_model(self, cases):
        import concurrent.futures as cf
        mism, logs, problems = [], "", []
        # shards balanced by rendered size (wallet cases are several times larger)
        sizes = sorted(((len(json.dumps(c["obs"])) + len(json.dumps(c.get("w") or "")), i) for i, c in enumerate(cases)), reverse=True)
        nb = max(1, min(12, (len(cases) + 3) // 4), (len(cases) + 9) // 10)
        bins, load = [[] for _ in range(nb)], [0] * nb
        for sz, i in sizes:
            k = load.index(min(load))
            bins[k].append(i)
            load[k] += sz
        bins = [sorted(b) for b in bins if b]

        def run(bi):
            return bi, coq_eval(self.ID, self.render_cases([cases[i] for i in bins[bi]]), "cases_%d" % bi)
        with cf.ThreadPoolExecutor(max_workers=12) as ex:
            results = list(ex.map(run, range(len(bins))))
        self.fail_detail = {}
        for bi, (rc, out, err) in results:
            if rc != 0:
                problems.append("correspondence: cases file does not evaluate: " + (err or out)[-1500:])
                continue
            for ident, wallet in (("bad", False), ("wbad", True)):
                printed = parse_printed(out, ident)
                if printed is None:
                    problems.append("correspondence: could not parse model output (%s): %s" % (ident, out[-500:]))
                    continue
                nums = [int(x) for x in re.findall(r"\d+", printed)]
                for j in range(0, len(nums) - 2, 3):
                    ci, ev, code = bins[bi][nums[j]], nums[j + 1], nums[j + 2]
                    if self.admissible(cases[ci], ev, code):
                        self.fail_detail.setdefault(ci, []).append((ev, code, wallet))
        for ci, fl in sorted(self.fail_detail.items()):
            c = cases[ci]
            is_spec = lambda code: 100 <= code < 900 or code == 10
            spec = sorted({self.TABLE.get(code, str(code)) for ev, code, wl in fl if is_spec(code)})
            other = [(ev, code, wl) for ev, code, wl in fl if not is_spec(code)]
            drift = [x for x in other if x[1] < 100 and x[1] not in self.MODEL_CODES]
            other = [x for x in other if not (x[1] < 100 and x[1] not in self.MODEL_CODES)]
            if drift:
                self.drift = getattr(self, "drift", 0) + 1
            spec = [k for k in spec if k in self.KINDS]
            if c["in"].get("zero_value"):
                # the zero-value stream is outside the theorems' hypotheses: its findings carry their own kind
                spec = ["zero_value_output:" + k if k != "store_error" else k for k in spec]
            for k in spec:
                if k not in c["oracle"]:
                    c["oracle"].append(k)
            zv = "zero_value_output:" if c["in"].get("zero_value") else ""
            c["first_failures"] = [dict(event=ev, what=(zv if 100 <= code < 900 else "") + self.TABLE.get(code, str(code)), wallet_step=wl)
                                   for ev, code, wl in fl[:8]]
            if other:
                mism.append(ci)
                gen = [code for ev, code, wl in other if code >= 900 and code != 902]
                if gen:
                    problems.append("generator produced an inadmissible case (index %d): %s" % (ci, [self.TABLE.get(x) for x in gen]))
        return mism, logs, problems

    def site_of(self, case, kind):
        for f in case.get("first_failures") or []:
            if f["what"] == kind:
                if f.get("wallet_step"):
                    steps = (case.get("w") or {}).get("steps") or []
                    if f["event"] < len(steps):
                        ks = [x["k"] for x in steps[f["event"]]["notifs"] or []]
                        return "wallet:" + (ks[-1] if ks else "-")
                    return "wallet"
                ev = case["in"]["events"]
                return ev[f["event"]]["k"] if f["event"] < len(ev) else "pair"
        return case.get("site") or "*"

    def sample(self, c):
        s = TxCheck.sample(self, c)
        w = c.get("w")
        if w and not w.get("skipped"):
            last = [st for st in w["steps"] if st.get("obs")][-1:]
            s["wallet_run"] = dict(notifications=sum(len(st["notifs"] or []) for st in w["steps"]),
                                   final_wallet_observation=last[0]["obs"] if last else None)
        return s

    def extra_coverage(self, cases):
        cov = TxCheck.extra_coverage(self, cases)
        wc = [c for c in cases if c.get("w") and not c["w"].get("skipped")]
        cov["wallet_layer"] = dict(
            histories_delivered_to_a_real_wallet=len(wc),
            notifications=sum(len(st["notifs"] or []) for c in wc for st in c["w"]["steps"]),
            wallet_observations=sum(1 for c in wc for st in c["w"]["steps"] if st.get("obs")),
            histories_without_a_wallet_level_image=sum(1 for c in cases if (c.get("w") or {}).get("skipped")))
        return cov


class C01(TxWalletCheck):
    ID = "C01"
    MODE = "c01"
    LEVEL = "proof"
    MODEL_CODES = [13, 14, 15, 16, 902] + WALLET_MODEL_CODES
    N_QUICK = 120
    N_THOROUGH = 4000
    KINDS = ["balance_differs_from_ledger", "spendable_set_differs_from_ledger", "unconfirmed_set_differs_from_ledger",
             "watch_set_differs_from_ledger", "store_error"] + WALLET_KINDS
    RULE = ("node simulator (mempool with replacement, blocks in topological order, direct-to-block txs, coinbases, "
            "100-block maturity gaps, reorgs of depth 1-10 delivered as one rollback / tip-down / with stale repeats, abandons, "
            "re-deliveries; RECONNECTION of detached blocks - same id/hash/height/time/transactions - in another parents-first order, "
            "interleaved with stale unmined deliveries, after a deeper reorg of what was mined meanwhile, partially, with a rescan overlap, "
            "incl. coinbases; one third of the histories also interleave lease events) over incrementally generated universes of "
            "3-12 txs; amounts in half of the universes from {2^31-1 .. 2^32+1, 2^33+7, 2^40+12345, 21e14-1, 21e14, 2^53-1, 2^53, 2^53+1, 2^54}; "
            "every event is validated by the Coq predicate event_ok inside the cases file. After EVERY event: Balance for "
            "minconf in {0,1} + 4 drawn from {2,6,99,100,101,102,103,150,10^6} x sync in tip+{0,1,99,100}, UnspentOutputs, OutputsToWatch, UnminedTxHashes, "
            "ListLockedOutputs compared with the Coq model AND with the ledger spec. One history in four is ALSO delivered to a real "
            "wallet.Wallet through connectBlock / disconnectBlock / addRelevantTx / the filtered-block handler (every height connected, "
            "rollbacks as tip-down BlockDisconnected, stale/future/repeated disconnects, transactions after / before the BlockConnected "
            "or in one atomic notification, +100 blocks at the end): CalculateBalance, ListUnspent(5 ranges), UnspentOutputs per minconf after "
            "every step compared with the wallet-layer model and with the ledger. One history in twelve has zero-value outputs "
            "(outside wf_universe: model and ledger oracle only). non-trivial = history contains a confirmation and at least one of: "
            "reorg, reconnect, conflict/replacement, abandon, same-block parent/child; distinct by input")
    ASSUMPTIONS = ["int64 wrap-around is outside the model: the amounts of a universe sum below 2^63 (single amounts up to 2^54), heights < 2^20",
                   "late discovery of credits (wallet key set changing inside one history) is not generated",
                   "ListUnspent reports amounts as float64 BTC: an entry counts as correct when it equals Amount.ToBTC() of the true amount",
                   "a refused re-delivery (Redeliver answered with an error and rolled back) is accepted like the idempotent "
                   "re-application: the property only fixes the observable state after it"]
    PARTIAL_CLAUSES = [
        "wallet layer: the ledger comparison of CalculateBalance / ListUnspent / UnspentOutputs applies at the states where the synced height "
        "covers every confirmed transaction (hypothesis of the property); between a bitcoind-order RelevantTx and its BlockConnected only model = implementation is compared",
        "zero-value outputs are outside wf_universe (theorems) - compared with the model and with the ledger oracle only",
    ]

    def gen_args(self, tier, seed):
        # witnesses (findings on the unchanged tree, repaired or recorded) run first
        args = super().gen_args(tier, seed)
        corpus = os.path.join(VERIF, "corpus", "C01")
        pre = []
        if os.path.isdir(corpus):
            for f in sorted(os.listdir(corpus)):
                if not f.endswith(".json") or f == "known_findings_entries.json":
                    continue
                p = os.path.join(WORK, "corpus_C01_" + f + "l")
                os.makedirs(WORK, exist_ok=True)
                with open(p, "w") as out:
                    out.write(json.dumps({"in": json.load(open(os.path.join(corpus, f)))["in"]}) + "\n")
                pre.append(["txstore", "-mode", "c01", "-replay", p])
        return pre + args

    def nontrivial(self, c):
        t = set(c.get("tags", []))
        return "ev_confirm" in t and bool(t & (REORG_TAGS | {"mempool_replacement", "conflict_confirmed", "unconfirmed_conflict_removed_by_confirmation", "ev_abandon",
                                                            "same_block_parent_child", "reconnect_same_block"}))


CHECK = C01
