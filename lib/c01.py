from txcommon import *


class C01(TxCheck):
    ID = "C01"
    MODE = "c01"
    LEVEL = "proof"
    MODEL_CODES = [13, 14, 16, 902]
    N_QUICK = 120
    N_THOROUGH = 4000
    KINDS = ["balance_differs_from_ledger", "spendable_set_differs_from_ledger", "unconfirmed_set_differs_from_ledger", "store_error"]
    RULE = ("node simulator (mempool with replacement, blocks in topological order, direct-to-block txs, coinbases, "
            "100-block maturity gaps, reorgs of depth 1-3 delivered as one rollback / tip-down / with stale repeats, abandons, "
            "re-deliveries; one third of the histories also interleave lease events) over incrementally generated universes of "
            "3-12 txs; every event is validated by the Coq predicate event_ok inside the cases file. After EVERY event: Balance for "
            "minconf in {0,1,2,6,100,101} x sync in tip+{0,1,99,100}, UnspentOutputs, OutputsToWatch, UnminedTxHashes, ListLockedOutputs "
            "compared with the Coq model AND with the ledger spec. non-trivial = history contains a confirmation and at least one of: "
            "reorg, conflict/replacement, abandon, same-block parent/child; distinct by input")
    ASSUMPTIONS = ["int32/int64 wrap-around is outside the model: amounts < 2^53, heights < 2^20 in generated histories",
                   "late discovery of credits (wallet key set changing inside one history) is not generated"]

    def nontrivial(self, c):
        t = set(c.get("tags", []))
        return "ev_confirm" in t and bool(t & {"reorg_depth_1", "reorg_depth_2", "reorg_depth_3", "mempool_replacement",
                                              "conflict_confirmed", "ev_abandon", "same_block_parent_child"})


CHECK = C01
