"""C17: regenerate coq/Generated/SnaclFacts.v from the repository's snacl/snacl.go.

Facts (parameters of the model Crypto/Snacl.v, premises of the theorems of
Properties/C17.v about Decrypt and DeriveKey, discharged there by eq_refl):

  * derive_passes_password_unchanged : bool
      (*SecretKey).deriveKey hands the passphrase bytes to scrypt.Key
      unchanged, at creation (NewSecretKey) and at verification (DeriveKey);
  * digest_compared_prefix : option nat
      None   = DeriveKey compares the whole sha256.Sum256(sk.Key[:]) with the
               whole sk.Parameters.Digest,
      Some n = only the first n bytes are compared;
  * decrypt_checks_open : bool
      (*CryptoKey).Decrypt returns an error when secretbox.Open reports failure.

Each fact is determined on one of two paths:

  source  (primary) harness/cmd/extract-c17 reads snacl/snacl.go (go/ast).  It
          recognises the shapes listed in its header and answers `true` for
          them; every other shape is REFUSED, never read as `false`.

  probe   (fallback, only for a fact whose shape was refused)
          harness/cmd/c17 is built against `repo` (harness module, tag verif)
          and run with -probe (probe.go): the derived keys are compared with
          scrypt.Key of the exact passphrase bytes over a family of
          passphrases; every bit of the stored digest is flipped; tampered
          ciphertexts are decrypted.  The probe yields `true`, or `false` /
          `Some n` together with the witness input, or is inconsistent with
          every instance of the model.

The Generated file says which path produced each fact
(`(* facts source: ... *)`); lib/c17.py copies that into the evidence.  main()
raises only if a fact can be determined on NEITHER path (the check then
reports a broken obligation instead of silently keeping an old fact)."""
import hashlib, json, os, re, shutil, subprocess

import vlib


class ExtractError(Exception):
    pass


def sanitize(msg):
    return re.sub(r"\s+", " ", msg or "").replace("(*", "( *").replace("*)", "* )")


def source_facts(repo):
    with vlib.Lock("go"):
        p = subprocess.run(["go", "run", "./cmd/extract-c17", repo], cwd=vlib.HARNESS, env=vlib.GOENV,
                           stdout=subprocess.PIPE, stderr=subprocess.PIPE, text=True, timeout=280)
    if p.returncode != 0:
        raise ExtractError("extract-c17 failed on %s (rc=%d): %s" % (repo, p.returncode, p.stderr.strip()[-1500:]))
    return json.loads(p.stdout)


def run_probe(repo):
    """build harness/cmd/c17 against `repo` and run it with -probe"""
    with vlib.Lock("go"):
        os.makedirs(os.path.join(vlib.WORK, "bin"), exist_ok=True)
        modflag = []
        if repo == "/repo":
            shutil.copyfile(os.path.join(repo, "go.sum"), os.path.join(vlib.HARNESS, "go.sum"))
        else:
            alt = os.path.join(vlib.WORK, "probe_c17_%s.mod" % hashlib.sha1(repo.encode()).hexdigest()[:8])
            txt = open(os.path.join(vlib.HARNESS, "go.mod")).read().replace("=> /repo", "=> " + repo)
            open(alt, "w").write(txt)
            shutil.copyfile(os.path.join(repo, "go.sum"), alt[:-4] + ".sum")
            modflag = ["-modfile=" + alt]
        exe = os.path.join(vlib.WORK, "bin", "c17-probe")
        p = subprocess.run(["go", "build"] + modflag + ["-tags", "verif", "-o", exe, "./cmd/c17"],
                           cwd=vlib.HARNESS, env=vlib.GOENV, stdout=subprocess.PIPE, stderr=subprocess.PIPE,
                           text=True, timeout=900)
        if p.returncode != 0:
            raise ExtractError("probe: harness/cmd/c17 does not build against %s: %s" % (repo, (p.stdout + p.stderr)[-1500:]))
    p = subprocess.run([exe, "-probe"], cwd=vlib.WORK, stdout=subprocess.PIPE, stderr=subprocess.PIPE, text=True, timeout=300)
    if p.returncode != 0:
        raise ExtractError("probe: c17 -probe failed: %s" % p.stderr[-1500:])
    return json.loads(p.stdout)


def facts(repo):
    """returns dict(pw=(bool, why), digest=(None|int, why), open=(bool, why), source_line=str)"""
    src_err = None
    try:
        s = source_facts(repo)
    except (ExtractError, OSError, ValueError, subprocess.SubprocessError) as e:
        s, src_err = {}, str(e)
    rel = lambda m: (m or "").replace(repo.rstrip("/") + "/", "")      # noqa: E731
    out, need = {}, []
    for key, name in (("pw_unchanged", "pw"), ("digest_full", "digest"), ("open_checked", "open")):
        f = s.get(key) or {}
        if f.get("ok") and f.get("value") is True:
            out[name] = ((None if name == "digest" else True), "source: " + rel(f.get("why", "")))
        else:
            need.append((name, key, rel(f.get("why") or src_err or "no answer")))
    if not need:
        out["source_line"] = "source (shapes of deriveKey / DeriveKey / NewSecretKey / Decrypt recognised)"
        return out
    try:
        resp = run_probe(repo)
    except (ExtractError, OSError, ValueError, subprocess.SubprocessError) as e2:
        raise ExtractError("source shape not recognised (%s) AND probing the built code failed (%s)" % (
            "; ".join("%s: %s" % (k, w) for _, k, w in need), e2))
    for name, key, why in need:
        if name == "pw":
            r = resp["pw_unchanged"]
            if r["value"]:
                out["pw"] = (True, "probe: NewSecretKey and DeriveKey produce scrypt.Key(passphrase bytes, salt, N, r, p, 32) for all %d "
                                   "probe passphrases (source shape not recognised: %s)" % (r["tried"], why))
            else:
                out["pw"] = (False, "probe: %s (source shape not recognised: %s)" % (r.get("witness"), why))
        elif name == "digest":
            r = resp["digest_cmp"]
            if not r["consistent"]:
                raise ExtractError("digest_full: source shape not recognised (%s) AND the probe fits neither a whole-digest nor a "
                                   "prefix comparison: %s" % (why, r["detail"]))
            if r["whole"]:
                out["digest"] = (None, "probe: every single-bit flip of the 32 stored digest bytes is refused "
                                       "(source shape not recognised: %s)" % why)
            else:
                out["digest"] = (int(r["prefix"]), "probe: only the first %d digest bytes are compared - %s "
                                                   "(source shape not recognised: %s)" % (r["prefix"], r["detail"], why))
        else:
            r = resp["open_checked"]
            if not r["consistent"]:
                raise ExtractError("open_checked: source shape not recognised (%s) AND the probe is mixed: %s" % (why, r["detail"]))
            out["open"] = (bool(r["value"]), "probe: %s (source shape not recognised: %s)" % (r["detail"], why))
    out["source_line"] = "probe for %s (determined by running the code built from the repository, harness/cmd/c17 -probe); source for the rest" % (
        ", ".join(k for _, k, _ in need))
    return out


def render(f):
    dg = f["digest"][0]
    return """(* GENERATED by lib/extract_c17.py (harness/cmd/extract-c17, go/ast; fallback harness/cmd/c17 -probe)
   from the repository's snacl/snacl.go.
   Do not edit; bin/extract rewrites it from the current source. *)
(* facts source: %s *)

(* deriveKey hands the passphrase bytes to scrypt.Key unchanged (NewSecretKey and DeriveKey).
   %s *)
Definition derive_passes_password_unchanged : bool := %s.

(* DeriveKey: None = the whole digest is compared, Some n = its first n bytes only.
   %s *)
Definition digest_compared_prefix : option nat := %s.

(* Decrypt returns an error when secretbox.Open reports failure.
   %s *)
Definition decrypt_checks_open : bool := %s.
""" % (sanitize(f["source_line"]),
       sanitize(f["pw"][1]), "true" if f["pw"][0] else "false",
       sanitize(f["digest"][1]), "None" if dg is None else "(Some %d)" % dg,
       sanitize(f["open"][1]), "true" if f["open"][0] else "false")


def main(repo, outdir, write_if_changed):
    write_if_changed(os.path.join(outdir, "SnaclFacts.v"), render(facts(repo)))
