from vlib import *
from concurrent.futures import ThreadPoolExecutor

FOREIGN = 4000000000     # id given to a returned transaction that is not a member of the set


class C14(Check):
    ID = "C14"
    RULE = ("systematic: every DAG on 1..4 transactions with 0/1/2 spent outputs between each ordered pair (760 graphs, parallel "
            "edges included); random: DAGs of 1..40 real wire.MsgTx (1-4 components, chains, fan-in/diamonds, parallel edges, "
            "conflicting siblings spending one outpoint, inputs to transactions outside the set, edge-free sets for the shortcut, "
            "rarely one outpoint twice in a transaction) plus shaped graphs (chain, wide diamond, tree, late parent, conflict fan), "
            "ids relabelled so they do not follow a topological order. Each graph: wtxmgr.DependencySort called 20x (4x systematic) "
            "on maps rebuilt in a fresh random insertion order, and inserted as unmined into a real wtxmgr.Store on a bbolt file, "
            "Store.UnminedTxs called several times. non-trivial = at least one in-set spend edge (Kahn loop runs, not the shortcut); "
            "distinct by input graph")
    N_QUICK = 250
    N_THOROUGH = 6000
    SHARD = 150
    ASSUMPTIONS = [
        "the key of every entry of the map handed to DependencySort is the hash of its transaction (Store.UnminedTxs builds it so)",
        "real transaction hashes make the spend graph acyclic (a hash commits to the hashes it spends); the theorem takes acyclicity "
        "of the in-set spend relation as hypothesis (rank function) and each generated set is re-checked against it by running the model",
        "Go map iteration order is not observable: the tie compares property-relevant behaviour only (every returned order is an "
        "admissible Kahn run = satisfies the property); exact FIFO reproduction by the model is recorded as a diagnostic",
    ]

    def nontrivial(self, c):
        ids = {t["id"] for t in c["in"]["txs"]}
        return any(i[0] in ids for t in c["in"]["txs"] for i in t["ins"])

    def case_input(self, c):
        return c["in"]

    def sample(self, c):
        d = dict(txs=c["in"]["txs"], sort_runs=c["obs"]["sort_runs"], distinct_orders=len(c["obs"]["sort"]),
                 first_orders=c["obs"]["sort"][:2], store_orders=c["obs"]["store"][:1], tags=c["tags"])
        if c["in"].get("mined") or c["in"].get("ops"):
            d.update(mined=c["in"].get("mined", []), ops=c["in"].get("ops", []), ledger=c["obs"].get("ledger"))
        return d

    @staticmethod
    def _dedup(orders):
        seen, out = set(), []
        for o in orders:
            k = tuple(o)
            if k not in seen:
                seen.add(k)
                out.append(o)
        return out

    @staticmethod
    def ledger_of(c):
        """ids the store orders are judged against: the harness's ledger (older replays without it: all members)"""
        led = c["obs"].get("ledger")
        if led is None:
            return [t["id"] for t in c["in"]["txs"]]
        return led

    @classmethod
    def rows_of(cls, c):
        """(txs, orders) rows of one harness case: DependencySort orders over the full member set; Store.UnminedTxs orders
        over the ledger-restricted graph (in the same row when the ledger is the full set)"""
        txs = c["in"]["txs"]
        sort_orders, store_orders = c["obs"]["sort"], c["obs"]["store"]
        led = set(cls.ledger_of(c))
        if not c["obs"].get("store_runs") or led == {t["id"] for t in txs}:
            return [(txs, cls._dedup(sort_orders + store_orders))]
        return [(txs, cls._dedup(sort_orders)), ([t for t in txs if t["id"] in led], cls._dedup(store_orders))]

    @classmethod
    def orders_of(cls, c):
        return [o for _, os_ in cls.rows_of(c) for o in os_]

    def _render(self, cases):
        """text of the cases file and, per Coq row, the index of the harness case it belongs to"""
        def num(i):
            return str(i if i >= 0 else FOREIGN)
        rows, owner = [], []
        for ci, c in enumerate(cases):
            for members, orders in self.rows_of(c):
                txs = clist(["(%s, %s)" % (num(t["id"]), clist(["(%s, %s)" % (num(i[0]), num(i[1])) for i in t["ins"]]))
                             for t in members])
                obs = clist([clist([num(i) for i in o]) for o in orders])
                rows.append("(%s,\n  %s)" % (txs, obs))
                owner.append(ci)
        return self._text(rows), owner

    def render_cases(self, cases):
        return self._render(cases)[0]

    @staticmethod
    def _text(rows):
        return """From Verif Require Import Base.Prelude Tx.Kahn Tx.KahnCorr.
Local Open Scope N_scope.
Definition cases : list case :=
%s.
Definition bad := Eval vm_compute in mismatches cases.
Print bad.
Definition drift := Eval vm_compute in inexact cases.
Print drift.
""" % clist(["\n " + r for r in rows])

    def evaluate_model(self, cases):
        """shards evaluated in parallel; also collects the exact-FIFO diagnostic"""
        mism, logs, problems = [], "", []
        self.drift = []
        starts = list(range(0, len(cases), self.SHARD))

        def one(start):
            text, owner = self._render(cases[start:start + self.SHARD])
            return start, owner, coq_eval(self.ID, text, "cases_%d" % start)
        with ThreadPoolExecutor(max_workers=8) as ex:
            results = list(ex.map(one, starts))
        for start, owner, (rc, out, err) in results:
            logs += out[-1000:] + err[-1000:]
            if rc != 0:
                problems.append("correspondence: cases file does not evaluate: " + err[-1500:])
                continue
            bad = parse_nat_list(parse_printed(out, "bad"))
            drift = parse_nat_list(parse_printed(out, "drift"))
            if bad is None or drift is None:
                problems.append("correspondence: could not parse model output: " + out[-500:])
                continue
            # rows -> harness cases (a case has a second row when its store orders are over a smaller ledger)
            mism.extend(sorted({start + owner[b] for b in bad}))
            self.drift.extend(sorted({start + owner[d] for d in drift}))
        if self.drift:
            log("C14 note: %d cases with an order the FIFO model does not reproduce exactly (still admissible unless listed as "
                "mismatch): the implementation's work-list discipline differs from the model; harmless for C14" % len(self.drift))
        return sorted(set(mism)), logs, problems

    def extra_coverage(self, cases):
        orders = sum(len(self.orders_of(c)) for c in cases)
        runs = sum(c["obs"]["sort_runs"] + c["obs"]["store_runs"] for c in cases)
        stored = [c for c in cases if c["obs"]["store_runs"]]

        def tagged(t):
            return sum(1 for c in cases if t in c.get("tags", []))
        return dict(implementation_calls=runs, distinct_orders_checked_in_coq=orders,
                    cases_through_real_store=len(stored),
                    store_runs_judged_against_ledger=sum(c["obs"]["store_runs"] for c in stored),
                    coq_rows=sum(len(self.rows_of(c)) for c in cases),
                    cases_with_history=sum(1 for c in cases if c["in"].get("ops")),
                    cases_with_ledger_smaller_than_inserted=tagged("ledger_smaller_than_inserted"),
                    cases_with_mined_parent=sum(1 for c in cases if c["in"].get("mined")),
                    cases_with_mined_coinbase_parent=tagged("mined_coinbase_parent"),
                    cases_first_input_spends_mined_coinbase=tagged("first_input_spends_mined_coinbase"),
                    cases_unmined_hash_list_differs_from_ledger=tagged("hash_list_differs_from_ledger"),
                    exact_fifo_model_drift_cases=len(getattr(self, "drift", [])),
                    max_set_size=max([len(c["in"]["txs"]) for c in cases] + [0]))

    # -- shrinking: drop members / inputs while the same violation kind persists
    def _still_fails(self, inp, kind):
        p = os.path.join(WORK, "shrink_in_%s.jsonl" % self.ID)
        with open(p, "w") as f:
            f.write(json.dumps({"in": inp}) + "\n")
        rc, cs, err = run_vh([self.vh_cmd(), "-replay", p], timeout=120)
        return rc == 0 and len(cs) == 1 and kind in cs[0].get("oracle", []), (cs[0] if cs else None)

    @staticmethod
    def _valid(inp):
        """keeps a shrunk input well-formed: steps naming a dropped member go, mined parents nobody spends go (the harness
        itself skips a step whose precondition no longer holds, e.g. a confirm whose parent is unconfirmed again)"""
        inp = dict(inp)
        ids = {t["id"] for t in inp["txs"]}
        spent = {i[0] for t in inp["txs"] for i in t["ins"]}
        for key, keep in (("ops", lambda o: o["id"] in ids), ("mined", lambda m: m["id"] in spent and m["id"] not in ids)):
            if key in inp:
                inp[key] = [x for x in inp[key] if keep(x)]
                if not inp[key]:
                    del inp[key]
        return inp

    def shrink(self, case, kind):
        best = case
        try:
            inp = json.loads(json.dumps(case["in"]))
            changed = True
            while changed:
                changed = False
                for i in range(len(inp["txs"]) - 1, -1, -1):
                    cand = self._valid(dict(inp, txs=inp["txs"][:i] + inp["txs"][i + 1:]))
                    ok, c2 = self._still_fails(cand, kind)
                    if ok:
                        inp, best, changed = cand, c2, True
                for key in ("ops", "mined"):       # then steps of the history / mined parents
                    for i in range(len(inp.get(key, [])) - 1, -1, -1):
                        cand = self._valid(dict(inp, **{key: inp[key][:i] + inp[key][i + 1:]}))
                        ok, c2 = self._still_fails(cand, kind)
                        if ok:
                            inp, best, changed = cand, c2, True
                for ti in range(len(inp["txs"])):
                    for ii in range(len(inp["txs"][ti]["ins"]) - 1, -1, -1):
                        if len(inp["txs"][ti]["ins"]) <= 1:
                            break
                        cand = json.loads(json.dumps(inp))
                        del cand["txs"][ti]["ins"][ii]
                        cand = self._valid(cand)
                        ok, c2 = self._still_fails(cand, kind)
                        if ok:
                            inp, best, changed = cand, c2, True
        except Exception as e:      # shrinking is best effort
            log("C14 shrink stopped: %r" % (e,))
        return best


CHECK = C14
