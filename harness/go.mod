module verifharness

go 1.22

require (
	github.com/btcsuite/btcd v0.24.3-0.20250318170759-4f4ea81776d6
	github.com/btcsuite/btcd/btcec/v2 v2.3.4
	github.com/btcsuite/btcd/btcutil v1.1.5
	github.com/btcsuite/btcd/btcutil/psbt v1.1.8
	github.com/btcsuite/btcd/chaincfg/chainhash v1.1.0
	github.com/btcsuite/btcwallet v0.0.0
	github.com/btcsuite/btcwallet/wallet/txauthor v1.3.5
	github.com/btcsuite/btcwallet/wallet/txrules v1.2.2
	github.com/btcsuite/btcwallet/wallet/txsizes v1.2.5
	github.com/btcsuite/btcwallet/walletdb v1.5.1
	github.com/btcsuite/btcwallet/wtxmgr v1.5.6
	github.com/btcsuite/websocket v0.0.0-20150119174127-31079b680792
	github.com/lightninglabs/neutrino v0.16.0
	github.com/lightningnetwork/lnd/clock v1.0.1
	golang.org/x/crypto v0.22.0
)

require (
	github.com/aead/siphash v1.0.1 // indirect
	github.com/btcsuite/btclog v0.0.0-20170628155309-84c8d2346e9f // indirect
	github.com/btcsuite/go-socks v0.0.0-20170105172521-4720035b7bfd // indirect
	github.com/davecgh/go-spew v1.1.1 // indirect
	github.com/decred/dcrd/crypto/blake256 v1.0.1 // indirect
	github.com/decred/dcrd/dcrec/secp256k1/v4 v4.3.0 // indirect
	github.com/decred/dcrd/lru v1.1.2 // indirect
	github.com/kkdai/bstream v1.0.0 // indirect
	github.com/lightninglabs/gozmq v0.0.0-20191113021534-d20a764486bf // indirect
	github.com/lightninglabs/neutrino/cache v1.1.2 // indirect
	github.com/lightningnetwork/lnd/queue v1.0.1 // indirect
	github.com/lightningnetwork/lnd/ticker v1.0.0 // indirect
	github.com/lightningnetwork/lnd/tlv v1.0.2 // indirect
	github.com/pmezard/go-difflib v1.0.0 // indirect
	github.com/stretchr/objx v0.5.2 // indirect
	github.com/stretchr/testify v1.9.0 // indirect
	go.etcd.io/bbolt v1.3.11 // indirect
	golang.org/x/sys v0.19.0 // indirect
	golang.org/x/term v0.19.0 // indirect
	gopkg.in/yaml.v3 v3.0.1 // indirect
)

replace (
	github.com/btcsuite/btcwallet => /repo
	github.com/btcsuite/btcwallet/wallet/txauthor => /repo/wallet/txauthor
	github.com/btcsuite/btcwallet/wallet/txrules => /repo/wallet/txrules
	github.com/btcsuite/btcwallet/wallet/txsizes => /repo/wallet/txsizes
	github.com/btcsuite/btcwallet/walletdb => /repo/walletdb
	github.com/btcsuite/btcwallet/wtxmgr => /repo/wtxmgr
)
