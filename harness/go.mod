module verifharness

go 1.22

require (
	github.com/btcsuite/btcwallet v0.0.0
	github.com/btcsuite/btcwallet/wallet/txauthor v1.3.5
	github.com/btcsuite/btcwallet/wallet/txrules v1.2.2
	github.com/btcsuite/btcwallet/wallet/txsizes v1.2.5
	github.com/btcsuite/btcwallet/walletdb v1.5.1
	github.com/btcsuite/btcwallet/wtxmgr v1.5.6
)

require (
	github.com/btcsuite/btclog v0.0.0-20170628155309-84c8d2346e9f // indirect
	go.etcd.io/bbolt v1.3.11 // indirect
	golang.org/x/sys v0.19.0 // indirect
)

replace (
	github.com/btcsuite/btcwallet => /repo
	github.com/btcsuite/btcwallet/wallet/txauthor => /repo/wallet/txauthor
	github.com/btcsuite/btcwallet/wallet/txrules => /repo/wallet/txrules
	github.com/btcsuite/btcwallet/wallet/txsizes => /repo/wallet/txsizes
	github.com/btcsuite/btcwallet/walletdb => /repo/walletdb
	github.com/btcsuite/btcwallet/wtxmgr => /repo/wtxmgr
)
