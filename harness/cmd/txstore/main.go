// Command txstore runs chain-consistent event histories against the real
// wtxmgr.Store and prints what the store's API reports after every event
// (C01, C02, C12, C13 share it; -mode selects what is generated/observed).
package main

import (
	"encoding/hex"
	"encoding/json"
	"flag"
	"fmt"
	"sort"

	"github.com/btcsuite/btcwallet/wtxmgr"

	"verifharness/internal/core"
	"verifharness/internal/gen"
	"verifharness/internal/txsim"
)

type input struct {
	Universe []*txsim.Tx     `json:"universe"`
	Events   []txsim.Event   `json:"events"`
	EventsB  []txsim.Event   `json:"events_b,omitempty"` // C02: second history with the same final facts
	MinConfs []int64         `json:"minconfs"`
	SyncOffs []int64         `json:"syncoffs"`
	Details  bool            `json:"details"`
	Reopen   []int           `json:"reopen,omitempty"`  // event indices after which the store is closed and reopened
	Queries  bool            `json:"queries,omitempty"` // C13: block-qualified lookups, full-detail ranges, PreviousPkScripts, GetTransactions
	QSeed    int64           `json:"qseed,omitempty"`   // selects the query arguments per event
	GTQ      []txsim.FixedGT `json:"gtq,omitempty"`     // GetTransactions calls named by the case (corpus)

	// C01 / C02 (wallet layer, wider generator)
	Wallet    bool       `json:"wallet,omitempty"`     // also deliver the history to a real wallet.Wallet through its notification handlers
	WSeed     int64      `json:"wseed,omitempty"`      // selects the notification order / stale notifications of the translation
	ListQ     [][2]int64 `json:"listq,omitempty"`      // ListUnspent(minconf, maxconf) calls
	ZeroValue bool       `json:"zero_value,omitempty"` // the universe has zero-value outputs (outside wf_universe: ledger oracle and model only)
	BKind     string     `json:"bkind,omitempty"`      // C02: how history B was built (direct | shuffled | perturbed)

	// C12 (lease layer, txsim/lease.go)
	LockIDs     []string `json:"lockids,omitempty"`      // hex of the 32-byte identifier standing for model lock id 1, 2, ...
	WalletLease bool     `json:"wallet_lease,omitempty"` // lease / release / list through Wallet.LeaseOutput / ReleaseOutput / ListLeasedOutputs
}

type caseOut struct {
	In     input            `json:"in"`
	Obs    []txsim.Obs      `json:"obs"`             // after each event of Events
	ObsB   *txsim.Obs       `json:"obs_b,omitempty"` // after the last event of EventsB
	Oracle []string         `json:"oracle"`
	Tags   []string         `json:"tags"`
	Site   string           `json:"site,omitempty"`
	W      *txsim.WalletRun `json:"w,omitempty"` // the wallet-level run of Events
}

func tipOf(f *txsim.Facts) int64 {
	tip := int64(-1)
	for _, b := range f.Conf {
		if b[0] > tip {
			tip = b[0]
		}
	}
	return tip
}

func blockIDs(evs ...[]txsim.Event) txsim.BlockIDs {
	m := txsim.BlockIDs{}
	for _, es := range evs {
		for _, e := range es {
			if e.K == "confirm" {
				m[txsim.BlockHash(e.B)] = e.B
			}
		}
	}
	return m
}

// leaseKinds are the violation kinds of the lease layer stated directly on
// what was observed (filled by runHistory when the case opts in).
var leaseKinds []string

func addLeaseKind(k string) {
	for _, x := range leaseKinds {
		if x == k {
			return
		}
	}
	leaseKinds = append(leaseKinds, k)
}

func runHistory(u *txsim.Universe, in input, evs []txsim.Event, everyStep bool) ([]txsim.Obs, error) {
	newDriver := txsim.NewDriver
	if in.Queries {
		newDriver = txsim.NewWalletDriver
	}
	if in.WalletLease {
		newDriver = txsim.NewLeaseWalletDriver
	}
	d, err := newDriver(u)
	if err != nil {
		return nil, err
	}
	defer d.Close()
	if len(in.LockIDs) > 0 {
		d.LockIDs = map[int64]wtxmgr.LockID{}
		for i, h := range in.LockIDs {
			b, err := hex.DecodeString(h)
			if err != nil || len(b) != 32 {
				return nil, fmt.Errorf("lockids[%d] is not 32 hex bytes", i)
			}
			var l wtxmgr.LockID
			copy(l[:], b)
			d.LockIDs[int64(i+1)] = l
		}
	}
	var lastLocked string
	f := txsim.NewFacts()
	opts := txsim.ObserveOpts{MinConfs: in.MinConfs, SyncOffs: in.SyncOffs, Details: in.Details, Ranges: in.Details,
		Blocks: blockIDs(in.Events, in.EventsB)}
	reopen := map[int]bool{}
	for _, i := range in.Reopen {
		reopen[i] = true
	}
	var out []txsim.Obs
	for i, e := range evs {
		so := d.Apply(e)
		f.Apply(u, e)
		if reopen[i] {
			if err := d.Reopen(); err != nil {
				return nil, err
			}
		}
		if everyStep || i == len(evs)-1 {
			o, err := d.Observe(tipOf(f), opts)
			if err != nil {
				// a query that fails is itself an observation
				o.Out.Err = "observe: " + err.Error()
			}
			if in.Queries {
				q, err := d.ObserveQueries(tipOf(f), f, i, in.QSeed, opts.Blocks, in.GTQ)
				if err != nil && o.Out.Err == "" {
					o.Out.Err = "observe: " + err.Error()
				}
				o.Q = q
			}
			if so.Err != "" {
				o.Out.Err = so.Err
			}
			o.Out.Lock, o.Out.Expiry, o.Out.Refused = so.Lock, so.Expiry, so.Refused
			if d.WalletAPI && o.WLeased != nil && !txsim.WalletLeaseListOK(u, f, &o) {
				addLeaseKind("wallet_lease_list_differs_from_store_list")
			}
			if e.K == "restart" || reopen[i] {
				// "leases survive restart": the list after the restart is the list before it
				if now, _ := json.Marshal(o.Locked); everyStep && i > 0 && string(now) != lastLocked {
					addLeaseKind("lease_list_changed_by_restart")
				}
			}
			if b, err := json.Marshal(o.Locked); err == nil {
				lastLocked = string(b)
			}
			out = append(out, o)
		}
	}
	return out, nil
}

// directHistory builds the direct construction of the final facts: confirmed
// transactions block by block (ascending height, parents first), then the
// unconfirmed ones.
func directHistory(u *txsim.Universe, evs []txsim.Event) []txsim.Event {
	f := txsim.NewFacts()
	times := map[int64]int64{}
	for _, e := range evs {
		f.Apply(u, e)
		if e.K == "confirm" {
			times[e.B] = e.BT
		}
	}
	type ct struct {
		t int64
		b [2]int64
	}
	var cs []ct
	for t, b := range f.Conf {
		cs = append(cs, ct{t, b})
	}
	sort.Slice(cs, func(i, j int) bool {
		if cs[i].b[0] != cs[j].b[0] {
			return cs[i].b[0] < cs[j].b[0]
		}
		return cs[i].t < cs[j].t
	})
	var out []txsim.Event
	for _, c := range cs {
		out = append(out, txsim.Event{K: "confirm", T: c.t, H: c.b[0], B: c.b[1], BT: times[c.b[1]]})
	}
	var us []int64
	for t := range f.Unconf {
		us = append(us, t)
	}
	sort.Slice(us, func(i, j int) bool { return us[i] < us[j] })
	for _, t := range us {
		out = append(out, txsim.Event{K: "seen", T: t})
	}
	return out
}

func main() {
	var mode string
	var maxTx, maxEv int
	core.Main("txstore", func(fs *flag.FlagSet) {
		fs.StringVar(&mode, "mode", "c01", "c01|c02|c12|c13")
		fs.IntVar(&maxTx, "maxtx", 12, "max universe size")
		fs.IntVar(&maxEv, "maxev", 40, "max events per history")
	}, func(c *core.Common, out *core.Emitter) error {
		runCase := func(in input, tags []string) error {
			u := txsim.Rebuild(in.Universe)
			for _, t := range u.Txs {
				if t.Coinbase != txsim.IsCoinbase(t) {
					return fmt.Errorf("generator: coinbase encoding mismatch for tx %d", t.ID)
				}
			}
			co := caseOut{In: in, Tags: tags, Oracle: []string{}}
			leaseKinds = nil
			obs, err := runHistory(u, in, in.Events, true)
			if err != nil {
				return err
			}
			co.Obs = obs
			co.Oracle = append(co.Oracle, leaseKinds...)
			for i, e := range in.Events {
				if e.K == "restart" && i < len(obs) && len(obs[i].Locked) > 0 {
					co.Tags = append(co.Tags, "restart_with_live_lease")
					break
				}
			}
			if in.Wallet {
				w, err := txsim.RunWallet(in.Universe, in.Events, in.WSeed, in.MinConfs, in.ListQ,
					txsim.ObserveOpts{MinConfs: in.MinConfs, SyncOffs: in.SyncOffs, Details: in.Details,
						Blocks: blockIDs(in.Events, in.EventsB)})
				if err != nil {
					return err
				}
				co.W = w
				if w.Skipped != "" {
					co.Tags = append(co.Tags, "wallet_translation_skipped")
				} else {
					co.Tags = append(co.Tags, w.Tags...)
				}
			}
			if len(in.EventsB) > 0 {
				ob, err := runHistory(u, in, in.EventsB, false)
				if err != nil {
					return err
				}
				co.ObsB = &ob[len(ob)-1]
				// direct oracle for path independence: identical final observables
				a, _ := json.Marshal(stripOut(obs[len(obs)-1]))
				b, _ := json.Marshal(stripOut(*co.ObsB))
				if string(a) != string(b) {
					co.Oracle = append(co.Oracle, "same_facts_different_observables")
				}
				// ... and history A as the WALLET applied it (disconnectBlock ->
				// Rollback, addRelevantTx) against history B on the bare store
				if co.W != nil && co.W.Final != nil {
					a, _ := json.Marshal(stripOut(*co.W.Final))
					if string(a) != string(b) {
						co.Oracle = append(co.Oracle, "same_facts_different_observables")
						co.Site = "wallet"
					}
				}
			}
			for _, o := range obs {
				if o.Out.Err != "" {
					co.Oracle = append(co.Oracle, "store_error_on_consistent_history")
					break
				}
			}
			for _, o := range obs {
				if o.Out.Refused != "" {
					co.Tags = append(co.Tags, "redeliver_refused")
					break
				}
			}
			out.Emit(co)
			return nil
		}
		if c.Replay != "" {
			return core.ReadReplay(c.Replay, func(raw json.RawMessage) error {
				var cs struct {
					In input `json:"in"`
				}
				if err := json.Unmarshal(raw, &cs); err != nil {
					return err
				}
				return runCase(cs.In, []string{"replay"})
			})
		}
		for i := 0; i < c.N; i++ {
			r := gen.New(c.Seed, int64(1000+i))
			s := txsim.NewSim(r)
			cfg := txsim.GenConfig{MaxTxs: r.Range(3, maxTx), MaxEvents: r.Range(8, maxEv), Leases: mode == "c12" || (mode == "c01" && r.Chance(1, 3)),
				Restarts: mode == "c12"}
			wide := mode == "c01" || mode == "c02"
			if wide {
				// reconnection of detached blocks, reorganisations up to 10
				// blocks, amounts at the encoding boundaries; C02's leases
				// (same_facts includes them); a small separate stream with
				// zero-value outputs
				cfg.Reconnect, cfg.MaxReorg, cfg.WideAmounts = true, 10, r.Chance(1, 2)
				if mode == "c02" {
					cfg.Leases = r.Chance(1, 3)
					cfg.MoreConflicts = true // the property's second sentence
				}
				if mode == "c01" && r.Chance(1, 12) {
					cfg.ZeroValue = true
				}
			}
			s.Run(cfg)
			in := input{Universe: s.U.Txs, Events: s.Events, MinConfs: []int64{0, 1, 2, 6, 100, 101}, SyncOffs: []int64{0, 1, 99, 100},
				Details: mode == "c13" || mode == "c02", Queries: mode == "c13"}
			if in.Queries {
				in.QSeed = int64(r.Intn(1 << 30))
			}
			if len(in.Events) == 0 {
				continue
			}
			var extraTags []string
			if mode == "c01" {
				// minconf 0 and 1 always, four more from below, at and beyond
				// the coinbase maturity and beyond every chain height
				in.MinConfs = []int64{0, 1}
				rest := []int64{2, 6, 99, 100, 101, 102, 103, 150, 1000000}
				for k := 0; k < 4; k++ {
					j := r.Intn(len(rest))
					in.MinConfs = append(in.MinConfs, rest[j])
					rest = append(rest[:j], rest[j+1:]...)
				}
				sort.Slice(in.MinConfs, func(a, b int) bool { return in.MinConfs[a] < in.MinConfs[b] })
				in.ZeroValue = cfg.ZeroValue
			}
			if mode == "c02" {
				in.MinConfs, in.SyncOffs = []int64{0, 1, 2, 6, 99, 100, 101, 102, 103, 150, 1000000}, []int64{0, 100}
				var btags []string
				switch r.Pick(1, 3, 3) {
				case 1:
					in.EventsB, btags = txsim.ShuffledB(s.U, s.Events, r)
					in.BKind = "shuffled"
				case 2:
					in.EventsB, btags = txsim.PerturbedB(s.U, s.Events, r)
					in.BKind = "perturbed"
				}
				if in.BKind == "" || len(in.EventsB) == 0 || !txsim.SamePair(s.U, in.Events, in.EventsB) {
					if in.BKind != "" {
						extraTags = append(extraTags, "b_"+in.BKind+"_rejected")
					}
					in.EventsB, btags, in.BKind = txsim.DirectB(s.U, s.Events), nil, "direct"
				}
				if len(in.EventsB) == 0 {
					continue
				}
				if !txsim.SamePair(s.U, in.Events, in.EventsB) {
					// e.g. a lease that outlived its output: no second history
					// with these raw leases is constructed
					s.Tags["pair_not_constructible"]++
					continue
				}
				extraTags = append(extraTags, btags...)
				extraTags = append(extraTags, "b_"+in.BKind)
			}
			if wide && r.Chance(1, 4) {
				in.Wallet, in.WSeed = true, int64(r.Intn(1<<30))
				in.ListQ = [][2]int64{{0, 9999999}, {1, 9999999}, {0, 0}, {2, 99}, {100, 150}}
			}
			if mode == "c12" {
				// full-width identifiers (prefix / suffix / one-byte relatives),
				// a third of the cases through the wallet-level API
				ids, idTags := txsim.LockIDSet(r, 3)
				for i := int64(1); i <= 3; i++ {
					l := ids[i]
					in.LockIDs = append(in.LockIDs, hex.EncodeToString(l[:]))
				}
				extraTags = append(extraTags, idTags...)
				if r.Chance(1, 3) {
					in.WalletLease = true
					extraTags = append(extraTags, "wallet_lease_api")
				}
			}
			var tags []string
			for k, v := range s.Tags {
				if v > 0 {
					tags = append(tags, k)
				}
			}
			tags = append(tags, extraTags...)
			sort.Strings(tags)
			if err := runCase(in, tags); err != nil {
				return err
			}
		}
		return nil
	})
}

// stripOut removes per-event output from a final observation before
// comparing two histories.
func stripOut(o txsim.Obs) txsim.Obs {
	o.Out = txsim.StepOut{}
	o.Sorted = nil
	o.Ranges = nil // within-block order depends on delivery order
	o.RangeQ = nil
	o.Q = nil
	// the property names balances, spendable outputs and transaction details;
	// the watch, unmined and lease lists are C13's / C12's subject
	o.Watch, o.Unmined, o.Locked, o.Unique = nil, nil, nil, nil
	return o
}
