package main

// Behavioural determination of the control-flow skeleton of the managed calls
// (c11 -flow-probe, used by lib/extract_c11.py).
//
// For each of walletdb.Update, walletdb.View, walletdb.Batch and each way a
// closure can end (returns nil; returns an error - a private error value and,
// separately, the walletdb error a failing bucket call hands out; panics) one
// call is made on a fresh database holding p/k = "0", with a closure that (for
// the read-write calls) puts p/k = "1" first.  Observed afterwards, without
// using any managed call:
//
//   ret   how the call ended for the caller: "nil", "err" (the very error value
//         the closure returned), "panic" (the very value the closure panicked
//         with), "other:..." (anything else);
//   end   what became of the transaction: bbolt still counts an open read
//         transaction, or BeginReadWriteTx does not get the writer lock within
//         three seconds -> "leak"; otherwise p/k read by a fresh manual transaction
//         is "1" -> "commit", "0" -> "rollback".
//
// These are exactly the facts of Generated/TxFlow.v: every fact has its
// scenario, and the scenario is the call the fact speaks about.

import (
	"encoding/json"
	"fmt"
	"os"
	"path/filepath"
	"time"

	"github.com/btcsuite/btcwallet/walletdb"
	"github.com/btcsuite/btcwallet/walletdb/bdb"
)

type probeFact struct {
	End  string `json:"end"`
	Ret  string `json:"ret"`
	Runs int    `json:"runs"`
}

type probeReport struct {
	Update map[string]probeFact `json:"update"`
	View   map[string]probeFact `json:"view"`
	Batch  map[string]probeFact `json:"batch"`
	Detail []string             `json:"detail"`
}

var (
	probeBucket = []byte("p")
	probeKey    = []byte("k")
)

func probeOne(dir string, n int, managed, end string) (probeFact, error) {
	var f probeFact
	file := filepath.Join(dir, fmt.Sprintf("probe-%d.db", n))
	db, err := walletdb.Create("bdb", file, true, 5*time.Second, false)
	if err != nil {
		return f, err
	}
	// setup with a manual transaction (the managed calls are what is probed)
	tx, err := db.BeginReadWriteTx()
	if err != nil {
		return f, err
	}
	b, err := tx.CreateTopLevelBucket(probeBucket)
	if err != nil {
		return f, err
	}
	if err := b.Put(probeKey, []byte("0")); err != nil {
		return f, err
	}
	if err := tx.Commit(); err != nil {
		return f, err
	}

	var returned error // the error value the closure returned
	done := make(chan string, 1)
	go func() {
		done <- func() (ret string) {
			defer func() {
				if p := recover(); p != nil {
					if p == interface{}(panicValue) {
						ret = "panic"
					} else {
						ret = fmt.Sprintf("other:panic %v", p)
					}
				}
			}()
			e := callerOf(db, managed)(func(tx walletdb.ReadWriteTx) error {
				f.Runs++
				if managed != "view" {
					if err := tx.ReadWriteBucket(probeBucket).Put(probeKey, []byte("1")); err != nil {
						panic("c11 probe: put failed: " + err.Error())
					}
				} else {
					_ = tx.ReadWriteBucket(probeBucket).Get(probeKey)
				}
				switch end {
				case "err":
					returned = errClosure
				case "errclass":
					// the error of a failing call, as the adapter hands it out
					_, returned = tx.CreateTopLevelBucket(nil)
					if returned == nil {
						panic("c11 probe: CreateTopLevelBucket(nil) did not fail")
					}
				case "panic":
					panic(panicValue)
				}
				return returned
			})
			switch {
			case e == nil:
				return "nil"
			case e == returned:
				return "err"
			}
			return "other:" + e.Error()
		}()
	}()
	select {
	case f.Ret = <-done:
	case <-time.After(5 * time.Second):
		return f, fmt.Errorf("%s with a closure ending in %s did not return", managed, end)
	}

	open := bdb.VerifOpenReadTxs(db)
	if open < 0 {
		return f, fmt.Errorf("the database handle is not a bdb database (hook VerifOpenReadTxs)")
	}
	type look struct {
		val string
		err error
	}
	got := make(chan look, 1)
	go func() {
		tx, err := db.BeginReadWriteTx()
		if err != nil {
			got <- look{"", err}
			return
		}
		v := string(tx.ReadWriteBucket(probeBucket).Get(probeKey))
		got <- look{v, tx.Rollback()}
	}()
	select {
	case l := <-got:
		if l.err != nil {
			return f, l.err
		}
		switch {
		case open > 0:
			f.End = "leak"
		case l.val == "1":
			f.End = "commit"
		case l.val == "0":
			f.End = "rollback"
		default:
			return f, fmt.Errorf("p/k reads %q after the call", l.val)
		}
	case <-time.After(3 * time.Second):
		f.End = "leak" // the writer lock was never released
	}
	if f.End != "leak" {
		db.Close()
		os.Remove(file)
	}
	return f, nil
}

func runFlowProbe(dir string) error {
	rep := probeReport{Update: map[string]probeFact{}, View: map[string]probeFact{}, Batch: map[string]probeFact{}}
	n := 0
	for _, m := range []struct {
		name string
		into map[string]probeFact
	}{{"update", rep.Update}, {"view", rep.View}, {"batch", rep.Batch}} {
		for _, end := range []string{"nil", "err", "errclass", "panic"} {
			n++
			f, err := probeOne(dir, n, m.name, end)
			if err != nil {
				return fmt.Errorf("flow probe: %s/%s: %v", m.name, end, err)
			}
			rep.Detail = append(rep.Detail, fmt.Sprintf("%s closure %s: transaction %s, call ended %s, closure ran %d time(s)", m.name, end, f.End, f.Ret, f.Runs))
			if end == "errclass" {
				// both error instances must tell the same story; the caller gets "the
				// closure's own error" only if it does in both
				g := m.into["err"]
				if g.End != f.End {
					return fmt.Errorf("flow probe: %s treats a private error (%s) and a walletdb error (%s) differently", m.name, g.End, f.End)
				}
				if f.Ret != "err" {
					g.Ret = f.Ret
				}
				if f.Runs > g.Runs {
					g.Runs = f.Runs
				}
				m.into["err"] = g
				continue
			}
			m.into[end] = f
		}
	}
	out, err := json.Marshal(rep)
	if err != nil {
		return err
	}
	fmt.Println(string(out))
	return nil
}
