// Command c11 runs random sequences of walletdb transactions (managed
// Update/View/Batch with closures that return nil, return an error or panic;
// manual Begin/Commit/Rollback; a reader overlapping a writer; several
// goroutines in Update or Batch at once; close+reopen) against the REAL
// walletdb + bdb on a bbolt file and reports, for every operation, what the
// implementation returned, plus a dump of the whole tree and the number of
// read transactions left open after every step.  The property oracle is evaluated on these observations only (dumps
// before/after, dumps taken inside the transaction, a per-transaction table of
// successful writes); it does not use the Coq model.
package main

import (
	"bytes"
	"encoding/hex"
	"encoding/json"
	"errors"
	"flag"
	"fmt"
	"os"
	"path/filepath"
	"sort"
	"sync"
	"sync/atomic"
	"time"

	"github.com/btcsuite/btcwallet/walletdb"
	"github.com/btcsuite/btcwallet/walletdb/bdb"

	"verifharness/internal/core"
	"verifharness/internal/gen"
)

// ---------------------------------------------------------------- data

// hx is a byte string in JSON: hex text, or null for Go's nil slice.
type hx struct {
	B   []byte
	Nil bool
}

func (h hx) MarshalJSON() ([]byte, error) {
	if h.Nil {
		return []byte("null"), nil
	}
	return json.Marshal(hex.EncodeToString(h.B))
}

func (h *hx) UnmarshalJSON(b []byte) error {
	if string(b) == "null" {
		h.Nil, h.B = true, nil
		return nil
	}
	var s string
	if err := json.Unmarshal(b, &s); err != nil {
		return err
	}
	d, err := hex.DecodeString(s)
	if err != nil {
		return err
	}
	if d == nil {
		d = []byte{}
	}
	h.B, h.Nil = d, false
	return nil
}

func mkhx(b []byte) hx {
	if b == nil {
		return hx{Nil: true}
	}
	return hx{B: append([]byte{}, b...)}
}

// slice returns the Go slice to pass to the API (nil stays nil, empty stays
// empty non-nil).
func (h hx) slice() []byte {
	if h.Nil {
		return nil
	}
	if h.B == nil {
		return []byte{}
	}
	return h.B
}

type cop struct {
	C string `json:"c"` // first last next prev seek delete
	K *hx    `json:"k,omitempty"`
}

type op struct {
	P  []hx   `json:"p"` // bucket path from the root; [] = the transaction itself
	O  string `json:"o"` // put get del mk mkif rm nested foreach seq setseq nextseq cursor dump
	K  *hx    `json:"k,omitempty"`
	V  *hx    `json:"v,omitempty"`
	N  uint64 `json:"n,omitempty"`
	Cs []cop  `json:"cs,omitempty"`
}

type step struct {
	T      string `json:"t"`              // tx | reopen | overlap | conc
	Kind   string `json:"kind,omitempty"` // update-ok update-err update-panic view-ok view-err view-panic batch-ok batch-err batch-panic manual-commit manual-rollback manual-read
	Ops    []op   `json:"ops,omitempty"`
	Before []op   `json:"before,omitempty"`
	After  []op   `json:"after,omitempty"`
	// conc: several goroutines call walletdb.Update (mode "update") or
	// walletdb.Batch (mode "batch") at once, one call each
	Mode  string  `json:"mode,omitempty"`
	Calls []ccall `json:"calls,omitempty"`
}

// ccall is one caller of a concurrent step.  Its closure runs Ops and then
// ends as End says (ok | err | panic).  The first two operations are always
// "create the top-level bucket ord if missing" and "NextSequence on it": the
// number it gets tells where the call stands in the serial order.
type ccall struct {
	End string `json:"end"`
	Ops []op   `json:"ops"`
}

type c11Input struct {
	Steps []step `json:"steps"`
}

type tree struct {
	Seq  uint64  `json:"seq"`
	Ents []tentr `json:"ents"`
}

type tentr struct {
	K hx    `json:"k"`
	V *hx   `json:"v,omitempty"` // value entry
	B *tree `json:"b,omitempty"` // nested bucket
}

type cres struct {
	KV  *[2]hx  `json:"kv,omitempty"`  // key/value returned (value null for nil)
	Nil bool    `json:"nil,omitempty"` // nil key returned
	E   *string `json:"e,omitempty"`   // error class of Delete ("nil" = no error)
}

type result struct {
	T    string  `json:"t"` // err val bool ents num numerr cur tree nobucket
	E    string  `json:"e,omitempty"`
	V    *hx     `json:"v,omitempty"`
	B    bool    `json:"b,omitempty"`
	L    [][2]hx `json:"l,omitempty"`
	N    uint64  `json:"n,omitempty"`
	C    []cres  `json:"c,omitempty"`
	Tree *tree   `json:"tree,omitempty"`
}

type stepObs struct {
	Res    []result `json:"res,omitempty"`
	Ret    string   `json:"ret,omitempty"` // nil | err | panic | other:<text> (reopen: "" or "blocked")
	Runs   int      `json:"runs,omitempty"` // batch: how many times the closure ran
	Before []result `json:"before,omitempty"`
	After  []result `json:"after,omitempty"`
	Post   *tree    `json:"post"`
	Open   int      `json:"open"` // read transactions open after the step (bbolt OpenTxN)
	// conc
	Calls []callObs `json:"calls,omitempty"`
	Order []int     `json:"order,omitempty"` // the calls in the serial order observed
}

type callObs struct {
	Res  []result `json:"res"` // of the last run of the closure
	Ret  string   `json:"ret"`
	Runs int      `json:"runs"`
	Seq  uint64   `json:"seq"` // what NextSequence on ord returned in the last run

	pre, end *tree // dumps taken by the closure's last run before / after its operations
}

type c11Obs struct {
	Steps []stepObs `json:"steps"`
}

type c11Case struct {
	In     c11Input `json:"in"`
	Obs    c11Obs   `json:"obs"`
	Oracle []string `json:"oracle"`
	Tags   []string `json:"tags"`
	Site   string   `json:"site,omitempty"`

	poisoned bool // a step or Close never returned; the database was abandoned
}

// ---------------------------------------------------------------- errors

var (
	errClosure = errors.New("c11: closure failed on purpose")
	panicValue = "c11: closure panicked on purpose"
)

func errClass(err error) string {
	switch {
	case err == nil:
		return "nil"
	case err == walletdb.ErrTxNotWritable:
		return "ErrTxNotWritable"
	case err == walletdb.ErrBucketNotFound:
		return "ErrBucketNotFound"
	case err == walletdb.ErrBucketExists:
		return "ErrBucketExists"
	case err == walletdb.ErrBucketNameRequired:
		return "ErrBucketNameRequired"
	case err == walletdb.ErrKeyRequired:
		return "ErrKeyRequired"
	case err == walletdb.ErrKeyTooLarge:
		return "ErrKeyTooLarge"
	case err == walletdb.ErrValueTooLarge:
		return "ErrValueTooLarge"
	case err == walletdb.ErrIncompatibleValue:
		return "ErrIncompatibleValue"
	case err == walletdb.ErrTxClosed:
		return "ErrTxClosed"
	case err.Error() == "tx not writable":
		// bbolt's own error value, not converted by bdb
		return "BoltErrTxNotWritable"
	}
	return "other:" + err.Error()
}

// ---------------------------------------------------------------- dump

func treeEqual(a, b *tree) bool {
	if a == nil || b == nil {
		return a == b
	}
	if a.Seq != b.Seq || len(a.Ents) != len(b.Ents) {
		return false
	}
	for i := range a.Ents {
		x, y := a.Ents[i], b.Ents[i]
		if !bytes.Equal(x.K.B, y.K.B) {
			return false
		}
		if (x.B == nil) != (y.B == nil) {
			return false
		}
		if x.B != nil {
			if !treeEqual(x.B, y.B) {
				return false
			}
			continue
		}
		if x.V.Nil != y.V.Nil || !bytes.Equal(x.V.B, y.V.B) {
			return false
		}
	}
	return true
}

// normalized: nil values read as empty (what a commit stores).
func normalized(t *tree) *tree {
	if t == nil {
		return nil
	}
	out := &tree{Seq: t.Seq, Ents: make([]tentr, len(t.Ents))}
	for i, e := range t.Ents {
		out.Ents[i].K = e.K
		if e.B != nil {
			out.Ents[i].B = normalized(e.B)
		} else {
			v := hx{B: append([]byte{}, e.V.B...)}
			out.Ents[i].V = &v
		}
	}
	return out
}

// without returns a copy of t in which the subtree of the bucket at path p is
// replaced by an empty placeholder (nil if p is the root).
func without(t *tree, p []hx) *tree {
	if len(p) == 0 {
		return &tree{}
	}
	out := &tree{Seq: t.Seq, Ents: make([]tentr, len(t.Ents))}
	copy(out.Ents, t.Ents)
	for i, e := range out.Ents {
		if e.B != nil && bytes.Equal(e.K.B, p[0].B) {
			out.Ents[i].B = without(e.B, p[1:])
		}
	}
	return out
}

func dumpBucket(b walletdb.ReadBucket) *tree {
	t := &tree{Seq: b.Sequence(), Ents: []tentr{}}
	_ = b.ForEach(func(k, v []byte) error {
		e := tentr{K: mkhx(k)}
		if v == nil {
			if sub := b.NestedReadBucket(k); sub != nil {
				e.B = dumpBucket(sub)
				t.Ents = append(t.Ents, e)
				return nil
			}
		}
		hv := mkhx(v)
		e.V = &hv
		t.Ents = append(t.Ents, e)
		return nil
	})
	return t
}

func dumpTx(tx walletdb.ReadTx) *tree {
	t := &tree{Ents: []tentr{}}
	_ = tx.ForEachBucket(func(k []byte) error {
		e := tentr{K: mkhx(k)}
		if sub := tx.ReadBucket(k); sub != nil {
			e.B = dumpBucket(sub)
		} else {
			hv := hx{Nil: true}
			e.V = &hv
		}
		t.Ents = append(t.Ents, e)
		return nil
	})
	return t
}

func dumpDB(db walletdb.DB) (*tree, error) {
	var t *tree
	err := walletdb.View(db, func(tx walletdb.ReadTx) error {
		t = dumpTx(tx)
		return nil
	})
	return t, err
}

// ---------------------------------------------------------------- executing ops

func navigate(tx walletdb.ReadWriteTx, p []hx) walletdb.ReadWriteBucket {
	b := tx.ReadWriteBucket(p[0].slice())
	for _, n := range p[1:] {
		if b == nil {
			return nil
		}
		b = b.NestedReadWriteBucket(n.slice())
	}
	return b
}

func isMutating(o string) bool {
	switch o {
	case "put", "del", "mk", "mkif", "rm", "setseq", "nextseq":
		return true
	}
	return false
}

func pathKey(p []hx) string {
	s := ""
	for _, n := range p {
		s += hex.EncodeToString(n.B) + "/"
	}
	return s
}

// txCtx carries what the oracle tracks inside one transaction.
type txCtx struct {
	writable bool
	r        *gen.R          // decides where the (costly) namespace check runs; nil on the reader of an overlap
	writes   map[string]*hx  // pathKey+"#"+hex(key) -> last successful write (nil entry = deleted)
	bad      map[string]bool // oracle kinds raised
	nsChecks int
	lastErr  error // what the most recent error-returning call returned (nil or not)
}

func (c *txCtx) raise(kind string) { c.bad[kind] = true }

func (c *txCtx) forgetBelow(p []hx) {
	pre := pathKey(p)
	for k := range c.writes {
		if len(k) >= len(pre) && k[:len(pre)] == pre {
			delete(c.writes, k)
		}
	}
}

func entsOf(b walletdb.ReadBucket) [][2]hx {
	l := [][2]hx{}
	_ = b.ForEach(func(k, v []byte) error {
		l = append(l, [2]hx{mkhx(k), mkhx(v)})
		return nil
	})
	return l
}

func firstGE(l [][2]hx, k []byte) *[2]hx {
	for i := range l {
		if bytes.Compare(l[i][0].B, k) >= 0 {
			return &l[i]
		}
	}
	return nil
}

func sameKV(a *[2]hx, k, v []byte) bool {
	if a == nil {
		return k == nil
	}
	return k != nil && bytes.Equal(a[0].B, k) && bytes.Equal(a[1].B, v) && a[1].Nil == (v == nil)
}

func strictlyAscending(l [][2]hx) bool {
	for i := 1; i < len(l); i++ {
		if bytes.Compare(l[i-1][0].B, l[i][0].B) >= 0 {
			return false
		}
	}
	return true
}

func runCursor(c *txCtx, b walletdb.ReadWriteBucket, cs []cop) []cres {
	out := []cres{}
	base := entsOf(b) // forward enumeration by ForEach, the oracle's baseline
	if !strictlyAscending(base) {
		c.raise("cursor_order_wrong")
	}
	cur := b.ReadWriteCursor()
	pureFwd, pureBwd := len(cs) > 0 && cs[0].C == "first", len(cs) > 0 && cs[0].C == "last"
	for i, x := range cs {
		if i > 0 && x.C != "next" {
			pureFwd = false
		}
		if i > 0 && x.C != "prev" {
			pureBwd = false
		}
	}
	rec := func(k, v []byte) {
		if k == nil {
			out = append(out, cres{Nil: true})
			return
		}
		out = append(out, cres{KV: &[2]hx{mkhx(k), mkhx(v)}})
	}
	for i, x := range cs {
		switch x.C {
		case "first":
			k, v := cur.First()
			rec(k, v)
		case "last":
			k, v := cur.Last()
			rec(k, v)
		case "next":
			k, v := cur.Next()
			rec(k, v)
		case "prev":
			k, v := cur.Prev()
			rec(k, v)
		case "seek":
			k, v := cur.Seek(x.K.slice())
			rec(k, v)
			// oracle: Seek lands on the first entry not below the key
			if !sameKV(firstGE(base, x.K.B), k, v) {
				c.raise("cursor_order_wrong")
			}
		case "delete":
			err := cur.Delete()
			e := errClass(err)
			out = append(out, cres{E: &e})
			if !c.writable && err == nil {
				c.raise("readonly_tx_modified")
			}
			if c.writable {
				c.forgetBelow(nil) // a deleting cursor: forget the write table (conservative)
			}
			base = entsOf(b)
			if !strictlyAscending(base) {
				c.raise("cursor_order_wrong")
			}
		}
		// oracle: a pure forward / backward walk reports the enumeration / its reverse
		if pureFwd || pureBwd {
			var want *[2]hx
			if i < len(base) {
				if pureFwd {
					want = &base[i]
				} else {
					want = &base[len(base)-1-i]
				}
			}
			last := out[len(out)-1]
			var k, v []byte
			if last.KV != nil {
				k, v = last.KV[0].B, last.KV[1].slice()
				if k == nil {
					k = []byte{}
				}
			}
			if i <= len(base) && !sameKV(want, k, v) {
				c.raise("cursor_order_wrong")
			}
		}
	}
	return out
}

// execOp runs one operation on the real transaction and returns what came back.
func execOp(c *txCtx, tx walletdb.ReadWriteTx, o op) result {
	// namespace check: dump the tree seen by this transaction before and
	// after a mutating call and compare everything outside the subtree of p
	var before *tree
	nsCheck := c.r != nil && (isMutating(o.O) || o.O == "cursor") && c.nsChecks < 6 && c.r.Chance(1, 3)
	if nsCheck {
		c.nsChecks++
		before = dumpTx(tx)
	}
	res := execOp1(c, tx, o)
	if nsCheck {
		after := dumpTx(tx)
		if !treeEqual(without(before, o.P), without(after, o.P)) {
			c.raise("bucket_namespace_leak")
		}
		if !c.writable && !treeEqual(before, after) {
			c.raise("readonly_tx_modified")
		}
	}
	return res
}

func execOp1(c *txCtx, tx walletdb.ReadWriteTx, o op) result {
	errRes := func(err error) result {
		if !c.writable && err == nil {
			c.raise("readonly_tx_modified")
		}
		c.lastErr = err
		return result{T: "err", E: errClass(err)}
	}
	if len(o.P) == 0 {
		switch o.O {
		case "mkif":
			_, err := tx.CreateTopLevelBucket(o.K.slice())
			return errRes(err)
		case "rm":
			err := tx.DeleteTopLevelBucket(o.K.slice())
			if err == nil {
				c.forgetBelow([]hx{*o.K})
			}
			return errRes(err)
		case "nested":
			return result{T: "bool", B: tx.ReadWriteBucket(o.K.slice()) != nil}
		case "foreach":
			l := [][2]hx{}
			_ = tx.ForEachBucket(func(k []byte) error {
				l = append(l, [2]hx{mkhx(k), {Nil: true}})
				return nil
			})
			if !strictlyAscending(l) {
				c.raise("cursor_order_wrong")
			}
			return result{T: "ents", L: l}
		case "dump":
			return result{T: "tree", Tree: dumpTx(tx)}
		}
		panic("c11: operation " + o.O + " is not available on the transaction itself")
	}
	b := navigate(tx, o.P)
	if b == nil {
		return result{T: "nobucket"}
	}
	wkey := func() string { return pathKey(o.P) + "#" + hex.EncodeToString(o.K.B) }
	switch o.O {
	case "put":
		err := b.Put(o.K.slice(), o.V.slice())
		if err == nil && c.writable {
			v := *o.V
			c.writes[wkey()] = &v
		}
		return errRes(err)
	case "get":
		v := b.Get(o.K.slice())
		if w, ok := c.writes[wkey()]; ok {
			// oracle: reads see the transaction's own writes.  A written
			// empty/nil value may come back as nil or empty (the code hands
			// back the slice it was given).
			switch {
			case w == nil && v != nil:
				c.raise("read_your_writes_broken")
			case w != nil && len(w.B) > 0 && (v == nil || !bytes.Equal(v, w.B)):
				c.raise("read_your_writes_broken")
			case w != nil && len(w.B) == 0 && len(v) != 0:
				c.raise("read_your_writes_broken")
			}
		}
		hv := mkhx(v)
		return result{T: "val", V: &hv}
	case "del":
		err := b.Delete(o.K.slice())
		if err == nil && c.writable {
			c.writes[wkey()] = nil
		}
		return errRes(err)
	case "mk":
		_, err := b.CreateBucket(o.K.slice())
		return errRes(err)
	case "mkif":
		_, err := b.CreateBucketIfNotExists(o.K.slice())
		return errRes(err)
	case "rm":
		err := b.DeleteNestedBucket(o.K.slice())
		if err == nil {
			c.forgetBelow(append(append([]hx{}, o.P...), *o.K))
		}
		return errRes(err)
	case "nested":
		return result{T: "bool", B: b.NestedReadWriteBucket(o.K.slice()) != nil}
	case "foreach":
		l := entsOf(b)
		if !strictlyAscending(l) {
			c.raise("cursor_order_wrong")
		}
		return result{T: "ents", L: l}
	case "seq":
		return result{T: "num", N: b.Sequence()}
	case "setseq":
		return errRes(b.SetSequence(o.N))
	case "nextseq":
		n, err := b.NextSequence()
		if !c.writable && err == nil {
			c.raise("readonly_tx_modified")
		}
		return result{T: "numerr", N: n, E: errClass(err)}
	case "cursor":
		return result{T: "cur", C: runCursor(c, b, o.Cs)}
	case "dump":
		return result{T: "tree", Tree: dumpBucket(b)}
	}
	panic("c11: unknown operation " + o.O)
}

func newCtx(writable bool, r *gen.R) *txCtx {
	return &txCtx{writable: writable, r: r, writes: map[string]*hx{}, bad: map[string]bool{}}
}

// ---------------------------------------------------------------- running steps

type runner struct {
	dir      string
	file     string
	db       walletdb.DB
	r        *gen.R // oracle sampling only (not part of the input)
	prev     *tree  // dump after the previous step
	kinds    map[string]bool
	stuck    bool
	released bool // the reader of the last overlap step had to be released early
	leaked   bool // a managed call left a read transaction open
	blocked  bool // Close did not return
}

func (rn *runner) open(create bool) error {
	var err error
	if create {
		os.Remove(rn.file)
		rn.db, err = walletdb.Create("bdb", rn.file, true, 10*time.Second, false)
	} else {
		rn.db, err = walletdb.Open("bdb", rn.file, true, 10*time.Second, false)
	}
	return err
}

func execOps(c *txCtx, tx walletdb.ReadWriteTx, ops []op) []result {
	out := make([]result, 0, len(ops))
	for _, o := range ops {
		out = append(out, execOp(c, tx, o))
	}
	return out
}

func (rn *runner) merge(c *txCtx) {
	for k := range c.bad {
		rn.kinds[k] = true
	}
}

// managedCall runs one walletdb.Update / View / Batch call whose closure is
// body and classifies how the call ended for the caller: "nil", "err" (the
// very error value the closure returned came back), "panic" (the closure's own
// panic value came out), "other:...".
func managedCall(call func(func(tx walletdb.ReadWriteTx) error) error, body func(tx walletdb.ReadWriteTx) error) (ret string) {
	defer func() {
		if p := recover(); p != nil {
			if p == interface{}(panicValue) {
				ret = "panic"
			} else {
				ret = fmt.Sprintf("other:panic %v", p)
			}
		}
	}()
	var returned error
	e := call(func(tx walletdb.ReadWriteTx) error {
		returned = body(tx)
		return returned
	})
	switch {
	case e == nil:
		return "nil"
	case e == returned:
		return "err"
	}
	return "other:" + e.Error()
}

// failWith is the error a failing closure returns: the error of its last
// failing call if the last call that reports an error failed (the error value
// the adapter handed out, as real callers pass it on), else a private one.
func failWith(c *txCtx) error {
	if c != nil && c.lastErr != nil {
		return c.lastErr
	}
	return errClosure
}

func callerOf(db walletdb.DB, what string) func(func(tx walletdb.ReadWriteTx) error) error {
	switch what {
	case "update":
		return func(f func(tx walletdb.ReadWriteTx) error) error { return walletdb.Update(db, f) }
	case "batch":
		return func(f func(tx walletdb.ReadWriteTx) error) error { return walletdb.Batch(db, f) }
	case "view":
		return func(f func(tx walletdb.ReadWriteTx) error) error {
			return walletdb.View(db, func(tx walletdb.ReadTx) error { return f(tx.(walletdb.ReadWriteTx)) })
		}
	}
	panic("c11: unknown managed call " + what)
}

// endOf ends a closure the way the kind says.
func endOf(kind string, c *txCtx) error {
	switch {
	case len(kind) >= 4 && kind[len(kind)-4:] == "-err", kind == "err":
		return failWith(c)
	case len(kind) >= 6 && kind[len(kind)-6:] == "-panic", kind == "panic":
		panic(panicValue)
	}
	return nil
}

func managedOf(kind string) string {
	for _, m := range []string{"update", "view", "batch"} {
		if len(kind) > len(m) && kind[:len(m)+1] == m+"-" {
			return m
		}
	}
	return ""
}

// runTx runs one transaction of the given kind; returns results, how the call
// ended, the dump taken inside the transaction after the last operation, and
// how many times the closure ran (bbolt's Batch may run it more than once; the
// results and the dump are those of the last run).
func (rn *runner) runTx(kind string, ops []op) (res []result, ret string, end *tree, runs int, err error) {
	classify := func(e error) string {
		switch {
		case e == nil:
			return "nil"
		case e == errClosure:
			return "err"
		}
		return "other:" + e.Error()
	}
	if m := managedOf(kind); m != "" {
		var last *txCtx
		ret = managedCall(callerOf(rn.db, m), func(tx walletdb.ReadWriteTx) error {
			runs++
			c := newCtx(m != "view", rn.r)
			last = c
			res = execOps(c, tx, ops)
			if m != "view" {
				end = dumpTx(tx)
			}
			return endOf(kind, c)
		})
		if last != nil {
			rn.merge(last)
		}
		return res, ret, end, runs, nil
	}
	switch kind {
	case "manual-commit", "manual-rollback":
		c := newCtx(true, rn.r)
		tx, e := rn.db.BeginReadWriteTx()
		if e != nil {
			return nil, "", nil, 0, e
		}
		res = execOps(c, tx, ops)
		end = dumpTx(tx)
		if kind == "manual-commit" {
			e = tx.Commit()
			ret = classify(e)
		} else {
			e = tx.Rollback()
			if e == nil {
				ret = "err" // same as a failed managed update: rolled back
			} else {
				ret = "other:" + e.Error()
			}
		}
		rn.merge(c)
	case "manual-read":
		c := newCtx(false, rn.r)
		tx, e := rn.db.BeginReadTx()
		if e != nil {
			return nil, "", nil, 0, e
		}
		res = execOps(c, tx.(walletdb.ReadWriteTx), ops)
		e = tx.Rollback()
		ret = classify(e)
		rn.merge(c)
	default:
		return nil, "", nil, 0, fmt.Errorf("unknown kind %q", kind)
	}
	return res, ret, end, 1, nil
}

func commits(kind string) bool {
	return kind == "update-ok" || kind == "manual-commit" || kind == "batch-ok"
}
func readonly(kind string) bool { return len(kind) >= 4 && kind[:4] == "view" || kind == "manual-read" }
func rollsBack(kind string) bool {
	return kind == "update-err" || kind == "update-panic" || kind == "manual-rollback" ||
		kind == "batch-err" || kind == "batch-panic"
}

// judge applies the transaction-level clauses of the property to the dumps:
// pre = the database before the call, end = the tree the closure saw after its
// last operation, post = the database after the call; ret = how the call ended
// for the caller.
func (rn *runner) judge(kind, ret string, pre, end, post *tree) {
	switch {
	case readonly(kind):
		if !treeEqual(pre, post) {
			rn.kinds["readonly_tx_modified"] = true
		}
	case kind == "update-panic" || kind == "batch-panic":
		if !treeEqual(pre, post) {
			rn.kinds["panicked_update_changed_db"] = true
		}
	case rollsBack(kind):
		if !treeEqual(pre, post) {
			rn.kinds["failed_update_changed_db"] = true
		}
		// "one that returns nil makes all of its changes visible": the caller
		// was told nil although the closure failed and its changes are gone
		if ret == "nil" && end != nil && !treeEqual(normalized(end), post) {
			rn.kinds["returned_nil_without_commit"] = true
		}
	case commits(kind):
		want := normalized(end)
		if !treeEqual(want, post) {
			if treeEqual(pre, post) {
				rn.kinds["committed_change_lost"] = true
			} else {
				rn.kinds["partial_commit_visible"] = true
			}
		}
	}
}

// usable checks that a fresh read-write transaction can be begun and committed
// (a writer that was not released makes this block for ever).
func (rn *runner) usable() bool {
	done := make(chan error, 1)
	go func() {
		done <- walletdb.Update(rn.db, func(tx walletdb.ReadWriteTx) error { return nil })
	}()
	select {
	case e := <-done:
		return e == nil
	case <-time.After(3 * time.Second):
		rn.stuck = true
		return false
	}
}

// openReadTxs = bbolt's count of open read transactions behind the handle
// (hook walletdb/bdb/verif_hooks_c11.go); -1 if it cannot be told.
func (rn *runner) openReadTxs() int { return bdb.VerifOpenReadTxs(rn.db) }

// after records what is left open after a step's own calls.  A read
// transaction that a managed call left behind makes the database unusable
// (Close never returns, the file cannot grow): the case loop demonstrates it
// right away with a Close under a short deadline.
func (rn *runner) after(ob *stepObs) {
	n := rn.openReadTxs()
	if n < 0 {
		n = 0
	}
	ob.Open = n
	if n > 0 {
		rn.kinds["read_tx_left_open"] = true
		rn.leaked = true
	}
}

func (rn *runner) runStep(st *step) (stepObs, error) {
	var ob stepObs
	pre := rn.prev
	switch st.T {
	case "tx":
		res, ret, end, runs, err := rn.runTx(st.Kind, st.Ops)
		if err != nil {
			return ob, err
		}
		ob.Res, ob.Ret = res, ret
		if managedOf(st.Kind) == "batch" {
			ob.Runs = runs
		}
		rn.after(&ob)
		if rollsBack(st.Kind) && !rn.usable() {
			rn.kinds["db_unusable_after_failure"] = true
			ob.Post = &tree{Ents: []tentr{}}
			return ob, nil
		}
		post, err := dumpDB(rn.db)
		if err != nil {
			return ob, err
		}
		ob.Post = post
		rn.judge(st.Kind, ret, pre, end, post)
	case "reopen":
		// Close waits for every open transaction
		dl := stepDeadline
		if rn.leaked {
			dl = leakDeadline
		}
		done := make(chan error, 1)
		go func() { done <- rn.db.Close() }()
		select {
		case err := <-done:
			if err != nil {
				return ob, err
			}
		case <-time.After(dl):
			rn.blocked = true
			rn.kinds["db_unusable_after_failure"] = true
			ob.Ret = "blocked"
			return ob, nil // Post stays nil: Close did not return
		}
		rn.leaked = false
		if err := rn.open(false); err != nil {
			return ob, err
		}
		post, err := dumpDB(rn.db)
		if err != nil {
			return ob, err
		}
		ob.Post = post
		if !treeEqual(pre, post) {
			rn.kinds["lost_after_reopen"] = true
		}
	case "overlap":
		// a reader opened before the inner transaction and closed after it
		rc := newCtx(false, nil)
		rtx, err := rn.db.BeginReadTx()
		if err != nil {
			return ob, err
		}
		ob.Before = execOps(rc, rtx.(walletdb.ReadWriteTx), st.Before)
		snap0 := dumpTx(rtx)
		// bbolt cannot grow its memory map while a reader is open: a commit
		// that needs to grow waits for the reader.  Run the inner transaction
		// on another goroutine; if it waits, release the reader (the reads
		// after the inner transaction are then dropped from the step).
		type txOut struct {
			res  []result
			ret  string
			end  *tree
			runs int
			err  error
		}
		done := make(chan txOut, 1)
		go func() {
			res, ret, end, runs, err := rn.runTx(st.Kind, st.Ops)
			done <- txOut{res, ret, end, runs, err}
		}()
		var to txOut
		released := false
		select {
		case to = <-done:
		case <-time.After(400 * time.Millisecond):
			released = true
			rtx.Rollback()
			to = <-done
		}
		res, ret, end, err := to.res, to.ret, to.end, to.err
		if err != nil {
			if !released {
				rtx.Rollback()
			}
			return ob, err
		}
		ob.Res, ob.Ret = res, ret
		if managedOf(st.Kind) == "batch" {
			ob.Runs = to.runs
		}
		snap1 := snap0
		if released {
			rn.released = true
		} else {
			ob.After = execOps(rc, rtx.(walletdb.ReadWriteTx), st.After)
			snap1 = dumpTx(rtx)
			if err := rtx.Rollback(); err != nil {
				return ob, err
			}
		}
		rn.merge(rc)
		// isolation: the reader sees none of the inner transaction's changes
		if !treeEqual(snap0, snap1) || !treeEqual(pre, snap1) {
			rn.kinds["partial_commit_visible"] = true
		}
		rn.after(&ob)
		if rollsBack(st.Kind) && !rn.usable() {
			rn.kinds["db_unusable_after_failure"] = true
			ob.Post = &tree{Ents: []tentr{}}
			return ob, nil
		}
		post, err := dumpDB(rn.db)
		if err != nil {
			return ob, err
		}
		ob.Post = post
		rn.judge(st.Kind, ret, pre, end, post)
	case "conc":
		if err := rn.runConc(st, &ob); err != nil {
			return ob, err
		}
	default:
		return ob, fmt.Errorf("unknown step %q", st.T)
	}
	if ob.Post != nil {
		rn.prev = ob.Post
	}
	return ob, nil
}

// ---------------------------------------------------------------- concurrent callers

var ordName = []byte("ord")

// concHeader: the two operations every concurrent closure starts with.
func concHeader() []op {
	k := mkhx(ordName)
	return []op{{P: []hx{}, O: "mkif", K: &k}, {P: []hx{k}, O: "nextseq"}}
}

func hasConcHeader(ops []op) bool {
	return len(ops) >= 2 && len(ops[0].P) == 0 && ops[0].O == "mkif" && ops[0].K != nil && bytes.Equal(ops[0].K.B, ordName) &&
		len(ops[1].P) == 1 && bytes.Equal(ops[1].P[0].B, ordName) && ops[1].O == "nextseq"
}

// normalizeConc makes a concurrent step well formed (also for hand-written
// replay inputs): header present, no nil values (closures of one bbolt batch
// share a transaction, where a nil value reads back as nil until the commit;
// the property does not speak about that), at least one call.
func normalizeConc(st *step) {
	if st.Mode != "batch" {
		st.Mode = "update"
	}
	for i := range st.Calls {
		c := &st.Calls[i]
		if c.End != "err" && c.End != "panic" {
			c.End = "ok"
		}
		if !hasConcHeader(c.Ops) {
			c.Ops = append(concHeader(), c.Ops...)
		}
		for j := range c.Ops {
			if c.Ops[j].O == "put" && (c.Ops[j].V == nil || c.Ops[j].V.Nil) {
				c.Ops[j].V = &hx{B: []byte{}}
			}
		}
	}
}

func ordSeq(t *tree) uint64 {
	if b := t.at([]hx{mkhx(ordName)}); b != nil {
		return b.Seq
	}
	return 0
}

// runConc lets every call of the step run on its own goroutine, all released
// together, and judges serialisability on what the closures saw: sorted by the
// sequence number each one drew, every closure started from the tree the
// previous committed one ended with (the first from the database before the
// step), failed ones included; the database afterwards is the tree the last
// committed one ended with.
func (rn *runner) runConc(st *step, ob *stepObs) error {
	normalizeConc(st)
	pre := rn.prev
	n := len(st.Calls)
	obs := make([]callObs, n)
	var mu sync.Mutex
	bad := map[string]bool{}
	var wg sync.WaitGroup
	start := make(chan struct{})
	call := callerOf(rn.db, st.Mode)
	for i := 0; i < n; i++ {
		wg.Add(1)
		go func(i int) {
			defer wg.Done()
			c := st.Calls[i]
			o := &obs[i]
			<-start
			o.Ret = managedCall(call, func(tx walletdb.ReadWriteTx) error {
				ctx := newCtx(true, nil)
				o.Runs++
				o.pre = dumpTx(tx)
				o.Res = execOps(ctx, tx, c.Ops)
				o.end = dumpTx(tx)
				o.Seq = 0
				if len(o.Res) >= 2 && o.Res[1].T == "numerr" {
					o.Seq = o.Res[1].N
				}
				mu.Lock()
				for k := range ctx.bad {
					bad[k] = true
				}
				mu.Unlock()
				return endOf(c.End, ctx)
			})
		}(i)
	}
	close(start)
	wg.Wait()
	for k := range bad {
		rn.kinds[k] = true
	}
	ob.Calls = obs
	rn.after(ob)
	if !rn.usable() {
		rn.kinds["db_unusable_after_failure"] = true
		ob.Post = &tree{Ents: []tentr{}}
		return nil
	}
	post, err := dumpDB(rn.db)
	if err != nil {
		return err
	}
	ob.Post = post

	// the serial order: by sequence number drawn; a failed closure drew the
	// number the next committed one drew again
	order := make([]int, n)
	for i := range order {
		order[i] = i
	}
	base := ordSeq(pre) // the counter may have been set anywhere by an earlier step: offsets wrap like it does
	sort.SliceStable(order, func(a, b int) bool {
		x, y := order[a], order[b]
		if obs[x].Seq != obs[y].Seq {
			return obs[x].Seq-base < obs[y].Seq-base
		}
		return st.Calls[x].End != "ok" && st.Calls[y].End == "ok"
	})
	ob.Order = order

	failedKind := func(i int) string {
		if st.Calls[i].End == "panic" {
			return "panicked_update_changed_db"
		}
		return "failed_update_changed_db"
	}
	// blame explains a tree x that should have been cur: is it what a failed
	// closure left?
	blame := func(x *tree) string {
		for i, c := range st.Calls {
			if c.End != "ok" && obs[i].end != nil && obs[i].Runs > 0 &&
				!treeEqual(normalized(obs[i].pre), normalized(obs[i].end)) && treeEqual(x, normalized(obs[i].end)) {
				return failedKind(i)
			}
		}
		return "not_serializable"
	}
	cur := pre
	committed := uint64(0)
	for _, i := range order {
		o := obs[i]
		if o.Runs == 0 || o.pre == nil {
			// the closure never ran: a call that returned nil without it lost nothing it promised
			continue
		}
		if p := normalized(o.pre); !treeEqual(p, cur) {
			rn.kinds[blame(p)] = true
		}
		if st.Calls[i].End == "ok" {
			committed++
			if o.Seq != base+committed {
				rn.kinds["not_serializable"] = true
			}
			cur = normalized(o.end)
		} else if o.Ret == "nil" && !treeEqual(normalized(o.pre), normalized(o.end)) {
			rn.kinds["returned_nil_without_commit"] = true
		}
	}
	if !treeEqual(post, cur) {
		rn.kinds[blame(post)] = true
	}
	return nil
}

// ---------------------------------------------------------------- generator

// The generator keeps a shadow of the tree (the dump after the previous step,
// updated naively inside a transaction body) only to aim operations at names
// that exist; the oracle never looks at it.

func cloneTree(t *tree) *tree {
	out := &tree{Seq: t.Seq, Ents: make([]tentr, len(t.Ents))}
	for i, e := range t.Ents {
		out.Ents[i] = e
		if e.B != nil {
			out.Ents[i].B = cloneTree(e.B)
		}
	}
	return out
}

func (t *tree) find(k []byte) int {
	for i, e := range t.Ents {
		if bytes.Equal(e.K.B, k) {
			return i
		}
	}
	return -1
}

func (t *tree) at(p []hx) *tree {
	for _, n := range p {
		if t == nil {
			return nil
		}
		i := t.find(n.B)
		if i < 0 || t.Ents[i].B == nil {
			return nil
		}
		t = t.Ents[i].B
	}
	return t
}

func (t *tree) set(e tentr) {
	if i := t.find(e.K.B); i >= 0 {
		t.Ents[i] = e
		return
	}
	t.Ents = append(t.Ents, e)
	sort.Slice(t.Ents, func(i, j int) bool { return bytes.Compare(t.Ents[i].K.B, t.Ents[j].K.B) < 0 })
}

func (t *tree) del(k []byte) {
	if i := t.find(k); i >= 0 {
		t.Ents = append(t.Ents[:i:i], t.Ents[i+1:]...)
	}
}

// sizeEst over-approximates the bytes the bucket's entries occupy in its
// parent-independent leaf pages (small nested buckets are stored inline).
func sizeEst(t *tree) int {
	n := 0
	for _, e := range t.Ents {
		n += 32 + len(e.K.B)
		if e.B != nil {
			c := sizeEst(e.B)
			if c > 1100 {
				c = 1100
			}
			n += c
		} else {
			n += len(e.V.B)
		}
	}
	return n
}

func allPaths(t *tree, pre []hx, out *[][]hx) {
	for _, e := range t.Ents {
		if e.B != nil {
			p := append(append([]hx{}, pre...), e.K)
			*out = append(*out, p)
			allPaths(e.B, p, out)
		}
	}
}

var specialKeys = [][]byte{
	{0x00}, {0x00, 0x00}, {0x00, 0x01}, {0xff}, {0xff, 0xff}, {0xff, 0x00}, {0xfe, 0xff},
	[]byte("a"), []byte("ab"), []byte("abc"), []byte("b"), {'a', 0x00}, {'a', 0xff}, []byte("ba"),
	{0x7f}, {0x80}, {0x01},
}

type genState struct {
	r         *gen.R
	tier      string
	graveyard [][]byte // names of buckets deleted earlier in the case
	commitsRW int
	bigDone   bool
	tags      map[string]bool
	nsteps    int
	plan      []string // scripted tail of the case: fail, grow, reopen, check
	planned   bool
	forcePlan bool
}

func (g *genState) key(b *tree) hx {
	r := g.r
	switch {
	case b != nil && len(b.Ents) > 0 && r.Chance(2, 5):
		return b.Ents[r.Intn(len(b.Ents))].K
	case r.Chance(1, 25):
		return hx{B: []byte{}}
	case r.Chance(3, 5):
		return mkhx(specialKeys[r.Intn(len(specialKeys))])
	case b != nil && len(b.Ents) > 0 && r.Chance(1, 2):
		// extend or cut an existing name: keys that are prefixes of each other
		k := append([]byte{}, b.Ents[r.Intn(len(b.Ents))].K.B...)
		g.tags["prefix_keys"] = true
		if len(k) > 1 && r.Chance(1, 2) {
			return mkhx(k[:len(k)-1])
		}
		return mkhx(append(k, []byte{0x00, 0xff, 'a'}[r.Intn(3)]))
	}
	return mkhx(r.Bytes(r.Range(1, 3)))
}

func (g *genState) value() hx {
	r := g.r
	switch r.Pick(1, 3, 14, 1) {
	case 0:
		g.tags["nil_value"] = true
		return hx{Nil: true}
	case 1:
		g.tags["empty_value"] = true
		return hx{B: []byte{}}
	case 2:
		return mkhx(r.Bytes(r.Range(1, 8)))
	}
	return mkhx(r.Bytes(r.Range(60, 200)))
}

func (g *genState) bucketName(b *tree) hx {
	r := g.r
	if len(g.graveyard) > 0 && r.Chance(1, 3) {
		g.tags["recreate_deleted"] = true
		return mkhx(g.graveyard[r.Intn(len(g.graveyard))])
	}
	return g.key(b)
}

// cursorWalk builds the calls made on one cursor.  fwdOnly: the bucket may
// span several pages and had deletions in this transaction, where bbolt's Prev
// is known to stop early (reported finding); only First/Next/Seek/Delete then.
func (g *genState) cursorWalk(b *tree, fwdOnly, writable bool) []cop {
	r := g.r
	n := 0
	if b != nil {
		n = len(b.Ents)
	}
	seek := func() cop { k := g.key(b); return cop{C: "seek", K: &k} }
	var cs []cop
	pat := r.Pick(4, 4, 3, 4, 4)
	if fwdOnly && (pat == 1 || pat == 3) {
		pat = 0
	}
	switch pat {
	case 0: // full forward scan, one call past the end
		cs = append(cs, cop{C: "first"})
		for i := 0; i < n+1; i++ {
			cs = append(cs, cop{C: "next"})
		}
	case 1: // full backward scan
		cs = append(cs, cop{C: "last"})
		for i := 0; i < n+1; i++ {
			cs = append(cs, cop{C: "prev"})
		}
	case 2: // seeks
		for i := r.Range(1, 4); i > 0; i-- {
			cs = append(cs, seek())
			if r.Chance(1, 2) {
				cs = append(cs, cop{C: "next"})
			}
		}
	case 3: // mixed walk without mutation, including the bounces at both ends
		for i := r.Range(2, 10); i > 0; i-- {
			switch r.Pick(2, 2, 5, 5, 3) {
			case 0:
				cs = append(cs, cop{C: "first"})
			case 1:
				cs = append(cs, cop{C: "last"})
			case 2:
				cs = append(cs, cop{C: "next"})
			case 3:
				cs = append(cs, cop{C: "prev"})
			case 4:
				cs = append(cs, seek())
			}
		}
	case 4: // position, delete, re-position (the documented way), repeat
		g.tags["cursor_delete"] = true
		for i := r.Range(1, 4); i > 0; i-- {
			var pos cop
			switch r.Pick(3, 1, 4) {
			case 0:
				pos = cop{C: "first"}
			case 1:
				pos = cop{C: "last"}
			case 2:
				pos = seek()
			}
			if fwdOnly && pos.C == "last" {
				pos = cop{C: "first"}
			}
			cs = append(cs, pos)
			if r.Chance(1, 3) {
				cs = append(cs, cop{C: "next"})
			}
			cs = append(cs, cop{C: "delete"})
			if pos.C == "seek" {
				cs = append(cs, pos) // re-seek the same key: lands on the follower
			} else {
				cs = append(cs, cop{C: "first"})
			}
			fwdOnly = fwdOnly || false
		}
	}
	_ = writable
	return cs
}

// body generates the operations of one transaction.
func (g *genState) body(shadow *tree, writable bool, n int) []op {
	r := g.r
	w := cloneTree(shadow)
	deleted := map[string]bool{} // buckets with deletions in this transaction
	big := func(p []hx) bool {
		b := shadow.at(p)
		return b != nil && sizeEst(b) > 1500
	}
	var ops []op
	var lastPut *op
	for len(ops) < n {
		var paths [][]hx
		allPaths(w, nil, &paths)
		// top-level operations
		if len(paths) == 0 || r.Chance(1, 9) {
			root := w
			k := g.bucketName(root)
			switch r.Pick(6, 2, 2, 1) {
			case 0:
				ops = append(ops, op{P: []hx{}, O: "mkif", K: &k})
				if writable && len(k.B) > 0 && root.find(k.B) < 0 {
					root.set(tentr{K: k, B: &tree{Ents: []tentr{}}})
				}
			case 1:
				ops = append(ops, op{P: []hx{}, O: "rm", K: &k})
				if writable && root.at([]hx{k}) != nil {
					root.del(k.B)
					g.graveyard = append(g.graveyard, k.B)
					deleted[""] = true
				}
			case 2:
				ops = append(ops, op{P: []hx{}, O: "nested", K: &k})
			case 3:
				ops = append(ops, op{P: []hx{}, O: "foreach"})
			}
			continue
		}
		p := paths[r.Intn(len(paths))]
		if r.Chance(1, 40) { // a path that does not lead to a bucket
			p = append(append([]hx{}, p...), mkhx([]byte("nope")))
		}
		b := w.at(p)
		if len(p) == 4 {
			g.tags["depth4"] = true
		}
		pk := pathKey(p)
		// read-your-writes: come back to the last put now and then
		if lastPut != nil && r.Chance(1, 6) {
			ops = append(ops, op{P: lastPut.P, O: "get", K: lastPut.K})
			continue
		}
		k := g.key(b)
		weights := []int{30, 14, 9, 6, 5, 5, 4, 4, 2, 2, 3, 12, 1}
		if !writable {
			weights = []int{10, 14, 6, 4, 4, 4, 4, 5, 4, 3, 3, 10, 1}
		}
		switch r.Pick(weights...) {
		case 0:
			v := g.value()
			if r.Chance(1, 4000) {
				k = mkhx(bytes.Repeat([]byte{0x41}, 32769))
				g.tags["key_too_large"] = true
			}
			o := op{P: p, O: "put", K: &k, V: &v}
			ops = append(ops, o)
			lastPut = &o
			if writable && b != nil && len(k.B) > 0 && len(k.B) <= 32768 {
				if i := b.find(k.B); i < 0 || b.Ents[i].B == nil {
					vv := v
					b.set(tentr{K: k, V: &vv})
				}
			}
		case 1:
			ops = append(ops, op{P: p, O: "get", K: &k})
		case 2:
			ops = append(ops, op{P: p, O: "del", K: &k})
			if writable && b != nil {
				if i := b.find(k.B); i >= 0 && b.Ents[i].B == nil {
					b.del(k.B)
					deleted[pk] = true
				}
			}
		case 3, 4:
			nm := g.bucketName(b)
			o := "mk"
			if r.Chance(1, 2) {
				o = "mkif"
			}
			if len(p) >= 4 { // nested depth is kept at most 4
				ops = append(ops, op{P: p, O: "nested", K: &nm})
				break
			}
			ops = append(ops, op{P: p, O: o, K: &nm})
			if writable && b != nil && len(nm.B) > 0 && b.find(nm.B) < 0 {
				b.set(tentr{K: nm, B: &tree{Ents: []tentr{}}})
			}
		case 5:
			if len(k.B) == 0 && big(p) && deleted[pk] {
				// bbolt answers by the key its search stops at, which is nil on
				// a leaf page emptied in this transaction
				k = mkhx([]byte("a"))
			}
			ops = append(ops, op{P: p, O: "rm", K: &k})
			if writable && b != nil {
				if i := b.find(k.B); i >= 0 && b.Ents[i].B != nil {
					b.del(k.B)
					g.graveyard = append(g.graveyard, k.B)
					deleted[pk] = true
				}
			}
		case 6:
			ops = append(ops, op{P: p, O: "nested", K: &k})
		case 7:
			ops = append(ops, op{P: p, O: "foreach"})
		case 8:
			ops = append(ops, op{P: p, O: "seq"})
		case 9:
			vals := []uint64{0, 1, 7, 1 << 32, 1 << 63, ^uint64(0), ^uint64(0) - 1, uint64(r.Int63())}
			ops = append(ops, op{P: p, O: "setseq", N: vals[r.Intn(len(vals))]})
		case 10:
			ops = append(ops, op{P: p, O: "nextseq"})
		case 11:
			fwdOnly := big(p) && deleted[pk]
			cs := g.cursorWalk(b, fwdOnly, writable)
			ops = append(ops, op{P: p, O: "cursor", Cs: cs})
			for _, c := range cs {
				if c.C == "delete" && writable {
					deleted[pk] = true
					// the shadow is no longer exact for this bucket; refresh is
					// not possible inside the body, names stay as candidates
				}
			}
		case 12:
			ops = append(ops, op{P: p, O: "dump"})
		}
	}
	return ops
}

func (g *genState) bulk(shadow *tree) []op {
	// one bucket filled with enough keys to span several pages after commit
	r := g.r
	g.tags["bigbucket"] = true
	top := mkhx([]byte("big"))
	ops := []op{{P: []hx{}, O: "mkif", K: &top}}
	n := r.Range(120, 260)
	if g.tier == "thorough" {
		n = r.Range(150, 600)
	}
	for i := 0; i < n; i++ {
		k := mkhx(append([]byte{byte('k' + r.Intn(2))}, r.Bytes(r.Range(2, 5))...))
		v := mkhx(r.Bytes(r.Range(8, 30)))
		ops = append(ops, op{P: []hx{top}, O: "put", K: &k, V: &v})
	}
	return ops
}

// conc generates a step in which 2..6 goroutines call walletdb.Update or
// walletdb.Batch at once.  The closures work on one shared bucket with a
// handful of keys, so that they overlap; which of them fail or panic is part
// of the input.  Nothing in a body depends on the order in which they will run.
func (g *genState) conc() step {
	r := g.r
	st := step{T: "conc", Mode: "update"}
	if r.Chance(1, 2) {
		st.Mode = "batch"
	}
	cc := mkhx([]byte("cc"))
	keys := [][]byte{{0x00}, []byte("a"), []byte("ab"), {0xff}, []byte("b")}
	n := r.Range(2, 6)
	for i := 0; i < n; i++ {
		c := ccall{End: []string{"ok", "err", "panic"}[r.Pick(6, 2, 2)], Ops: concHeader()}
		c.Ops = append(c.Ops, op{P: []hx{}, O: "mkif", K: &cc})
		for j, m := 0, r.Range(1, 5); j < m; j++ {
			k := mkhx(keys[r.Intn(len(keys))])
			switch r.Pick(8, 4, 3, 2, 2, 1, 1) {
			case 0:
				v := mkhx(append([]byte{byte('A' + i)}, r.Bytes(r.Range(0, 4))...))
				c.Ops = append(c.Ops, op{P: []hx{cc}, O: "put", K: &k, V: &v})
			case 1:
				c.Ops = append(c.Ops, op{P: []hx{cc}, O: "get", K: &k})
			case 2:
				c.Ops = append(c.Ops, op{P: []hx{cc}, O: "del", K: &k})
			case 3:
				c.Ops = append(c.Ops, op{P: []hx{cc}, O: "foreach"})
			case 4:
				c.Ops = append(c.Ops, op{P: []hx{cc}, O: "nextseq"})
			case 5:
				sub := mkhx([]byte("sub"))
				c.Ops = append(c.Ops, op{P: []hx{cc}, O: "mkif", K: &sub})
			case 6:
				c.Ops = append(c.Ops, op{P: []hx{}, O: "dump"})
			}
		}
		st.Calls = append(st.Calls, c)
	}
	return st
}

func (g *genState) step(shadow *tree, idx int) step {
	r := g.r
	kinds := []string{"update-ok", "update-err", "update-panic", "view-ok", "view-err", "view-panic",
		"manual-commit", "manual-rollback", "manual-read", "batch-ok", "batch-err", "batch-panic"}
	pickKind := func() string { return kinds[r.Pick(30, 8, 7, 8, 2, 2, 6, 4, 3, 6, 4, 3)] }
	if idx == 0 {
		return step{T: "tx", Kind: "update-ok", Ops: g.body(shadow, true, r.Range(4, 14))}
	}
	// Scripted tail (one case in six): a transaction that fails or panics,
	// then an update that makes the file grow (the memory map has to be
	// re-made, which waits for every open transaction), then close + reopen,
	// then a last look.  A lock or transaction left behind by the failing
	// step shows up here.
	if !g.planned && g.nsteps >= 5 && idx == g.nsteps-4 {
		g.planned = true
		if r.Chance(1, 6) || g.forcePlan {
			g.plan = []string{"fail", "grow", "reopen", "check"}
			g.tags["fail_then_grow_then_reopen"] = true
		}
	}
	if len(g.plan) > 0 {
		what := g.plan[0]
		g.plan = g.plan[1:]
		switch what {
		case "fail":
			k := []string{"view-panic", "view-err", "update-panic", "update-err", "manual-rollback", "batch-panic", "batch-err"}[r.Pick(4, 2, 2, 2, 1, 2, 2)]
			return step{T: "tx", Kind: k, Ops: g.body(shadow, !readonly(k), r.Range(1, 5))}
		case "grow":
			top := mkhx([]byte("grow"))
			ops := []op{{P: []hx{}, O: "mkif", K: &top}}
			for i, n := 0, r.Range(14, 20); i < n; i++ {
				k := mkhx([]byte{'g', byte(i)})
				v := mkhx(bytes.Repeat([]byte{byte(r.Intn(256))}, r.Range(2500, 3500)))
				ops = append(ops, op{P: []hx{top}, O: "put", K: &k, V: &v})
			}
			kind := "update-ok"
			if r.Chance(1, 4) {
				kind = "manual-commit"
			}
			return step{T: "tx", Kind: kind, Ops: ops}
		case "reopen":
			return step{T: "reopen"}
		case "check":
			return step{T: "tx", Kind: "view-ok", Ops: g.body(shadow, false, r.Range(1, 4))}
		}
	}
	switch c := r.Pick(40, 5, 3, 2, 6); {
	case c == 1:
		return step{T: "reopen"}
	case c == 4:
		return g.conc()
	case c == 2 && g.commitsRW <= 2 && sizeEst(shadow) < 600:
		// a reader that overlaps a small inner transaction (kept to the first
		// commits of a case: bbolt cannot grow its mmap under an open reader)
		k := pickKind()
		inner := g.body(shadow, !readonly(k), r.Range(1, 4))
		small := inner[:0]
		for _, o := range inner {
			if o.V == nil || len(o.V.B) < 20 {
				small = append(small, o)
			}
		}
		return step{T: "overlap", Kind: k, Ops: small,
			Before: g.body(shadow, false, r.Range(1, 3)), After: g.body(shadow, false, r.Range(1, 4))}
	case c == 3 && !g.bigDone && (g.tier == "thorough" || r.Chance(1, 3)):
		g.bigDone = true
		return step{T: "tx", Kind: "update-ok", Ops: g.bulk(shadow)}
	}
	k := pickKind()
	return step{T: "tx", Kind: k, Ops: g.body(shadow, !readonly(k), r.Range(2, 14))}
}

// ---------------------------------------------------------------- cases

// stepDeadline bounds every database step (a transaction, a close+reopen, the
// final Close).  A step that does not return within it means some lock of the
// database was never released (for example a read transaction left open by a
// panicking View blocks a file-growing commit and Close for ever): the case
// is emitted with db_unusable_after_failure and the database is abandoned.
var stepDeadline = 6 * time.Second

// leakDeadline bounds the Close that follows a step after which bbolt still
// counts an open read transaction: a Close of these small files takes
// milliseconds; with a read transaction open it never returns.
var leakDeadline = 1500 * time.Millisecond

// failName names a step after which "the database must still be usable".
func failName(kind string) string {
	switch kind {
	case "view-panic":
		return "panicking_view"
	case "view-err":
		return "failing_view"
	case "update-panic":
		return "panicking_update"
	case "update-err":
		return "failing_update"
	case "manual-rollback":
		return "rolled_back_tx"
	case "batch-panic":
		return "panicking_batch"
	case "batch-err":
		return "failing_batch"
	}
	return ""
}

func stepName(st step) string {
	if st.T == "reopen" {
		return "close"
	}
	n := "update"
	switch {
	case st.T == "conc":
		return "concurrent_" + st.Mode
	case managedOf(st.Kind) == "batch":
		n = "batch"
	case readonly(st.Kind):
		n = "view"
	case st.Kind == "manual-commit" || st.Kind == "manual-rollback":
		n = "manual_tx"
	}
	if st.T == "overlap" {
		n += "_under_reader"
	}
	return n
}

func runCase(dir string, seedR *gen.R, in *c11Input, g *genState, nsteps int) (c11Case, error) {
	rn := &runner{dir: dir, file: filepath.Join(dir, fmt.Sprintf("c11-%d.db", atomic.AddInt64(&caseSeq, 1))), r: seedR, kinds: map[string]bool{}}
	cs := c11Case{Oracle: []string{}, Tags: []string{}, Site: "walletdb/bdb"}
	if err := rn.open(true); err != nil {
		return cs, err
	}
	rn.prev = &tree{Ents: []tentr{}}
	tags := map[string]bool{}
	var steps []step
	if in != nil {
		steps = in.Steps
		nsteps = len(steps)
	}
	if g != nil {
		g.nsteps = nsteps
	}
	lastFail := ""                  // the most recent failing / panicking step
	kindsSoFar := map[string]bool{} // oracle kinds after the last completed step
	poisoned := false
	suffix := func() string {
		if lastFail != "" {
			return "_after_" + lastFail
		}
		return ""
	}
	type stepOut struct {
		ob  stepObs
		err error
	}
	probeLeak := false // the next step is the Close that shows what an open read transaction does
	for i := 0; (i < nsteps || probeLeak) && !poisoned; i++ {
		var st step
		switch {
		case probeLeak && (in == nil || i >= len(steps) || steps[i].T != "reopen"):
			// inserted step (a replay of this case finds it in the input)
			st = step{T: "reopen"}
			if in != nil {
				steps = append(steps[:i:i], append([]step{st}, steps[i:]...)...)
				nsteps = len(steps)
			}
		case in != nil:
			st = steps[i]
		default:
			st = g.step(rn.prev, i)
		}
		wasProbe := probeLeak
		probeLeak = false
		rn.released = false
		ch := make(chan stepOut, 1)
		go func() {
			ob, err := rn.runStep(&st)
			ch <- stepOut{ob, err}
		}()
		var ob stepObs
		select {
		case o := <-ch:
			if o.err != nil {
				return cs, fmt.Errorf("step %d (%s %s): %v", i, st.T, st.Kind, o.err)
			}
			ob = o.ob
		case <-time.After(stepDeadline + leakDeadline):
			// the step never returned: do not touch the runner any more
			poisoned = true
			kindsSoFar["db_unusable_after_failure"] = true
			cs.Site = stepName(st) + suffix()
			ob = stepObs{Ret: "other:blocked", Post: &tree{Ents: []tentr{}}}
			tags["step_blocked"] = true
		}
		if !poisoned && rn.released {
			st.After = nil
			tags["overlap_reader_released"] = true
		}
		cs.In.Steps = append(cs.In.Steps, st)
		cs.Obs.Steps = append(cs.Obs.Steps, ob)
		if st.T == "tx" || st.T == "overlap" {
			tags[st.Kind] = true
			if commits(st.Kind) && g != nil {
				g.commitsRW++
			}
			if ob.Runs > 1 {
				tags["batch_closure_rerun"] = true
			}
		}
		if st.T == "conc" {
			tags["conc_"+st.Mode] = true
			tags[fmt.Sprintf("conc_callers_%d", len(st.Calls))] = true
			failed := 0
			for j, c := range st.Calls {
				if c.End != "ok" {
					failed++
				}
				if j < len(ob.Calls) && ob.Calls[j].Runs > 1 {
					tags["batch_closure_rerun"] = true
				}
			}
			if failed > 0 && failed < len(st.Calls) {
				tags["conc_mixed_outcomes"] = true
			}
			for j := range ob.Order {
				if ob.Order[j] != j {
					tags["conc_order_not_call_order"] = true
				}
			}
			if g != nil {
				g.commitsRW++
			}
		}
		if st.T != "tx" {
			tags[st.T] = true
		}
		all := [][]result{ob.Res, ob.Before, ob.After}
		for _, c := range ob.Calls {
			all = append(all, c.Res)
		}
		for _, rs := range all {
			for _, x := range rs {
				if x.E != "" && x.E != "nil" {
					tags["err:"+x.E] = true
				}
				if x.T == "nobucket" {
					tags["nobucket"] = true
				}
				for _, c := range x.C {
					if c.E != nil && *c.E != "nil" {
						tags["err:cursor:"+*c.E] = true
					}
				}
			}
		}
		if readonly(st.Kind) {
			for _, o := range st.Ops {
				if isMutating(o.O) {
					tags["ro_write_attempt"] = true
				}
			}
		}
		if poisoned {
			break
		}
		for k := range rn.kinds {
			kindsSoFar[k] = true
		}
		if rn.blocked { // Close did not return: the database is abandoned
			poisoned = true
			cs.Site = "close" + suffix()
			tags["close_blocked"] = true
			if wasProbe {
				tags["close_blocked_by_open_read_tx"] = true
			}
			break
		}
		if rn.stuck { // the begin-and-commit probe after a failing step timed out
			poisoned = true
			cs.Site = "update_after_" + failName(st.Kind)
			break
		}
		if f := failName(st.Kind); f != "" && st.T != "reopen" {
			lastFail = f
		}
		if rn.leaked {
			// a managed call left a read transaction open
			if f := failName(st.Kind); f == "" {
				lastFail = stepName(st)
			}
			cs.Site = "open_read_tx" + suffix()
			probeLeak = true
		}
	}
	// Close under the same deadline: it waits for every open transaction.
	if !poisoned {
		done := make(chan error, 1)
		go func() { done <- rn.db.Close() }()
		select {
		case err := <-done:
			if err != nil {
				return cs, fmt.Errorf("close: %v", err)
			}
			// what the managed calls say on a closed database (evidence only:
			// the property does not speak about it)
			for _, m := range []string{"update", "view", "batch"} {
				e := callerOf(rn.db, m)(func(tx walletdb.ReadWriteTx) error { return nil })
				cl := "nil"
				switch {
				case e == walletdb.ErrDbNotOpen:
					cl = "ErrDbNotOpen"
				case e != nil:
					cl = "unconverted:" + e.Error()
				}
				tags["closed_db:"+m+":"+cl] = true
			}
			os.Remove(rn.file)
		case <-time.After(stepDeadline):
			poisoned = true
			kindsSoFar["db_unusable_after_failure"] = true
			cs.Site = "close" + suffix()
			tags["close_blocked"] = true
		}
	}
	cs.poisoned = poisoned
	if g != nil {
		for t := range g.tags {
			tags[t] = true
		}
	}
	for k := range kindsSoFar {
		cs.Oracle = append(cs.Oracle, k)
	}
	sort.Strings(cs.Oracle)
	for t := range tags {
		cs.Tags = append(cs.Tags, t)
	}
	sort.Strings(cs.Tags)
	return cs, nil
}

var caseSeq int64

// probeEmptyLeaf reproduces the reported bbolt behaviour: Prev stops at a leaf
// page emptied earlier in the same transaction.
func probeEmptyLeaf() *c11Input {
	top := mkhx([]byte("big"))
	var fill, del []op
	fill = append(fill, op{P: []hx{}, O: "mkif", K: &top})
	for i := 0; i < 600; i++ {
		k := mkhx([]byte(fmt.Sprintf("k%05d", i)))
		v := mkhx(bytes.Repeat([]byte{byte(i)}, 24))
		fill = append(fill, op{P: []hx{top}, O: "put", K: &k, V: &v})
	}
	for i := 150; i < 450; i++ {
		k := mkhx([]byte(fmt.Sprintf("k%05d", i)))
		del = append(del, op{P: []hx{top}, O: "del", K: &k})
	}
	cs := []cop{{C: "last"}}
	for i := 0; i < 301; i++ {
		cs = append(cs, cop{C: "prev"})
	}
	del = append(del, op{P: []hx{top}, O: "cursor", Cs: cs})
	return &c11Input{Steps: []step{{T: "tx", Kind: "update-ok", Ops: fill}, {T: "tx", Kind: "update-ok", Ops: del}}}
}

func main() {
	probe := false
	workers := 4
	flowProbe := false
	core.Main("c11", func(fs *flag.FlagSet) {
		fs.IntVar(&workers, "workers", workers, "cases run at a time")
		fs.BoolVar(&flowProbe, "flow-probe", false, "determine the control-flow skeleton of Update / View / Batch behaviourally and print it (lib/extract_c11.py)")
		fs.BoolVar(&probe, "probe-emptyleaf", false, "also run the backward walk over a leaf page emptied in the same transaction")
		fs.DurationVar(&stepDeadline, "step-deadline", stepDeadline, "a database step that does not return within this time counts as blocked")
	}, func(c *core.Common, out *core.Emitter) error {
		dir, err := os.MkdirTemp("", "vh-c11-")
		if err != nil {
			return err
		}
		defer os.RemoveAll(dir)
		if flowProbe {
			return runFlowProbe(dir)
		}
		if workers < 1 {
			workers = 1
		}
		// last resort only: every database step already runs under stepDeadline
		watchdog := time.AfterFunc(8*time.Minute, func() {
			fmt.Fprintln(os.Stderr, "c11: watchdog: harness blocked")
			os.Exit(4)
		})
		defer watchdog.Stop()
		or := gen.New(c.Seed, 1111) // oracle sampling
		// A blocked step leaves a goroutine inside the database for good.  The
		// case is emitted; later cases use fresh files, and after the second
		// such case the run stops (normally, so that the driver reports it).
		poisonedCases := 0
		errStop := errors.New("stop")
		if c.Replay != "" {
			err := core.ReadReplay(c.Replay, func(raw json.RawMessage) error {
				var cs struct {
					In c11Input `json:"in"`
				}
				if err := json.Unmarshal(raw, &cs); err != nil {
					return err
				}
				// JSON null (Go's nil slice) leaves a pointer field nil
				for i := range cs.In.Steps {
					st := &cs.In.Steps[i]
					for _, ops := range [][]op{st.Ops, st.Before, st.After} {
						for j := range ops {
							if ops[j].O == "put" && ops[j].V == nil {
								ops[j].V = &hx{Nil: true}
							}
						}
					}
				}
				res, err := runCase(dir, or, &cs.In, nil, 0)
				if err != nil {
					return err
				}
				res.Tags = append(res.Tags, "replay")
				out.Emit(res)
				if res.poisoned {
					if poisonedCases++; poisonedCases >= 2 {
						return errStop
					}
				}
				return nil
			})
			if err == errStop {
				return nil
			}
			return err
		}
		if probe {
			res, err := runCase(dir, or, probeEmptyLeaf(), nil, 0)
			if err != nil {
				return err
			}
			res.Tags = append(res.Tags, "probe_emptyleaf")
			res.Site = "bbolt/cursor.prev"
			out.Emit(res)
		}
		// Cases are independent (own file, own random streams derived from the
		// seed and the case number) and mostly wait (bbolt's batch timer,
		// fsync): a few of them run at a time; they are emitted in order.
		type caseOut struct {
			res c11Case
			err error
		}
		outs := make([]caseOut, c.N)
		var next, poisonedRun int64 = -1, 0
		var wg sync.WaitGroup
		for w := 0; w < workers; w++ {
			wg.Add(1)
			go func() {
				defer wg.Done()
				for {
					i := int(atomic.AddInt64(&next, 1))
					if i >= c.N || atomic.LoadInt64(&poisonedRun) >= 2 {
						return
					}
					r := gen.New(c.Seed, 11000+int64(i))
					g := &genState{r: r, tier: c.Tier, tags: map[string]bool{}}
					// the first cases of every run carry the scripted tail for sure
					g.forcePlan = i < 6
					n := r.Range(3, 12)
					if g.forcePlan && n < 5 {
						n = 5
					}
					res, err := runCase(dir, gen.New(c.Seed, 111000+int64(i)), nil, g, n)
					outs[i] = caseOut{res, err}
					if err == nil && res.poisoned {
						atomic.AddInt64(&poisonedRun, 1)
					}
				}
			}()
		}
		wg.Wait()
		for i := 0; i < c.N; i++ {
			if outs[i].err != nil {
				return fmt.Errorf("case %d: %v", i, outs[i].err)
			}
			if outs[i].res.Obs.Steps == nil {
				continue // not run: two cases had blocked before
			}
			out.Emit(outs[i].res)
			if outs[i].res.poisoned {
				if poisonedCases++; poisonedCases >= 2 {
					fmt.Fprintln(os.Stderr, "c11: two cases blocked; stopping after", i+1, "cases")
					return nil
				}
			}
		}
		return nil
	})
}
